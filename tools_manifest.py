#!/usr/bin/env python3
"""Regenerates MANIFEST.json from the table below (kept in one place so it stays valid)."""
import json

CHECKS = {
 "C12": dict(
   text="Coq theorems over all strings (list N): the fs.path model equals a component-list reference "
        "(normpath = component-wise resolution incl. exactly-when-it-raises, idempotence, clean components, "
        "split/join/combine/iteratepath/recursepath/parts inverses on normal forms, isbase/isparent/frombase/"
        "issamedir/relativefrom as whole-component comparisons). The hand-written model is tied to /repo's "
        "fs/path.py on every run by differential execution of the extracted model against the real functions "
        "(exhaustive component sequences + random unicode strings) and the real functions are compared with "
        "the reference on the laws' domain.",
   note="Trusted: Coq kernel, extraction (ExtrOcamlBasic only) + ocaml/driver.ml, harness. Modelled not verified: "
        "CPython str methods; the regex of _requires_normalization is modelled at component granularity.",
   technique="Coq proof (induction over strings/component lists) + extracted-model correspondence",
   ref="DESIGN.md §4 C12"),
}

def main():
    checks = []
    for pid in sorted(CHECKS):
        c = CHECKS[pid]
        checks.append(dict(
            property_id=pid,
            quick_cmd="bin/check %s --tier quick" % pid,
            thorough_cmd="bin/check %s --tier thorough" % pid,
            evidence_file="evidence/%s.json" % pid,
            replay_cmd_template="bin/check %s --replay {path}" % pid,
            engine="coq-correspondence",
            level_claimed=dict(category="proof", text=c["text"], design_ref=c["ref"]),
            level_note=c["note"], technique=c["technique"]))
    all_ids = ["C%02d" % i for i in range(1, 21)]
    na = [dict(property_id=p, reason="not built yet (work in progress; see DESIGN.md §6 build order)")
          for p in all_ids if p not in CHECKS]
    m = dict(
        version=1,
        setup_cmd="bin/build",
        hooks=dict(guard="PYFS2_VERIF", enable="no hooks are needed: the harness imports fs from /repo and "
                   "instruments it from its own process (proxy filesystems, module-attribute patching)",
                   baseline_off_cmd="cd /repo && /venv/bin/python -m pytest -ra -q -p no:cacheprovider --timeout=900 "
                   "--continue-on-collection-errors",
                   source_commits=[], add_only=True),
        engines=[dict(name="coq-correspondence", path="bin/check",
                      serves_properties=sorted(CHECKS),
                      kind_free_text="Coq 8.16 theorems over hand-written Gallina models (coq/), tied to /repo by "
                      "running the extracted model (OCaml) and the real code on the same cases (harness/)")],
        checks=checks,
        not_applicable=na,
        notes="All checks: cwd=/verif; they import fs from /repo's working tree (PYTHONPATH=/repo).")
    with open("/verif/MANIFEST.json", "w") as fh:
        json.dump(m, fh, indent=1)
        fh.write("\n")

if __name__ == "__main__":
    main()
