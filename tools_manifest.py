#!/usr/bin/env python3
"""Regenerates MANIFEST.json from the table below (kept in one place so it stays valid)."""
import json

CORR = ("Tie to /repo: hand-written Gallina model, extracted (ExtrOcamlBasic only) and run against the real code on the "
        "same generated cases on every run; a sample is re-evaluated inside Coq with vm_compute. ")
TB = ("Trusted: Coq 8.16.1 kernel (coqc, vm_compute, no native_compute), extraction + ocaml/driver.ml, the Python harness. "
      "No axioms (Print Assumptions: closed under the global context). ")

CHECKS = {
 "C01": dict(
   text="Refinement proof: the MemoryFS model (fs/memoryfs.py + the fs/base.py defaults it uses) refines the reference "
        "semantics FS/Ref.v (verdict, admissible error class, return value, resulting tree) for every well-formed state and "
        "every argument, for all calls of the model: the 23 calls that do not go through the directory walker, makedirs, copydir and "
        "movedir (fast path and directory merges; non-degenerate source/destination, NUL-free names as invariant); "
        "well-formedness is an invariant. The SubFS model (any nesting depth) and WrapFS over it refine the reference on the "
        "sub-tree and change nothing outside it. The OSFS model (FS/Osfs.v: OSFS's methods and the inherited defaults over a POSIX "
        "kernel model FS/Posix.v with Linux's errno choices, wrapped in convert_os_errors) refines the reference for the 23 non-"
        "walker calls and makedirs (up to modification times; exactly where the kernel does not stamp), preserves well-"
        "formedness, and gives the same verdict as the MemoryFS model; a MultiFS with one (write) member refines that member. "
        + CORR + "Real OSFS vs the OSFS model step by step (generated + directed histories: call kind x 13 path classes x 19 "
        "modes) and the model's 419 recorded kernel answers vs the live kernel. Real MemoryFS and SubFS(MemoryFS) are compared "
        "with their models "
        "step by step (outcome and exact entry order, incl. the parent outside the sub-directory); every other backend/composition "
        "(OSFS, TempFS, WrapFS kinds, MountFS, MultiFS, write-mode Zip/Tar) is compared with the reference step by step from "
        "the backend's own pre-state (correspondence only). FTPFS (with and without MLST/MLSD) runs the same comparison against "
        "a loop-back pyftpdlib server started by the harness. Text calls (writetext/appendtext/readtext/open in text modes, every "
        "keyword found by reflection: encoding, errors, newline, buffering, line_buffering) on every backend vs the same call "
        "sequence through io.open on a real file (verdict, returned text, stored bytes after every call).",
   note=TB + "Modelled not verified: CPython str/OrderedDict semantics, the Linux kernel (FS/Posix.v: no permissions, links or "
        "concurrency; answers re-checked per run), archives' temp filesystems; copydir/movedir on OSFS tied but not proved. "
        "Degenerate merges (destination an ancestor of the source) and FTPFS: not proved; FTPFS is exercised against a local "
        "pyftpdlib server only (its deviations are recorded findings).",
   technique="Coq refinement proofs (MemoryFS, SubFS/WrapFS, OSFS-over-kernel-model, one-member MultiFS vs reference) + "
             "extracted-model/real-code step-by-step ties + reference differential on 13 backends",
   ref="DESIGN.md §4 C01, §9"),
 "C04": dict(
   text="Theorems on the read-only wrapper model (FS/ReadOnly.v: every mutating call, and open with a writable mode, raises "
        "ResourceReadOnly before looking at its arguments; everything else delegates): for EVERY sequence of calls through "
        "read_only over the MemoryFS model, over WrapFS, over SubFS at any depth and over another read_only, the wrapped tree "
        "is unchanged, refused calls report ResourceReadOnly, let-through calls are transparent, and nothing is visible to later "
        "calls on the wrapped filesystem. " + CORR + "Real fs.wrap.read_only(MemoryFS) vs the extracted model step by step "
        "(outcome and storage tree after every call). "
        "Table theorems re-checked by coqc on every run over the dispatch table dumped from the running code (class x public "
        "method -> implementing class, with 'mutating' measured on a writable twin): no mutating method of the read-only "
        "wrapper resolves to WrapFS's delegating implementation; the archive readers implement their essential mutators "
        "themselves. Reflection sweep: every public FS method x synthesised arguments (incl. a writable mode through **options) "
        "x 12 read-only constructions (incl. a backend using subfs_class, archives with implied directories), then "
        "write/writelines/truncate on returned handles, mutators on returned sub-filesystems, glob().remove(); the storage "
        "underneath is snapshotted around each call; a read archive must keep looking exactly like a freshly opened one.",
   note=TB + "Arguments are synthesised from parameter names; the read-mode archives and read_only over OSFS/MountFS are "
        "exercised, not modelled.",
   technique="Coq proof (read-only wrapper model, all call sequences) + model/real differential + table theorems over a "
             "regenerated dispatch table + reflection-driven snapshot differential",
   ref="DESIGN.md §4 C04, §9"),
 "C05": dict(
   text="Theorems: the extracted predicate `preserved` (no unrelated file lost or changed; successful transfer delivered) holds "
        "for the reference semantics and for the MemoryFS model for every well-formed tree and every argument pair of move, "
        "copy, removetree and movedir onto a fresh destination (model tree = reference tree exactly), and for the model's copydir "
        "and movedir with directory merges whatever the outcome (FS/RefineWalkPreserved.v). " + CORR +
        "The same extracted predicate is applied to storage snapshots of 8 backends and of fs.move/fs.copy functions across "
        "filesystem pairs, incl. two filesystem objects over one storage and a corpus of degenerate nestings; symlink scenarios "
        "on OSFS. A stronger predicate preserved2 (FS/Props2*.v, 8 theorems: a destination may only hold its old bytes or the "
        "source's; proved for the same calls) is the one the harness applies; transfers across two devices (/tmp and /dev/shm: "
        "os.rename fails with EXDEV) and onto a destination too small for the data (RLIMIT_FSIZE) are judged by it whatever the "
        "outcome.",
   note=TB + "Degenerate nestings (destination inside / ancestor of the source) and views of one storage are covered by the "
        "correspondence run only (four recorded findings). OSFS runs against the real kernel.",
   technique="Coq proof of the preservation predicate on reference+model; extracted predicate applied to real snapshots",
   ref="DESIGN.md §4 C05, §9"),
 "C06": dict(
   text="Theorems on the MemoryFS model (calls in `covered`): the only non-fs.errors outcome is the documented ValueError for an "
        "invalid mode; every error class is admissible for the reference in that state (its documented condition holds); a "
        "failed call leaves the tree as it was. For the walker-based calls makedirs/copydir/movedir (FS/PropsWalk.v, corollaries of "
        "the refinement under resolvable paths and non-degenerate source/destination): they never crash or diverge, every error "
        "class is admissible, a call rejected by its argument checks changes nothing (each argument check named), a failed "
        "makedirs leaves no intermediate directory, and the only failure that may leave something behind is a file/directory "
        "clash met while merging (characterised exactly). " + CORR + "Failure-biased histories on 13 backends: class admissible "
        "for the reference in the backend's pre-state, str()/repr() render, snapshot unchanged for single-resource calls; a call "
        "the reference rejects must not return normally; every exception raised anywhere in those histories is rendered (str, repr, "
        "%-format, format, traceback, pickle round trip); paths beyond the backend's max_sys_path_length in every path position.",
   note=TB + "Admissible classes are those of FS/Ref.v (DESIGN.md C01 error-precedence principle). errno translation of the real "
        "kernel is exercised, not modelled.",
   technique="Coq proof (corollaries of the refinement) + failing-call differential against the reference",
   ref="DESIGN.md §4 C06, §9"),
 "C10": dict(
   text="Theorems on the MemoryFS model for every state and path: queries are pure; exists = isdir||isfile (never both); "
        "listdir = names of scandir, each once; isempty iff listdir empty; getsize = len(readbytes) = info size; gettype/isdir/"
        "isfile agree with getinfo; every scandir info equals getinfo(join(d, name)). Real backends (15 incl. read-only "
        "archives, FTPFS on a local server, six OS-backed trees with symbolic links): all queries on every resource after the calls "
        "of random histories are compared with each other; scandir infos vs getinfo on every namespace both carry (basic, details, "
        "access, stat, lstat, link, zip, tar; all 128 subsets in the thorough tier) and every page window.",
   note=TB + "Info accessor conversions (times, permissions) and JSON-serialisability are stdlib-relative: checked on the "
        "implementation only.",
   technique="Coq proof on the model + mutual-consistency sweep on the implementation",
   ref="DESIGN.md §4 C10, §9"),
 "C11": dict(
   text="Theorems: the reference depends on a path argument only through its resolved components (all 26 calls); in the MemoryFS "
        "model two calls whose path arguments resolve alike are the same state transformer (function equality, every call except "
        "makedirs). Real backends: each probe call is issued with >= 7 spellings of the same normal form from identical states; "
        "outcome class and resulting tree must coincide; bounded walks, glob and filterdir (every keyword by reflection) issued "
        "with every spelling of the start directory must give the same ordered answers incl. the reported paths.",
   note=TB + "Linux '..' resolution behind OSFS is exercised, not modelled.",
   technique="Coq proof (spelling-independence) + spelling-group differential on 9 backends",
   ref="DESIGN.md §4 C11, §9"),
 "C12": dict(
   text="Coq theorems over all strings (list N): the fs.path model equals a component-list reference "
        "(normpath = component-wise resolution incl. exactly-when-it-raises, idempotence, clean components, "
        "split/join/combine/iteratepath/recursepath/parts inverses on normal forms, isbase/isparent/frombase/"
        "issamedir/relativefrom as whole-component comparisons). " + CORR + "Exhaustive component sequences + random unicode "
        "strings; the real functions are also compared with the reference on the laws' domain.",
   note=TB + "Modelled not verified: CPython str methods; the regex of _requires_normalization is modelled at component granularity.",
   technique="Coq proof (induction over strings/component lists) + extracted-model correspondence",
   ref="DESIGN.md §4 C12"),
 "C13": dict(
   text="Theorems for every finite tree, every pair of per-entry predicates (any filter options), any max_depth and start path: "
        "the explicit-stack depth-first loop terminates within its fuel and equals the recursive stream (children before their "
        "directory); the breadth-first loop terminates; both report exactly the recursive listing (Permutation), hence the same "
        "set; unfiltered walks list every file and directory. " + CORR + "Exact emitted sequences of walk/files/dirs/info on "
        "MemoryFS, OSFS, SubFS, MountFS; all small trees + random trees x filter options.",
   note=TB + "Name/glob filters follow Glob/ShellSpec.v; the backend's scandir order is taken from the backend.",
   technique="Coq proof (stack/queue invariants) + exact-sequence correspondence",
   ref="DESIGN.md §4 C13, §9"),
 "C14": dict(
   text="Theorems about the documented semantics (recursive component-wise matcher): '*', '?', classes never cross '/'; a "
        "'**'-free pattern of k components matches only k-component paths; '**' matches any number of whole levels and only "
        "whole levels; levels bound is sound (depth pruning loses no match); literal patterns match in full; the pattern cache is "
        "bounded, keeps unique keys and never changes an answer. Theorems about the code's regex translation (Glob/Translate.v, "
        "a line-by-line model of wildcard._translate, glob._translate, glob._translate_glob producing the regex TEXT): the text is "
        "the rendering of a regex of the modelled subset; for ALL patterns and names the wildcard regex decides exactly the "
        "specification (both case modes); for '**'-free glob patterns with regular classes and newline-free names the glob regex "
        "decides the component-wise specification; levels = specification; the translators are total. The deviations are proved "
        "as _refuted examples and replayed on the running code. " + CORR + "The model's regex text must equal the real "
        "functions' output character by character (all patterns up to 5 characters over 13 structural characters + random, "
        "2.3 M quick); the regex atom semantics is validated against CPython re; fs.wildcard/fs.glob/Globber are compared with "
        "the extracted specification matcher on exhaustive small pattern x path spaces and on trees.",
   note=TB + "Python's re engine is represented by the matcher of Glob/Regex.v (validated against re on every run, trusted); "
        "IGNORECASE/.lower() ASCII only; no positive theorem for patterns containing '**' (recorded finding). Seven deviations are "
        "recorded findings.",
   technique="Coq proof (specification matcher; regex translation model = specification) + exact regex-text tie + exhaustive "
             "spec-vs-implementation differential",
   ref="DESIGN.md §4 C14, §9"),
 "C16": dict(
   text="Refinement proof: for every initial content and every sequence of opens (any mode) and calls on any of several handles, "
        "the _MemoryFile model (per-call seek on the shared BytesIO) gives the same results, positions and bytes as the reference "
        "raw file; corollaries: append writes at the end, truncate keeps the position and resizes, handles without write (read) "
        "permission reject. " + CORR + "Three-way: real _MemoryFile vs model, reference vs real io.FileIO, real handles of "
        "MemoryFS/OSFS/SubFS/zip/tar members vs io.FileIO; FTPFS file objects (raw, buffered, text; MLSD and LIST servers) on a "
        "local pyftpdlib server vs the io object of the same layer, where a disagreement is a recorded finding only if an "
        "executable model of FTPFile (an io file plus exactly the recorded deviation rules) reproduces the whole sequence.",
   note=TB + "BytesIO is modelled. Seeks to a negative target and zero-length append writes are outside the compared domain. "
        "Text layer/buffering: CPython's io (see C02).",
   technique="Coq refinement proof + three-way differential incl. real io.FileIO",
   ref="DESIGN.md §4 C16, §9"),
 "C17": dict(
   text="Theorems: MountFS's string-prefix test on forcedir'ed keys is the whole-component prefix test; _delegate = first mount in "
        "mount order whose point is a component prefix, path made relative ('/ab' never routed to '/a'); a mount inside an "
        "existing mount is refused; MultiFS's iterate order is the members sorted by (priority, insertion index) descending "
        "(permutation, sortedness, head characterisation), reads go to the first holder, listings are de-duplicated unions. State "
        "models of MultiFS and MountFS over the MemoryFS model (65 theorems): reads = highest-priority holder = reference on the "
        "merged union tree, writes touch at most the write member (frame for every call and outcome), ResourceReadOnly without a "
        "write member, deviations (no copy-up) stated exactly; MountFS single-path calls = the routed member's call on the "
        "relative path, frame for all other members, mount points named as listed, copy/move within and across members. " + CORR +
        "Real MultiFS/MountFS over MemoryFS members vs the models call by call (outcome, every member tree, routed path). "
        "Recording proxy members: call logs and member trees vs the extracted routing model; 15 spelling classes of the mount-"
        "point argument x 15 of the call path x overlap shapes (routed member must receive the call, others untouched); MultiFS: "
        "every public method by reflection x member states (path/ancestors only in the write member, only in a non-write member, "
        "in both, nowhere) for 2 and 3 members against the union and the write member's twin.",
   note=TB + "Member filesystems are MemoryFS behind recording WrapFS proxies; derived calls may touch every member their paths "
        "route to.",
   technique="Coq proof (prefix/sorting lemmas; state models of the composites over the proved MemoryFS model) + model/real "
             "call-by-call tie + recording-proxy correspondence",
   ref="DESIGN.md §4 C17, §9"),
 "C18": dict(
   text="Theorems on the close model: a checked method of a closed object raises FilesystemClosed at any nesting depth; a write-"
        "mode archive is written exactly once whatever the number of close() calls, also when that write fails (close is final: "
        "the failure is reported once, later close() calls return normally and write nothing); members closed iff auto_close; table theorem on the regenerated dispatch table (check() is the base class's "
        "everywhere); table theorem on the check()-placement table regenerated on every run from /repo's source by an ast "
        "translator (every public data/metadata method defined in a filesystem class calls check()/validatepath(), directly or "
        "through a private method that does, or only calls methods on self/super). Reflection sweep: every public callable of the concrete object (FS interface and class-specific ones such as write_zip, "
        "write_tar, add_fs, mount, clean) after close (explicit, double, with-block) on 15 memory/OSFS constructions and 30 "
        "archive/TempFS constructions; close() failing midway (target removed / a directory / file object closed or failing) "
        "must be final; on 13 "
        "constructions with storage snapshots; finaliser probes (archives, TempFS, gc).",
   note=TB + "The ast translator (harness/h_reflect.py check_table) is trusted for the placement table; that a check() call "
        "comes before any effect inside a method body is exercised by the sweep, not proved; gc-driven close is exercised only.",
   technique="Coq proof on the close model + reflection-driven differential",
   ref="DESIGN.md §4 C18, §9"),
}


CHECKS.update({
 "C02": dict(
   text="Theorems: the chunked copy loop of fs.tools.copy_file_data transfers every byte in order for every chunk size (None, "
        "negative, any positive) and every pattern of short reads, never writes an empty or over-long chunk, copies nothing for "
        "chunk size 0 (boundary stated); the digest is fed exactly the file; make_stream's layer table for the 24 mode spellings "
        "(by computation) and the rejection of unbuffered text I/O for every mode string. FS level, on the MemoryFS model (tied to the real MemoryFS step by step): what writebytes / open('w') / "
        "appendbytes / copy / move stored is what readbytes returns; readbytes, open('r').read(), getsize agree; writing one "
        "file leaves every other file's bytes alone. " + CORR + "Real copy_file_data vs the model with short-reading readers; 10 write paths (incl. append mode after seek/read) x 8 read paths x "
        "boundary lengths per chunk size (incl. 1 MiB+-1, 5 MiB thorough) x backends; text with 7 encoding/errors x 5 newline "
        "settings against CPython's io.TextIOWrapper(io.BytesIO); writetext/appendtext/readtext with BOM encodings against a "
        "real io file; FTPFS (both servers) with lengths around ftplib's block and the chunk size, the stored bytes read from the "
        "server's directory.",
   note=TB + "Encoding/decoding/newline translation is CPython's io layer: differential only. A blocking reader returns b'' only at "
        "EOF (hypothesis of the loop theorem).",
   technique="Coq proof of the copy loop + write-path x read-path differential incl. CPython text oracle",
   ref="DESIGN.md §4 C02, §9"),
 "C03": dict(
   text="Theorems for every string: validatepath = component resolution (absolute, clean, no '..') or IllegalBackReference exactly "
        "when it climbs above the root; the OSFS system path is the root extended by whole clean components; SubFS.delegate_path "
        "(any nesting depth) stays below its sub-directory and never reaches a sibling; escapes are rejected. " + CORR +
        "Reflection over every public method x path position x a '..'-heavy stream on OSFS with os/io/shutil/scandir logged and a "
        "canary tree, SubFS depth 1-3 over a recording parent, MountFS over recording members, crafted zip/tar archives.",
   note=TB + "Assumes no symbolic link below the root leaves it. MountFS routing is proved in C17; archive member handling in C15.",
   technique="Coq proof (path algebra) + OS-boundary call monitoring",
   ref="DESIGN.md §4 C03, §9"),
 "C07": dict(
   text="Theorems on an exception-monad model of fs.move.move_file / move_dir with a step counter: for every fault position, every "
        "exception kind (FSError, OSError, process stop) and every prefix left by a failing write, each source file's bytes are at "
        "the source or complete at the destination; a fired fault is reported; the source is removed only after every copy "
        "completed. The model's primitive traces are compared with the real code's for every fault position (vm_compute). "
        "Fault-injecting proxies around MemoryFS/OSFS (and the backends' own overrides): the step count n of each call is measured "
        "fault-free, then step k = 0..n-1 is failed (complete enumeration per call), with workers 0-4; besides the generic "
        "OperationFailed / OSError(errno kinds) / crash kinds, every fs.errors class that some `except` clause of the library "
        "names (found by an ast scan on every run) is injected at the steps whose answers steer a move.",
   note=TB + "Python finally blocks still run on a simulated process stop. Buffered OSFS close is exercised only. os.rename "
        "failure falling back to copy is by design. A member of a MultiFS source answering ResourceNotFound is that member's "
        "answer, not a failed step (DESIGN 9.6).",
   technique="Coq proof over all fault positions + exhaustive per-call fault enumeration on the real code",
   ref="DESIGN.md §4 C07, §9"),
 "C09": dict(
   text="Theorems on a transition-system model of fs._bulk.Copier for any number of workers, any file list, any fault set and "
        "every schedule: bookkeeping invariants; when the producer returns all workers are done, the queue is empty, every opened "
        "handle is closed, the call raised iff some transfer failed, and without faults the copied set is all files (hence "
        "schedule-independent, N=0 being the sequential run); no reachable non-final configuration is deadlocked; every run can be "
        "extended to a final one. The real Copier runs on real threads under a baton scheduler (patched Queue/_Worker, tracked "
        "file proxies): exhaustive schedules for small cases, random ones for larger, faults in any read/write/close; sampled "
        "traces are replayed on the model inside Coq.",
   note=TB + "Atomicity of the modelled actions under the GIL is an assumption probed by the scheduler. Producer open faults and "
        "copy_modified_time are exercised by the harness only.",
   technique="Coq proof over all schedules (invariants, progress) + controlled-schedule execution of the real threads",
   ref="DESIGN.md §4 C09, §9"),
 "C20": dict(
   text="Theorems on a scanner model of the FS-URL regex and on the MLSD time decoder: parse is total (Ok or ParseError, never "
        "another exception); split(build parts) = parts under explicit side conditions (the '@'-in-path ambiguity is proved as a "
        "refutation witness); decoded times are in range, the decoder never raises. The Coq scanner is cross-checked against the real "
        "regex by vm_compute on every run. Real parsers: exhaustive short URL strings (2.4 M) + random ones, round trips from tuples, "
        "grammar-generated unix/Windows LIST lines (all 4096 permission strings), MLSD facts, FEAT replies and garbage.",
   note=TB + "LIST/MLSD/FEAT parsers have no Coq model (correspondence only). unquote/parse_qs/strptime/timegm are stdlib.",
   technique="Coq proof on the URL scanner/time decoder + grammar-based and exhaustive differential fuzzing",
   ref="DESIGN.md §4 C20, §9"),
})


CHECKS.update({
 "C08": dict(
   text="Theorem (generic, any number of threads, every schedule): if every thread is pure prefix / ONE atomic block / pure suffix, "
        "a completed run equals the sequential run of the blocks in commit order (results and final state) - so every method that "
        "is a single lock-protected block is linearizable; and the formal counterpart of the check-then-act race (a two-block "
        "removedir against a one-block writebytes has a schedule no sequential order explains; merged into one block it is "
        "linearizable). Real code: real threads serialised by a baton, context switch possible before every line of library code "
        "and at every lock operation (RLock proxies), all non-preemptive orders + every single preemption + sampled double/random "
        "ones (every double preemption for the shared pattern-cache cases), for pairs of 25 call templates x path relations on MemoryFS, OSFS, MountFS, MultiFS, SubFS views; every outcome "
        "must be produced by some sequential order on the same backend; deadlock/livelock/timeouts/foreign exceptions detected. "
        "The process-wide pattern caches are put into every state class (empty, few, capacity-1, full) x hit/miss roles before "
        "the threads start, and must never end over capacity; readers with every info namespace against every vanishing mutator. "
        "LRU cache (Conc/LruConc.v over Glob/LRU.v): with its lock every schedule of any number of set/get calls keeps the "
        "capacity bound and unique keys and is linearizable; without it a two-thread schedule ends over capacity (refuted "
        "example = the defect repaired in /repo c46bb4e); the sequential LRU model is compared with the real class.",
   note=TB + "The races of methods made of several blocks (removedir, writebytes, getinfo, copy, walks/glob, wrapper kinds whose "
        "lock does not cover the wrapped filesystem) are genuine and recorded as known findings by class signature "
        "(known_findings.json + harness/c08_known_local.json); races between the other single-block methods are violations. "
        "That line granularity covers the GIL's switch points is an assumption.",
   technique="Coq proof (atomic block => linearizable, all schedules) + line-granularity controlled-schedule exploration",
   ref="DESIGN.md §4 C08, §9"),
 "C15": dict(
   text="Theorems on the member-name handling of the tar reader and the zip/tar writers: every name kept is a relative path of "
        "clean components (no '..', not absolute), names whose resolution climbs above the root are dropped wherever they occur, "
        "kept names originate from a member, the exception-faithful loop never fails, and names produced by the writers round-trip "
        "unchanged. Tree level (Archive/TreeArch*.v; an archive = the ordered member list handed to / got from zipfile/tarfile): for "
        "EVERY well-formed tree (unique, '/'- and NUL-free names other than '.' and '..' - each side condition shown necessary) "
        "reading what the writers emit gives back exactly the tree (names, types, bytes, entry order; times through the format's "
        "time function) for zip and tar; the writers' member order is the code's queue walk; for ARBITRARY member lists the "
        "presented tree is well-formed and confined to the root, climbing names are dropped (tar) / raise (zip), implicit "
        "directories exist, duplicates: structure of the first, data of the last; ReadZipFS's directory building is literally the "
        "C01-verified MemoryFS model's makedirs/create. " + CORR + "Writers' member lists (names, kinds, bytes, order) = model; "
        "readers' presented trees on generated arbitrary member lists = model. Real code: generated trees (unicode, empty dirs, empty and 1 MiB files) x {zip stored/deflated, tar, gz, bz2, "
        "xz} x temp_fs x target x route, compared in both directions (paths, types, bytes, sizes, mtimes at the format's "
        "resolution); crafted archives ('..', absolute, duplicate, implicit/conflicting entries) inside a canary directory with an "
        "open() audit hook; boundary modification times per format; every keyword parameter of the constructors / writers / openers "
        "by reflection (encoding, compression, temp_fs, walker, file) with non-ASCII, long and odd names.",
   note=TB + "Container byte formats are zipfile/tarfile's (external). Three crafted-zip deviations and a time-zone inconsistency "
        "are recorded findings.",
   technique="Coq proof (member names; tree-level write/read model, all trees and all member lists) + exact member-list / "
             "presented-tree tie + archive round-trip and crafted-archive differential",
   ref="DESIGN.md §4 C15, §9"),
 "C19": dict(
   text="Theorems: _copy_is_necessary equals the documented condition for all five conditions and all existence/mtime cases "
        "(incl. unknown times), newer/older exclusive, exists/not_exists complementary; the per-file loop of copy_dir_if copies "
        "exactly the files satisfying the condition against the original destination, reports exactly those, and leaves every "
        "other path unchanged; mirror's comparison settles. Tree level (Copy/TreeCopy*.v, two trees): for ALL well-formed trees "
        "mirror (copy_if_newer=False) makes the destination an exact replica (names, types, bytes; times when preserve_time), "
        "never fails, is idempotent; with copy_if_newer the only files kept are same-size ones whose time is known and not "
        "older; copy_fs delivers every source file and directory and leaves every other destination path untouched; "
        "copy_fs_if copies exactly the files its condition selects against the original destination; the calls fail exactly on "
        "file/directory clashes (classes stated). " + CORR + "The destination tree of the real copy_fs / copy_fs_if (5 "
        "conditions) / mirror on generated tree pairs = model (600 pairs quick). Real code: pairs of generated trees (disjoint/overlapping/"
        "conflicting/empty) x 4 backend pairs + 3 same-filesystem-object backends x 4 walkers x mtime relations x 5 conditions x preserve_time; copy_fs/copy_dir/"
        "*_if/mirror compared with an expectation computed from the documentation alone.",
   note=TB + "mirror with a depth-limited walker is a recorded finding. Worker threads are C09's.",
   technique="Coq proof (condition table, copy loop, tree-level mirror/copy_fs model for all trees) + model/real tree-pair "
             "differential + documentation-derived expectation differential",
   ref="DESIGN.md §4 C19, §9"),
})

def main():
    checks = []
    for pid in sorted(CHECKS):
        c = CHECKS[pid]
        checks.append(dict(
            property_id=pid,
            quick_cmd="bin/check %s --tier quick" % pid,
            thorough_cmd="bin/check %s --tier thorough" % pid,
            evidence_file="evidence/%s.json" % pid,
            replay_cmd_template="bin/check %s --replay {path}" % pid,
            engine="coq-correspondence",
            level_claimed=dict(category="proof", text=c["text"], design_ref=c["ref"]),
            level_note=c["note"], technique=c["technique"]))
    all_ids = ["C%02d" % i for i in range(1, 21)]
    na = [dict(property_id=p, reason="check being built in this session (DESIGN.md §6); not yet registered")
          for p in all_ids if p not in CHECKS]
    m = dict(
        version=1,
        setup_cmd="bin/build",
        hooks=dict(guard="PYFS2_VERIF", enable="no hooks are needed: the harness imports fs from /repo and "
                   "instruments it from its own process (proxy filesystems, module-attribute patching)",
                   baseline_off_cmd="cd /repo && /venv/bin/python -m pytest -ra -q -p no:cacheprovider --timeout=900 "
                   "--continue-on-collection-errors",
                   source_commits=[], add_only=True),
        engines=[dict(name="coq-correspondence", path="bin/check",
                      serves_properties=sorted(CHECKS),
                      kind_free_text="Coq 8.16 theorems over hand-written Gallina models (coq/), tied to /repo by "
                      "running the extracted model (OCaml) and the real code on the same cases (harness/)")],
        checks=checks,
        not_applicable=na,
        notes="All checks: cwd=/verif; they import fs from /repo's working tree (PYTHONPATH=/repo).")
    with open("/verif/MANIFEST.json", "w") as fh:
        json.dump(m, fh, indent=1)
        fh.write("\n")

if __name__ == "__main__":
    main()
