#!/usr/bin/env python3
"""Run the pinned baseline suite on /repo and compare with /root/.vp/BASELINE.json.
usage: baseline.py [pytest args...]   (default: whole suite)"""
import json, subprocess, sys, xml.etree.ElementTree as ET, ast, os, tempfile
b = json.load(open('/root/.vp/BASELINE.json'))
stable = b['stable_pass']
if isinstance(stable, str):
    stable = ast.literal_eval(stable)
stable = set(stable)
out = tempfile.mktemp(suffix='.xml', dir='/tmp')
args = sys.argv[1:]
serial = '--serial' in args
args = [a for a in args if a != '--serial']
cmd = ['/venv/bin/python', '-m', 'pytest', '-q', '-p', 'no:cacheprovider', '--timeout=900',
       '--continue-on-collection-errors', '--junitxml=' + out] + ([] if serial else ['-n', '8']) + args
p = subprocess.run(cmd, cwd='/repo', stdout=subprocess.PIPE, stderr=subprocess.STDOUT, universal_newlines=True)
if 'unrecognized arguments: -n' in p.stdout or 'no such option' in p.stdout:
    cmd = [c for c in cmd if c not in ('-n', '8')]
    p = subprocess.run(cmd, cwd='/repo', stdout=subprocess.PIPE, stderr=subprocess.STDOUT, universal_newlines=True)
print(p.stdout[-600:])
passed = set()
seen = set()
for tc in ET.parse(out).getroot().iter('testcase'):
    name = tc.get('classname') + '::' + tc.get('name')
    seen.add(name)
    if not any(ch.tag in ('failure', 'error', 'skipped') for ch in tc):
        passed.add(name)
os.remove(out)
scope = stable if not args else (stable & seen)
missing = sorted(scope - passed)
print("baseline stable tests in scope: %d, passing now: %d, MISSING: %d" % (len(scope), len(scope & passed), len(missing)))
for m in missing[:40]:
    print("  NOT PASSING:", m)
sys.exit(1 if missing else 0)
