#!/usr/bin/env python3
"""Prints the markdown table of /verif/seeded/* (id, what was changed, which checks alarm) for DESIGN.md 9.7."""
import glob, json, os
rows = []
for d in sorted(glob.glob(os.path.join(os.path.dirname(os.path.abspath(__file__)), "..", "seeded", "*"))):
    m = json.load(open(os.path.join(d, "meta.json")))
    s = m["summary"].replace("|", "/").replace("\n", " ")
    if len(s) > 150:
        s = s[:147] + "..."
    note = "first missed; " + m["strengthening"] if m.get("strengthening") else ""
    if m.get("note"):
        note = (note + "; " if note else "") + m["note"]
    if m.get("neutralised_by_fix"):
        note = (note + "; " if note else "") + "no longer breaks the property: neutralised by fix " + (m["neutralised_by_fix"] if isinstance(m["neutralised_by_fix"], str) else json.dumps(m["neutralised_by_fix"]))
    rows.append("| %s | %s | %s | %s |" % (os.path.basename(d), s, ", ".join(m.get("caught_by") or ["—"]), note.replace("|", "/")))
print("| seeded change | what it does | alarms | note |\n|---|---|---|---|")
print("\n".join(rows))
