#!/usr/bin/env python3
"""keep_mutant.py <dir with mutant<k>.diff demo<k>.py meta<k>.json> <k> <seeded-id> [checks to run ...]
Confirms the seeded change myself (demo passes on the clean scratch tree and fails with the change; the
broad test set gives the same pass/fail list), runs the named checks against it, and stores everything
under /verif/seeded/<seeded-id>/."""
import json, os, shutil, subprocess, sys
SCRATCH = "/tmp/mutrun"
TESTS = ("tests/test_memoryfs.py tests/test_osfs.py tests/test_path.py tests/test_walk.py tests/test_copy.py tests/test_move.py "
         "tests/test_wrap.py tests/test_wrapfs.py tests/test_mountfs.py tests/test_multifs.py tests/test_subfs.py tests/test_glob.py "
         "tests/test_wildcard.py tests/test_mirror.py tests/test_tempfs.py tests/test_zipfs.py tests/test_tarfs.py tests/test_opener.py "
         "tests/test_bulk.py tests/test_iotools.py tests/test_mode.py tests/test_errors.py tests/test_info.py tests/test_ftp_parse.py "
         "tests/test_tools.py tests/test_time.py tests/test_permissions.py tests/test_lrucache.py tests/test_url_tools.py").split()
def sh(*a, **kw):
    return subprocess.run(a, stdout=subprocess.PIPE, stderr=subprocess.STDOUT, universal_newlines=True, **kw)
def failing_tests():
    r = sh("/venv/bin/python", "-m", "pytest", "-q", "-p", "no:cacheprovider", "-n", "8", *TESTS, cwd=SCRATCH)
    fails = sorted(l.split(" - ")[0] for l in r.stdout.split("\n") if l.startswith("FAILED") or l.startswith("ERROR"))
    tail = [l for l in r.stdout.split("\n") if " passed" in l or " failed" in l][-1:]
    return fails, tail
def demo(path):
    r = sh("/venv/bin/python", "-W", "ignore", path, env=dict(os.environ, PYTHONPATH=SCRATCH), cwd="/tmp")
    return r.returncode
def main():
    src, k, sid = sys.argv[1], sys.argv[2], sys.argv[3]
    checks = sys.argv[4:]
    patch = os.path.join(src, "mutant%s.diff" % k)
    dm = os.path.join(src, "demo%s.py" % k)
    meta = json.load(open(os.path.join(src, "meta%s.json" % k)))
    if not os.path.isdir(SCRATCH):
        sh("git", "-C", "/repo", "worktree", "add", "--detach", SCRATCH, "HEAD")
    sh("git", "-C", SCRATCH, "checkout", "-q", "--detach", sh("git", "-C", "/repo", "rev-parse", "HEAD").stdout.strip())
    sh("git", "-C", SCRATCH, "checkout", "--", ".")
    clean_demo = demo(dm)
    base_fail, base_tail = failing_tests()
    assert sh("git", "-C", SCRATCH, "apply", patch).returncode == 0, "patch does not apply"
    try:
        mut_demo = demo(dm)
        mut_fail, mut_tail = failing_tests()
    finally:
        sh("git", "-C", SCRATCH, "checkout", "--", ".")
    ok = clean_demo == 0 and mut_demo != 0 and base_fail == mut_fail
    print("demo clean=%s mutated=%s ; tests same=%s %s %s" % (clean_demo, mut_demo, base_fail == mut_fail, base_tail, mut_tail))
    results = {}
    if checks:
        r = sh("python3", "/verif/tools/mutant.py", patch, *checks)
        try:
            results = json.loads(r.stdout.strip().split("\n")[-1])
        except Exception:
            print(r.stdout[-500:])
    caught = sorted(p for p, v in results.items() if v.get("violations"))
    print("checks:", {p: ("ALARM" if v.get("violations") else "quiet") for p, v in results.items()})
    if not ok:
        print("NOT CONFIRMED - not stored"); return 1
    out = os.path.join("/verif/seeded", sid)
    os.makedirs(out, exist_ok=True)
    shutil.copy(patch, os.path.join(out, "patch.diff"))
    shutil.copy(dm, os.path.join(out, "demo.py"))
    meta.update(dict(confirmed=dict(demo_exit_on_clean_tree=clean_demo, demo_exit_with_change=mut_demo,
                                    test_files_run=TESTS, failing_tests_identical_to_clean_tree=True, tests_summary=mut_tail,
                                    repo_head=sh("git", "-C", "/repo", "rev-parse", "--short", "HEAD").stdout.strip()),
                     checks_run=results, caught_by=caught))
    json.dump(meta, open(os.path.join(out, "meta.json"), "w"), indent=1)
    print("stored", out, "caught by", caught)
    return 0
if __name__ == "__main__":
    sys.exit(main())
