#!/usr/bin/env python3
"""Evaluate the registered checks against a seeded change.
usage: mutant.py <patch.diff> [Cnn ...]     (default: every registered check)
The patch is applied to a scratch worktree of /repo (never to /repo itself while other work is
running there), the checks are pointed at it with PYFS2_VERIF_REPO, and the worktree is reset."""
import json, os, subprocess, sys, time
SCRATCH = os.environ.get("MUT_SCRATCH", "/tmp/mutrun")
def sh(*a, **kw):
    return subprocess.run(a, stdout=subprocess.PIPE, stderr=subprocess.STDOUT, universal_newlines=True, **kw)
def main():
    patch = os.path.abspath(sys.argv[1])
    pids = sys.argv[2:] or [c["property_id"] for c in json.load(open("/verif/MANIFEST.json"))["checks"]]
    if not os.path.isdir(SCRATCH):
        r = sh("git", "-C", "/repo", "worktree", "add", "--detach", SCRATCH, "HEAD")
        assert r.returncode == 0, r.stdout
    sh("git", "-C", SCRATCH, "checkout", "-q", "--detach", sh("git", "-C", "/repo", "rev-parse", "HEAD").stdout.strip())
    sh("git", "-C", SCRATCH, "checkout", "--", ".")
    r = sh("git", "-C", SCRATCH, "apply", patch)
    if r.returncode != 0:
        print("patch does not apply:", r.stdout); return 2
    res = {}
    try:
        env = dict(os.environ, PYFS2_VERIF_REPO=SCRATCH, PYFS2_VERIF_EVIDENCE_DIR=SCRATCH + "_evidence")
        for pid in pids:
            t = time.time()
            r = subprocess.run(["/verif/bin/check", pid], cwd="/verif", env=env, stdout=subprocess.PIPE,
                               stderr=subprocess.DEVNULL, universal_newlines=True)
            v_all = [l for l in r.stdout.split("\n") if l.startswith("VIOLATION")]
            # a violation that only says "the Coq development / the check itself did not run" (a concurrent rebuild, a
            # harness crash) is not evidence that the seeded change was noticed
            v, broken = [], 0
            for l in v_all:
                kind = ""
                tb = ""
                try:
                    rp = l.split("replay=", 1)[1].split()[0]
                    rj = json.load(open(rp))
                    kind = rj.get("kind", "")
                    tb = str(rj.get("traceback", ""))
                except Exception:
                    pass
                if kind == "check-crashed" and (SCRATCH + "/fs/") in tb.split("\n")[-4:][0] + tb[-400:]:
                    # the LIBRARY (the changed tree) raised while the harness was setting up its objects (e.g. a composite
                    # that can no longer be built): the change was noticed, although without a tidy replay
                    v.append(l)
                elif kind in ("proof-broken", "check-crashed"):
                    broken += 1
                else:
                    v.append(l)
            res[pid] = dict(exit=r.returncode, violations=len(v), first=v[0] if v else None, wall=round(time.time() - t, 1),
                            build_or_harness_trouble=broken)
            print(pid, "ALARM" if v else ("TROUBLE(build/harness) - rerun" if broken else "quiet"), v[0] if v else "", flush=True)
    finally:
        sh("git", "-C", SCRATCH, "checkout", "--", ".")
    print(json.dumps(res))
    return 0
if __name__ == "__main__":
    sys.exit(main())
