#!/bin/bash
# Independent re-check of every property file (and everything it depends on) with coqchk; prints the context
# summary (axioms, type-in-type, unsafe fixpoints, assumed positivity).  About 1 minute.
cd /verif/coq || exit 2
/verif/bin/build > /dev/null || exit 2
# the generated table and the two property files that import it must come from the same run
coqc -Q . PyFS Gen/Dispatch_gen.v || exit 2
mods=""
for f in Props/C*.v; do
  coqc -Q . PyFS "$f" > /dev/null || { echo "does not compile: $f"; exit 1; }
  m=$(basename "$f" .v); mods="$mods PyFS.Props.$m"
done
timeout 3000 coqchk -silent -o -Q . PyFS $mods
