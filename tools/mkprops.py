#!/usr/bin/env python3
"""mkprops.py <Cnn> <title> <imports> <name> [<name> ...]
Generates coq/Props/Cnn.v: each named theorem is restated with the type Coq prints for it
(`Check @name`), closed by `exact`, followed by Print Assumptions."""
import re, subprocess, sys, os, tempfile
pid, title, imports = sys.argv[1:4]
names = sys.argv[4:]
d = tempfile.mkdtemp()
f = os.path.join(d, "q.v")
open(f, "w").write(imports + "\nSet Printing Width 100.\n" + "\n".join('Check @%s.' % n for n in names) + "\n")
p = subprocess.run(["coqc", "-Q", "/verif/coq", "PyFS", f], stdout=subprocess.PIPE, stderr=subprocess.STDOUT, universal_newlines=True)
out = p.stdout
assert p.returncode == 0, out[-2000:]
blocks = re.split(r'\n(?=@?\w[\w\']*\s*\n?\s*:)', "\n" + "\n".join(l for l in out.split("\n") if "WARNING conda" not in l))
types = {}
for b in blocks:
    m = re.match(r'\s*@?(\w[\w\']*)\s*:\s*(.*)', b, re.S)
    if m:
        types[m.group(1)] = m.group(2).strip()
res = ["(* %s *)\n%s\n" % (title, imports)]
for n in names:
    assert n in types, (n, list(types))
    res.append("Theorem %s_%s :\n  %s.\nProof. exact @%s. Qed.\nPrint Assumptions %s_%s.\n" % (pid, n, types[n], n, pid, n))
open('/verif/coq/Props/%s.v' % pid, 'w').write("\n".join(res))
print("wrote Props/%s.v with %d theorems" % (pid, len(names)))
