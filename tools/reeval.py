#!/usr/bin/env python3
"""reeval.py <seeded-id> <note> <Cnn ...>: re-run the named checks against /verif/seeded/<id>/patch.diff (scratch
worktree, see mutant.py) after the machinery was strengthened; the earlier result is kept in meta.json 'history'."""
import json, os, subprocess, sys
sid, note, pids = sys.argv[1], sys.argv[2], sys.argv[3:]
d = os.path.join("/verif/seeded", sid)
meta = json.load(open(os.path.join(d, "meta.json")))
r = subprocess.run(["python3", "/verif/tools/mutant.py", os.path.join(d, "patch.diff")] + pids,
                   stdout=subprocess.PIPE, stderr=subprocess.STDOUT, universal_newlines=True)
res = {}
for line in r.stdout.split("\n"):
    p = line.split()
    if len(p) >= 2 and p[0] in pids and p[1] in ("ALARM", "quiet"):
        res[p[0]] = p[1]
print(sid, res)
meta.setdefault("history", []).append(dict(caught_by=meta.get("caught_by"), checks_run=meta.get("checks_run")))
caught = sorted(set(meta.get("caught_by") or []) | set(k for k, v in res.items() if v == "ALARM"))
meta["caught_by"] = caught
meta["checks_run"] = dict(meta.get("checks_run") or {}, **{k: dict(result=v, reevaluated=True) for k, v in res.items()})
if note:
    meta["strengthening"] = note
json.dump(meta, open(os.path.join(d, "meta.json"), "w"), indent=1)
