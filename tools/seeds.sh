#!/bin/bash
# run every registered quick check with several seeds; print exit status and wall time, flag the ones that alarm
cd /verif
for pid in $(python3 -c "import json;print(' '.join(c['property_id'] for c in json.load(open('MANIFEST.json'))['checks']))" 2>/dev/null); do
  for s in ${SEEDS:-0 1 2 3}; do
    t0=$(date +%s)
    VERIF_SEED=$s bin/check $pid > /tmp/seeds_$pid.out 2>/dev/null; rc=$?
    v=$(grep -c "^VIOLATION" /tmp/seeds_$pid.out)
    echo "$pid seed=$s exit=$rc violations=$v secs=$(( $(date +%s) - t0 ))"
  done
done
echo "seeds done"
