#!/bin/bash
# run every registered quick check with several seeds; print the ones that alarm
cd /verif
for pid in $(python3 -c "import json;print(' '.join(c['property_id'] for c in json.load(open('MANIFEST.json'))['checks']))" 2>/dev/null); do
  for s in ${SEEDS:-0 1 2 3}; do
    out=$(VERIF_SEED=$s bin/check $pid 2>/dev/null | grep -c "^VIOLATION")
    [ "$out" != "0" ] && echo "ALARM $pid seed=$s violations=$out"
  done
done
echo "seeds done"
