#!/usr/bin/env python3
"""matrix.py [-j N] [id-prefix ...]: run, for every seeded change (or those whose id starts with a given prefix), the check
of ITS OWN property against it (scratch worktrees /tmp/mutrun_m<k>), N at a time; update meta.json (caught_by gains or
loses the own property according to THIS run; other properties' entries are kept) and print a summary."""
import glob, json, os, subprocess, sys
from concurrent.futures import ThreadPoolExecutor
args = sys.argv[1:]
j = 4
if args[:1] == ["-j"]:
    j = int(args[1]); args = args[2:]
dirs = sorted(d for d in glob.glob("/verif/seeded/*") if not args or any(os.path.basename(d).startswith(a) for a in args))
def one(k_d):
    k, d = k_d
    meta = json.load(open(os.path.join(d, "meta.json")))
    pid = meta["property"]
    env = dict(os.environ, MUT_SCRATCH="/tmp/mutrun_m%d" % (k % j))
    for attempt in range(3):
        r = subprocess.run(["python3", "/verif/tools/mutant.py", os.path.join(d, "patch.diff"), pid], env=env,
                           stdout=subprocess.PIPE, stderr=subprocess.STDOUT, universal_newlines=True)
        line = [l for l in r.stdout.split("\n") if l.startswith(pid + " ")]
        verdict = line[0].split()[1] if line else "ERROR"
        if verdict in ("ALARM", "quiet"):
            break
    return d, pid, verdict, r.stdout[-300:] if verdict not in ("ALARM", "quiet") else ""
import threading
slots = list(range(j))
lock = threading.Lock()
def run(idx_d):
    with lock:
        s = slots.pop()
    try:
        return one((s, idx_d[1]))
    finally:
        with lock:
            slots.append(s)
res = []
with ThreadPoolExecutor(j) as ex:
    for d, pid, verdict, tail in ex.map(run, list(enumerate(dirs))):
        print(os.path.basename(d), pid, verdict, tail.replace("\n", " ")[:200], flush=True)
        res.append((d, pid, verdict))
        if verdict in ("ALARM", "quiet"):
            meta = json.load(open(os.path.join(d, "meta.json")))
            cb = set(meta.get("caught_by") or [])
            (cb.add if verdict == "ALARM" else cb.discard)(pid)
            meta["caught_by"] = sorted(cb)
            meta["own_check_last_run"] = verdict
            json.dump(meta, open(os.path.join(d, "meta.json"), "w"), indent=1)
print("TOTAL", len(res), "ALARM", sum(1 for r in res if r[2] == "ALARM"), "quiet", [os.path.basename(r[0]) for r in res if r[2] == "quiet"],
      "error", [os.path.basename(r[0]) for r in res if r[2] not in ("ALARM", "quiet")])
