"""C20 - parsers of external text are total and faithful.

Real code under test (imported from /repo, never modified):
  fs.opener.parse.parse_fs_url, fs._ftp_parse.parse (unix / Windows LIST lines),
  fs.ftpfs.FTPFS._parse_mlsx / _parse_facts / _parse_ftp_time / _parse_features.

What is checked
  1. totality of parse_fs_url: every string gives a ParseResult or ParseError.
  2. round trip: parse_fs_url(build(parts)) == parts inside explicit side conditions
     (SIDE_CONDITIONS below; the same conditions as Parse/Url.v build_ok, plus the ones that
     concern unquote/parse_qs which the Coq model leaves raw).
  3. LIST lines generated from the unix and Windows grammars: exact name / type / size /
     permissions / owner / timestamp, expected values computed independently
     (calendar.timegm); garbage lines never raise.
  4. MLSD fact lines: exact raw info (RFC 3659 reading); garbage never raises; FEAT replies.
  6. statefulness: what a parser returns for a text does not depend on what callers did with earlier results (all
     mutable parts changed), on the inputs parsed in between, or on the thread (section 6 below).
  5. the Coq scanner Parse/Url.v (url_parse) and Parse/FtpTime.v (ftp_time_impl) are
     re-validated against the real regex / _parse_ftp_time on a sample with vm_compute.

Every failure is mapped to a signature string; signatures with an entry in
/verif/known_findings.json (or harness/c20_known_local.json while it exists) are reported as
known findings, anything else is minimised and reported as a violation.
"""
from __future__ import print_function

import calendar
import itertools
import json
import os
import random
import re
import subprocess
import time
import unicodedata

import common

HERE = os.path.dirname(os.path.abspath(__file__))
# TODO PENDING_FINDINGS: misbehaviours of the UNCHANGED library exposed by new coverage, not yet in known_findings.json
# (routed through report.known_match(); they print as KNOWN-FINDING once registered, until then they are skipped).
# The two below are PREDICTED from the source (time.strptime with %b / %p reads month names and AM/PM in the LC_TIME
# locale) and can only show up on a machine with a non-C locale installed AND a program that called setlocale().
PENDING_FINDINGS = []    # (an LC_TIME dependence of the LIST parsers is predicted from the source but cannot be observed
#                          on this image - no non-C locale is installed; if it is ever observed it is a violation with a replay)
LOCAL_KNOWN = os.path.join(HERE, "c20_known_local.json")

_mods = {}


def M():
    """Lazy import of the code under test."""
    if not _mods:
        import warnings
        warnings.simplefilter("ignore")
        import importlib
        up = importlib.import_module("fs.opener.parse")
        from fs.opener.errors import ParseError
        from fs import _ftp_parse
        from fs.ftpfs import FTPFS
        _mods.update(up=up, ParseError=ParseError, lp=_ftp_parse, FTPFS=FTPFS)
    return _mods


def fail(sig, kind, parser, inp, observed, expected):
    return dict(sig=sig, kind=kind, parser=parser, input=inp, observed=observed, expected=expected)


def bump(h, k, n=1):
    h[k] = h.get(k, 0) + n


# ===================================================================== 1. URL totality

SIG_EMPTY_CREDS = "parse_fs_url AttributeError empty-credentials"
SIG_AT_PATH = "parse_fs_url at-sign-in-path"
SIG_PARAM_UNQUOTE = "parse_fs_url param-value double-unquoted"

URL_TOKENS = list("abzAZ019") + [":", "/", "@", "!", "?", "&", "=", "%", "#", "\n", " ", "+", ";",
                                 ".", "-", "://", "://", "%zz", "%41", "%2", "%e9", "%C3%A9",
                                 u"\xe9", u"\u4e2d", u"\U0001f600", u"\u0301", "\r", u"\x85",
                                 u"\u2028", "\t", "\x00", u"\xa0", u"\udc80"]
SHORT_ALPHABET = "a:/@!?%\n"


def url_outcome(s):
    """('ok', ParseResult) | ('ParseError', None) | ('exc', exception)."""
    m = M()
    try:
        return "ok", m["up"].parse_fs_url(s)
    except m["ParseError"]:
        return "ParseError", None
    except Exception as e:  # noqa
        return "exc", e


def url_exception_sig(s, e):
    m = M()
    g = m["up"]._RE_FS_URL.match(s)
    if isinstance(e, AttributeError) and g is not None and g.group(2) == "":
        return SIG_EMPTY_CREDS
    return "parse_fs_url " + type(e).__name__


def check_url_total(s):
    kind, r = url_outcome(s)
    if kind == "ok":
        ok = (type(r).__name__ == "ParseResult" and isinstance(r.params, dict))
        if ok:
            return "ParseResult", None
        return "other", fail("parse_fs_url returns non-ParseResult", "wrong-result-type",
                             "parse_fs_url", s, repr(r), "ParseResult")
    if kind == "ParseError":
        return "ParseError", None
    return type(r).__name__, fail(url_exception_sig(s, r), "foreign-exception", "parse_fs_url", s,
                                  "%s: %s" % (type(r).__name__, r), "ParseResult or ParseError")


def random_urlish(rnd):
    n = rnd.randint(0, 12)
    toks = [rnd.choice(URL_TOKENS) for _ in range(n)]
    if rnd.random() < 0.5:
        toks.insert(rnd.randint(0, len(toks)), "://")
    return "".join(toks)


# ===================================================================== 2. URL round trip

SIDE_CONDITIONS = [
    "protocol contains no newline and no '://' (it may be empty)",
    "user name / password are percent-encoded with quote(safe='') (so they contain none of "
    "'@' ':' '!' '?' '/' or newline) and contain no lone surrogates; a user name without password "
    "is reported with password '' (not None); an empty user name without password ('p://@host') "
    "is reported as user '' and password ''",
    "resource is inserted raw: no newline, no '!' and no '?', no valid %XX escape (it is unquoted "
    "by the parser), and no '@' unless credentials are present",
    "params are rendered with urllib.parse.urlencode (keys/values arbitrary text without lone "
    "surrogates); '?' is emitted iff params is not None; None and {} both parse to {}",
    "path is inserted raw after '!': no newline; no '@' unless credentials are present (a URL "
    "without credentials whose path contains '@' is the known at-sign-in-path finding)",
]

TEXT_POOL = list("abcxyzABC0189") + list("@:!?/ &=%#+;.-_~") + [
    u"\xe9", u"\u4e2d", u"\U0001f600", u"e\u0301", u"\xa0", "%41", "%zz", "%", "\t", "'", '"', "\\",
    u"\u2028", "://"]
PROTO_POOL = list("abcz019+.-") + ["ftp", "osfs", "zip", "s3", "mem", "A", u"\xe9", " ", ":", "/", "!", "@"]

_ESC = re.compile(r"%[0-9a-fA-F]{2}")


def rtext(rnd, pool=TEXT_POOL, lo=0, hi=6):
    return "".join(rnd.choice(pool) for _ in range(rnd.randint(lo, hi)))


def random_parts(rnd):
    proto = rtext(rnd, PROTO_POOL, 0, 4)
    if rnd.random() < 0.6:
        user = pw = None
    else:
        user = rtext(rnd, hi=5)
        pw = None if rnd.random() < 0.3 else rtext(rnd, hi=5)
    plain = list("abchost.org/019-_") if rnd.random() < 0.5 else TEXT_POOL
    resource = rtext(rnd, plain, 0, 8)
    if rnd.random() < 0.5:
        params = None
    else:
        params = {}
        for _ in range(rnd.randint(0, 3)):
            params[rtext(rnd, hi=4)] = rtext(rnd, hi=5)
    path = None if rnd.random() < 0.5 else rtext(rnd, plain if rnd.random() < 0.6 else TEXT_POOL, 0, 8)
    return dict(protocol=proto, username=user, password=pw, resource=resource, params=params, path=path)


def build_url(p):
    from six.moves.urllib.parse import quote, urlencode
    url = p["protocol"] + "://"
    if p["username"] is not None:
        url += quote(p["username"], safe="")
        if p["password"] is not None:
            url += ":" + quote(p["password"], safe="")
        url += "@"
    url += p["resource"]
    if p["params"] is not None:
        url += "?" + urlencode(p["params"])
    if p["path"] is not None:
        url += "!" + p["path"]
    return url


def broken_conditions(p):
    """Names of the side conditions the parts violate (empty list = round trip must hold)."""
    out = []
    creds = p["username"] is not None
    if "\n" in p["protocol"] or "://" in p["protocol"]:
        out.append("protocol-sep-or-newline")
    r = p["resource"]
    if "\n" in r or "!" in r or "?" in r:
        out.append("resource-delimiter")
    if _ESC.search(r):
        out.append("resource-escape")
    if "@" in r and not creds:
        out.append("resource-at-without-credentials")
    if p["path"] is not None:
        if "\n" in p["path"]:
            out.append("path-newline")
        if "@" in p["path"] and not creds:
            out.append("path-at-without-credentials")
    return out


def expected_result(p):
    creds = p["username"] is not None
    return (p["protocol"], p["username"] if creds else None,
            (p["password"] if p["password"] is not None else "") if creds else None,
            p["resource"], dict(p["params"] or {}), p["path"])


def check_roundtrip(p):
    """-> (histogram key, failure or None)."""
    url = build_url(p)
    broken = broken_conditions(p)
    kind, r = url_outcome(url)
    exp = expected_result(p)
    if kind == "ok":
        got = (r.protocol, r.username, r.password, r.resource, r.params, r.path)
        if got == exp:
            return "exact" if not broken else "exact-outside-conditions", None
        obs = repr(got)
    elif kind == "ParseError":
        obs = "ParseError"
    else:
        obs = "%s: %s" % (type(r).__name__, r)
    if broken == ["path-at-without-credentials"]:
        return "known:at-in-path", fail(SIG_AT_PATH, "round-trip", "parse_fs_url/round-trip", p, obs, repr(exp))
    if broken:
        return "outside:" + "+".join(broken), None
    if kind == "exc":
        return "exception", fail(url_exception_sig(url, r), "foreign-exception", "parse_fs_url/round-trip",
                                 p, obs, repr(exp))
    sig = "parse_fs_url round-trip mismatch"
    if kind == "ok" and got[:4] == exp[:4] and got[5] == exp[5] and any(
            _ESC.search(v) for v in exp[4].values()):
        sig = SIG_PARAM_UNQUOTE
    return "mismatch", fail(sig, "round-trip", "parse_fs_url/round-trip", p, obs, repr(exp))


# ===================================================================== 3. FTP LIST lines

SIG_FEB29 = "list unix Feb-29 without year ValueError"
SIG_Y1900 = "list unix year 1900 replaced by current year"
SIG_SPECIAL_BITS = "list unix s/S/t/T permission bits not decoded"
SIG_WIN_DDMM = "list windows date read as DD-MM-YY"
SIG_WIN_Y4 = "list windows 4-digit year loses timestamp"

MONTHS = ["Jan", "Feb", "Mar", "Apr", "May", "Jun", "Jul", "Aug", "Sep", "Oct", "Nov", "Dec"]
NAME_POOL = list("abcxyzABC0189") + list(" ._-()[]@#!$&'+,;=~") + [
    u"\xe9", u"é", u"中文", u"\U0001f600", u"\xa0", "->", " -> ", "  ", u"Å", ":"]
OWNER_FIRST = "abzAZ019"
OWNER_REST = "abzAZ019-._@"
_WS = re.compile(r"\s", re.U)


def current_year():
    # the same rule as fs._ftp_parse._parse_time: a date without year is in the local current year
    return time.localtime().tm_year


def days_in_month(y, m):
    return calendar.monthrange(y, m)[1]


def all_perm_strings():
    u = [a + b + c for a in "r-" for b in "w-" for c in "xsS-"]
    o = [a + b + c for a in "r-" for b in "w-" for c in "xtT-"]
    for a in u:
        for b in u:
            for c in o:
                yield a + b + c


def expected_perm_names(perms):
    names = set()
    for who, trip, special, flag in (("u", perms[0:3], "sS", "setuid"), ("g", perms[3:6], "sS", "setguid"),
                                     ("o", perms[6:9], "tT", "sticky")):
        if trip[0] == "r":
            names.add(who + "_r")
        if trip[1] == "w":
            names.add(who + "_w")
        if trip[2] in ("x", special[0]):
            names.add(who + "_x")
        if trip[2] in special:
            names.add(flag)
    return sorted(names)


def random_name(rnd, link=False):
    while True:
        n = rtext(rnd, NAME_POOL if rnd.random() < 0.6 else list("abc.txt019_"), 1, 8)
        if "\n" in n or _WS.match(n[0]):
            continue
        if link and ("->" in n or n != n.strip()):
            continue
        return n


def random_owner(rnd):
    s = rnd.choice(OWNER_FIRST) + "".join(rnd.choice(OWNER_REST) for _ in range(rnd.randint(0, 7)))
    return s + ("$" if rnd.random() < 0.1 else "")


def random_unix(rnd, perms=None, ty=None):
    ty = ty or rnd.choice("-dlpscbD--dddll")
    f = dict(ty=ty, perms=perms or rnd.choice(["rwxr-xr-x", "rw-r--r--", "rwxrwxrwx", "---------", "r--------"]),
             acl=rnd.choice(["", "", ".", "+"]), links=str(rnd.choice([1, 2, 7, 12, 99, 100, 999])),
             owner=random_owner(rnd), group=random_owner(rnd),
             size=str(rnd.choice([0, 1, 9, 4096, 123456789, 2 ** 40 + 7, rnd.randint(0, 10 ** 6)])),
             month=rnd.randint(1, 12), seps=[rnd.choice([" ", " ", "  ", "    ", "\t"]) for _ in range(8)],
             dayfmt=rnd.choice(["02", "2", " 2"]), name=random_name(rnd, ty == "l"),
             target=(rnd.choice(["t", "../x y", "/abs/p", u"\xe9"]) if ty == "l" else None))
    if rnd.random() < 0.5:
        f["form"] = "time"
        f["year"] = None
        y = current_year()
        f["hour"], f["minute"] = rnd.randint(0, 23), rnd.randint(0, 59)
    else:
        f["form"] = "year"
        y = f["year"] = rnd.choice([1970, 1999, 2000, 2004, 2020, 2024, 2037, rnd.randint(1971, 2099)])
        f["hour"] = f["minute"] = 0
    f["day"] = rnd.randint(1, days_in_month(y, f["month"]))
    return f


def render_unix(f):
    s = f["seps"]
    day = {"02": "%02d", "2": "%d", " 2": "%2d"}[f["dayfmt"]] % f["day"]
    if f["form"] == "time":
        when = "%s %s %02d:%02d" % (MONTHS[f["month"] - 1], day, f["hour"], f["minute"])
    else:
        when = "%s %s  %04d" % (MONTHS[f["month"] - 1], day, f["year"])
    name = f["name"] + (" -> " + f["target"] if f["target"] is not None else "")
    return (f["ty"] + f["perms"] + f["acl"] + s[0] + f["links"] + s[1] + f["owner"] + s[2] + f["group"] + s[3]
            + f["size"] + s[4] + when + s[5] + name)


def expected_unix(f, line):
    is_dir = f["ty"] in "dl"     # convention of the library: links are listed as directories
    year = f["year"] if f["form"] == "year" else current_year()
    modified = float(calendar.timegm((year, f["month"], f["day"], f["hour"], f["minute"], 0)))
    return {"basic": {"name": unicodedata.normalize("NFC", f["name"]), "is_dir": is_dir},
            "details": {"size": int(f["size"]), "type": 1 if is_dir else 2, "modified": modified},
            "access": {"permissions": expected_perm_names(f["perms"]), "user": f["owner"], "group": f["group"]},
            "ftp": {"ls": line}}


def list_outcome(lines):
    try:
        return "ok", M()["lp"].parse(lines)
    except Exception as e:  # noqa
        return "exc", e


def list_exception_sig(line, e):
    if isinstance(e, ValueError) and "day is out of range" in str(e) and re.search(r"Feb\s+29\s", line, re.I):
        return SIG_FEB29
    return "list parse " + type(e).__name__


def check_unix(f):
    line = render_unix(f)
    exp = expected_unix(f, line)
    kind, r = list_outcome([line])
    if kind == "exc":
        return type(r).__name__, fail(list_exception_sig(line, r), "foreign-exception", "list/unix", f,
                                      "%s: %s" % (type(r).__name__, r), repr([exp]))
    if r == [exp]:
        return "exact", None
    sig = "list unix mismatch"
    if len(r) == 1 and isinstance(r[0], dict):
        g = json.loads(json.dumps(r[0]))
        e2 = json.loads(json.dumps(exp))
        causes = []
        if (isinstance(g.get("access"), dict) and g["access"].get("permissions") != e2["access"]["permissions"]
                and re.search("[sStT]", f["perms"])):
            g["access"]["permissions"] = e2["access"]["permissions"]
            causes.append(SIG_SPECIAL_BITS)
        if (f["year"] == 1900 and isinstance(g.get("details"), dict)
                and g["details"].get("modified") != e2["details"]["modified"]):
            g["details"]["modified"] = e2["details"]["modified"]
            causes.append(SIG_Y1900)
        if causes and g == e2:       # nothing else differs; two independent defects may coincide
            sig = causes[0]
    elif r == []:
        sig = "list unix well-formed line skipped"
    return "mismatch", fail(sig, "wrong-info", "list/unix", f, repr(r), repr([exp]))


def random_windows(rnd):
    year = rnd.choice([1980, 1999, 2000, 2018, 2024, 2068, rnd.randint(1970, 2068)])
    month = rnd.randint(1, 12)
    f = dict(year=year, month=month, day=rnd.randint(1, days_in_month(year, month)), yfmt=rnd.choice([2, 2, 2, 4]),
             hour=rnd.randint(0, 23), minute=rnd.randint(0, 59), clock=rnd.choice(["12", "24"]),
             lower=rnd.random() < 0.15, is_dir=rnd.random() < 0.4,
             size=str(rnd.choice([0, 5, 9276, 2 ** 33, rnd.randint(0, 10 ** 7)])),
             seps=[rnd.choice(["  ", " ", "       ", "\t"]) for _ in range(3)])
    while True:
        n = rtext(rnd, NAME_POOL if rnd.random() < 0.6 else list("abc.txt019_"), 1, 8)
        if "\n" not in n and not _WS.match(n[0]):
            break
    f["name"] = n
    return f


def render_windows(f):
    yy = "%02d" % (f["year"] % 100) if f["yfmt"] == 2 else "%04d" % f["year"]
    date = "%02d-%02d-%s" % (f["month"], f["day"], yy)
    if f["clock"] == "12":
        h = f["hour"] % 12 or 12
        ap = "AM" if f["hour"] < 12 else "PM"
        tm = "%02d:%02d%s" % (h, f["minute"], ap.lower() if f["lower"] else ap)
    else:
        tm = "%02d:%02d" % (f["hour"], f["minute"])
    s = f["seps"]
    return date + s[0] + tm + s[1] + ("<DIR>" if f["is_dir"] else f["size"]) + s[2] + f["name"]


def expected_windows(f, line):
    details = {"type": 1 if f["is_dir"] else 2,
               "modified": float(calendar.timegm((f["year"], f["month"], f["day"], f["hour"], f["minute"], 0)))}
    if not f["is_dir"]:
        details["size"] = int(f["size"])
    return {"basic": {"name": f["name"], "is_dir": f["is_dir"]}, "details": details, "ftp": {"ls": line}}


def check_windows(f):
    line = render_windows(f)
    exp = expected_windows(f, line)
    kind, r = list_outcome([line])
    if kind == "exc":
        return type(r).__name__, fail(list_exception_sig(line, r), "foreign-exception", "list/windows", f,
                                      "%s: %s" % (type(r).__name__, r), repr([exp]))
    if r == [exp]:
        return "exact", None
    sig = "list windows mismatch"
    if len(r) == 1 and isinstance(r[0], dict) and isinstance(r[0].get("details"), dict):
        got_m = r[0]["details"].get("modified")
        g = json.loads(json.dumps(r[0]))
        e2 = json.loads(json.dumps(exp))
        g["details"].pop("modified", None)
        e2["details"].pop("modified", None)
        if g == e2:
            if f["yfmt"] == 4 and got_m is None:
                sig = SIG_WIN_Y4
            elif f["yfmt"] == 2 and f["month"] != f["day"]:
                # the code's reading: first field = day, second = month
                d, mth = f["month"], f["day"]
                swapped = None
                if mth <= 12 and d <= days_in_month(f["year"], mth):
                    swapped = float(calendar.timegm((f["year"], mth, d, f["hour"], f["minute"], 0)))
                if got_m == swapped:
                    sig = SIG_WIN_DDMM
    elif r == []:
        sig = "list windows well-formed line skipped"
    return "mismatch", fail(sig, "wrong-info", "list/windows", f, repr(r), repr([exp]))


def garbage_line(rnd, valid_lines):
    k = rnd.random()
    if k < 0.35:
        return bytes(bytearray(rnd.randint(0, 255) for _ in range(rnd.randint(0, 40)))).decode("latin-1")
    base = rnd.choice(valid_lines)
    if k < 0.55:
        return base[:rnd.randint(0, len(base))]
    if k < 0.7:
        return re.sub(" ", lambda m: " " * rnd.randint(1, 3), base)
    chars = list(base)
    for _ in range(rnd.randint(1, 4)):
        i = rnd.randint(0, len(chars))
        op = rnd.random()
        c = rnd.choice(list(u" \t\n-:<>=;/\\%0123456789abzFebJan") + [u"\xa0", u"٣", u"\xb2", u" ", "29", "Feb 29 "])
        if op < 0.4 or not chars:
            chars.insert(i, c)
        elif op < 0.7:
            chars[min(i, len(chars) - 1)] = c
        else:
            del chars[min(i, len(chars) - 1)]
    return "".join(chars)


def check_list_garbage(line):
    kind, r = list_outcome([line])
    if kind == "exc":
        return type(r).__name__, fail(list_exception_sig(line, r), "foreign-exception", "list/garbage", line,
                                      "%s: %s" % (type(r).__name__, r), "a list (unparsable lines are skipped)")
    if not isinstance(r, list) or len(r) > 1:
        return "other", fail("list parse returns non-list", "wrong-result-type", "list/garbage", line, repr(r),
                             "a list with at most one entry")
    return ("parsed" if r else "skipped"), None


# ===================================================================== 4. MLSD / MLST / FEAT

SIG_MLSX_RANGE = "mlsx modify out-of-range ValueError"
SIG_MLSX_SIZE = "mlsx size isdigit-but-not-int ValueError"
SIG_MLSX_NAME = "mlsx name containing ';' or '=' mis-parsed"
SIG_MLSX_CASE = "mlsx type value compared case-sensitively"
SIG_MLSX_BLANK = "mlsx line without name yields entry with empty name"

_D14 = re.compile(r"^[0-9]{4}[0-9]{2}[0-9]{2}[0-9]{2}[0-9]{2}[0-9]{1,2}")


def independent_ftp_time(text):
    """-> ('none', None) | ('value', epoch) | ('out-of-range', None) | ('lenient', None).

    Independent reading of YYYYMMDDHHMMSS[.sss]: six ASCII-digit fields (slices as in Python,
    so 13 characters give a one-digit second); timegm for in-range fields."""
    t = text[0:14]
    parts = [t[0:4], t[4:6], t[6:8], t[8:10], t[10:12], t[12:14]]
    if any(p == "" for p in parts):
        return "none", None
    if not all(re.match(r"^[0-9]+$", p) for p in parts):
        # int() also accepts blanks, signs, '_' and non-ASCII digits: outside the model
        return "lenient", None
    y, mo, d, h, mi, s = [int(p) for p in parts]
    if not (1 <= y and 1 <= mo <= 12):
        return "none", None          # no such date(year, month, 1): skipped
    if not (1 <= d <= 31 and h < 24 and mi < 60 and s < 62):
        return "out-of-range", None
    if d > days_in_month(y, mo):
        return "out-of-range", None
    return "value", calendar.timegm((y, mo, d, h, mi, s))


def random_ftp_time(rnd):
    k = rnd.random()
    y, mo = rnd.choice([1970, 1999, 2000, 2020, 2024, 2038, 9999, 1, rnd.randint(1, 9999)]), rnd.randint(1, 12)
    d = rnd.randint(1, days_in_month(y, mo))
    t = "%04d%02d%02d%02d%02d%02d" % (y, mo, d, rnd.randint(0, 23), rnd.randint(0, 59), rnd.randint(0, 59))
    if k < 0.6:
        return t + rnd.choice(["", "", ".123", ".5", ".000000"])
    if k < 0.7:      # out of range somewhere
        i = rnd.choice([0, 4, 6, 8, 10, 12])
        bad = {0: "0000", 4: rnd.choice(["00", "13", "99"]), 6: rnd.choice(["00", "32", "99"]),
               8: rnd.choice(["24", "99"]), 10: rnd.choice(["60", "99"]), 12: rnd.choice(["62", "99"])}[i]
        return t[:i] + bad + t[i + len(bad):]
    if k < 0.8:      # truncated
        return t[:rnd.randint(0, 13)]
    if k < 0.9:      # non-digits
        i = rnd.randint(0, 13)
        return t[:i] + rnd.choice(["a", ".", ":", "T", "-", " ", "_", "+", u"٣"]) + t[i + 1:]
    return rtext(rnd, list("0123456789.aT:- "), 0, 16)


MLSX_NAMES = list("abcxyzABC0189") + list(" ._-()[]@#!$&'+,~") + [u"\xe9", u"é", u"中", u"\U0001f600", "%20"]


def random_mlsx(rnd):
    facts = []
    tval = rnd.choice(["file", "file", "dir", "dir", "cdir", "pdir", "OS.unix=slink:/x", None])
    tcase = rnd.choice(["lower"] * 6 + ["upper", "title"])
    if tval is not None:
        facts.append(["type", tval if tcase == "lower" else (tval.upper() if tcase == "upper" else tval.title())])
    if rnd.random() < 0.7:
        facts.append([rnd.choice(["size", "size", "sizd"]),
                      rnd.choice(["0", "12", "4096", str(rnd.randint(0, 10 ** 12)), "12a", "", "-1", "1.5",
                                  u"١٢", " 7 ", u"\xb2", u"1\xb3"])])
    if rnd.random() < 0.7:
        facts.append(["modify", random_ftp_time(rnd)])
    if rnd.random() < 0.3:
        facts.append(["create", random_ftp_time(rnd)])
    if rnd.random() < 0.4:
        facts.append(["unix.mode", rnd.choice(["0644", "0755", "755"])])
    if rnd.random() < 0.3:
        facts.append([rnd.choice(["perm", "unique", "lang", "media-type", "x.y", "UNIX.owner"]),
                      rnd.choice(["adfr", "8U6", "en", "text/plain", "a=b", ""])])
    rnd.shuffle(facts)
    keycase = rnd.choice(["lower"] * 4 + ["upper", "title"])
    for f in facts:
        f[0] = f[0] if keycase == "lower" else (f[0].upper() if keycase == "upper" else f[0].title())
    junk = rnd.choice([None] * 5 + ["junk", "", " "])
    namekind = rnd.random()
    if namekind < 0.08:
        name = rnd.choice(["a;b", "a=b", "x=1;y", ";", "k=v.txt"])
    elif namekind < 0.12:
        name = ""
    else:
        while True:
            name = rtext(rnd, MLSX_NAMES if rnd.random() < 0.5 else list("abc.txt019_"), 1, 8)
            if name.strip() == name and name not in (".", ".."):
                break
    return dict(facts=facts, pad=rnd.choice(["", "", "", " "]), junk=junk, name=name,
                lead=rnd.choice(["", "", " ", "\t"]), trail=rnd.choice(["", "", "\r", " "]))


def render_mlsx(f):
    s = "".join("%s%s=%s;" % (f["pad"], k, v) for k, v in f["facts"])
    if f["junk"] is not None:
        s += f["junk"] + ";"
    return f["lead"] + s + " " + f["name"] + f["trail"]


def expected_mlsx(f):
    """-> (list of expected entries, strict) following RFC 3659: facts are 'name=value;', names are
    case-insensitive, the type values too; the pathname follows the single space."""
    facts = {}
    for k, v in f["facts"]:
        facts[k.strip().lower()] = v.strip()
    name = f["name"]
    if name == "":
        return [], "blank"
    tval = facts.get("type", "file")
    if tval.lower() not in ("file", "dir"):
        return [], "skip"
    is_dir = tval.lower() == "dir"
    size_s = facts.get("size", facts.get("sizd", "0"))
    details = {"type": 1 if is_dir else 2, "size": int(size_s) if size_s.isdecimal() else 0}
    flags = []
    for key, dst in (("modify", "modified"), ("create", "created")):
        if key in facts:
            kind, val = independent_ftp_time(facts[key])
            if kind in ("out-of-range", "lenient"):
                flags.append((kind, dst))
                details[dst] = Ellipsis      # not compared
            else:
                details[dst] = val
    return [{"basic": {"name": name, "is_dir": is_dir}, "ftp": facts, "details": details}], flags


def mlsx_outcome(lines):
    try:
        return "ok", list(M()["FTPFS"]._parse_mlsx(lines))
    except Exception as e:  # noqa
        return "exc", e


def mlsx_exception_sig(line, e):
    msg = str(e)
    if isinstance(e, ValueError) and ("month must be" in msg or "is out of range" in msg):
        return SIG_MLSX_RANGE
    if isinstance(e, ValueError) and "invalid literal for int" in msg:
        return SIG_MLSX_SIZE
    return "mlsx " + type(e).__name__


def same_entry(got, exp):
    if set(got) != set(exp):
        return False
    for ns in exp:
        if ns != "details":
            if got[ns] != exp[ns]:
                return False
            continue
        if set(got[ns]) != set(exp[ns]):
            return False
        for k, v in exp[ns].items():
            if v is Ellipsis:
                if not (got[ns][k] is None or isinstance(got[ns][k], int)):
                    return False
            elif got[ns][k] != v or type(got[ns][k]) != type(v):
                return False
    return True


def check_mlsx(f):
    line = render_mlsx(f)
    exp, flags = expected_mlsx(f)
    kind, r = mlsx_outcome([line])
    show = repr(exp).replace("Ellipsis", "<any int or None>")
    if kind == "exc":
        return type(r).__name__, fail(mlsx_exception_sig(line, r), "foreign-exception", "mlsx", f,
                                      "%s: %s" % (type(r).__name__, r), show)
    if len(r) == len(exp) and all(same_entry(g, e) for g, e in zip(r, exp)):
        if isinstance(flags, list) and flags:
            return "exact-but-" + flags[0][0] + "-time-accepted", None
        return ("exact" if exp else "skipped-as-expected"), None
    sig = "mlsx mismatch"
    if flags == "blank" and len(r) == 1 and r[0]["basic"]["name"] == "":
        sig = SIG_MLSX_BLANK
    elif ";" in f["name"] or "=" in f["name"]:
        sig = SIG_MLSX_NAME
    elif exp and r == []:
        tv = [v for k, v in f["facts"] if k.lower() == "type"]
        if tv and tv[-1] != tv[-1].lower():
            sig = SIG_MLSX_CASE
    return "mismatch", fail(sig, "wrong-info", "mlsx", f, repr(r), show)


def check_mlsx_garbage(line):
    kind, r = mlsx_outcome([line])
    if kind == "exc":
        return type(r).__name__, fail(mlsx_exception_sig(line, r), "foreign-exception", "mlsx/garbage", line,
                                      "%s: %s" % (type(r).__name__, r), "a list (unparsable lines are skipped)")
    return ("parsed" if r else "skipped"), None


def check_ftp_time(text):
    """FTPFS._parse_ftp_time against the independent reading."""
    kind, exp = independent_ftp_time(text)
    try:
        got = M()["FTPFS"]._parse_ftp_time(text)
    except Exception as e:  # noqa
        return type(e).__name__, fail(mlsx_exception_sig(text, e), "foreign-exception", "ftp_time", text,
                                      "%s: %s" % (type(e).__name__, e), "None or an integer")
    if kind == "value" and got != exp:
        return "mismatch", fail("ftp_time wrong value", "wrong-info", "ftp_time", text, repr(got), repr(exp))
    if kind == "none" and got is not None:
        return "mismatch", fail("ftp_time wrong value", "wrong-info", "ftp_time", text, repr(got), "None")
    return kind + ("" if got is None else "->int"), None


def random_feat(rnd):
    k = rnd.random()
    if k < 0.5:
        feats = []
        for _ in range(rnd.randint(0, 5)):
            key = rnd.choice(["MLST", "UTF8", "SIZE", "MDTM", "REST", "EPSV", "x-" + rtext(rnd, list("abc"), 1, 3)])
            val = rnd.choice(["", "", "type*;size*;modify*;", "STREAM", "a b c"])
            feats.append((key, val))
        nl = rnd.choice(["\n", "\r\n"])
        text = "211-Features:" + nl + "".join(" %s%s%s" % (k2, " " + v if v else "", nl) for k2, v in feats) + "211 End"
        exp = {}
        for k2, v in feats:
            exp[k2] = v
        return text, exp
    if k < 0.7:
        return rnd.choice(["500 Unknown command", "502 Not implemented", "211 no-features", ""]), {}
    return rtext(rnd, list("21- \n\r\tabcMLST;*=") + [u"\x85", u" ", "211-", "\n "], 0, 30), None


def check_feat(text, exp):
    inp = dict(text=text, expected=exp)
    try:
        got = M()["FTPFS"]._parse_features(text)
    except Exception as e:  # noqa
        return type(e).__name__, fail("features " + type(e).__name__, "foreign-exception", "features", inp,
                                      "%s: %s" % (type(e).__name__, e), "a dict")
    if not isinstance(got, dict):
        return "other", fail("features returns non-dict", "wrong-result-type", "features", inp, repr(got), "a dict")
    if exp is not None and got != exp:
        return "mismatch", fail("features mismatch", "wrong-info", "features", inp, repr(got), repr(exp))
    return ("features" if got else "empty"), None


# ===================================================================== 5. ambient process configuration
#
# Every time-bearing parser case is evaluated under several process time zones (os.environ['TZ'] +
# time.tzset(), POSIX TZ strings: no tzdata needed) and, where one is installed, under LC_TIME locales other
# than C.  What a line states does not depend on who reads it: the outcome (raw parser result, and the verdict
# of the faithfulness check with its calendar.timegm expectation) must be the same under every setting.

AMBIENT_TZ = ["UTC0", "XST-3", "EST5EDT,M3.2.0,M11.1.0", "IST-5:30", "NZST-12NZDT,M9.5.0,M4.1.0/3"]
THOROUGH_TZ = ["XAT-5:45", "HST10", "CET-1CEST,M3.5.0,M10.5.0/3", "LINT-14", "AOE12"]
LOCALE_CANDIDATES = ["de_DE.UTF-8", "fr_FR.UTF-8", "es_ES.UTF-8", "ru_RU.UTF-8", "ja_JP.UTF-8", "zh_CN.UTF-8", "tr_TR.UTF-8",
                     "ar_SA.UTF-8", "C.UTF-8"]


def sig_ambient(parser, what):
    return "%s: result depends on the %s" % (parser, "process time zone (TZ)" if what == "tz" else "LC_TIME locale")


class Ambient(object):
    """Set TZ (+ tzset) and/or LC_TIME for the duration of a with-block; always restored."""
    def __init__(self, tz=None, lc_time=None):
        self.tz, self.lc_time = tz, lc_time

    def __enter__(self):
        import locale
        self.saved_tz = os.environ.get("TZ")
        self.saved_lc = None
        if self.lc_time is not None:
            self.saved_lc = locale.setlocale(locale.LC_TIME)
            locale.setlocale(locale.LC_TIME, self.lc_time)
        if self.tz is not None:
            os.environ["TZ"] = self.tz
            time.tzset()
        return self

    def __exit__(self, *exc):
        import locale
        if self.tz is not None:
            if self.saved_tz is None:
                os.environ.pop("TZ", None)
            else:
                os.environ["TZ"] = self.saved_tz
            time.tzset()
        if self.saved_lc is not None:
            locale.setlocale(locale.LC_TIME, self.saved_lc)
        return False


def c_month_names():
    return [time.strftime("%b", (2001, m, 1, 0, 0, 0, 0, 1, 0)) for m in range(1, 13)] + \
        [time.strftime("%p", (2001, 1, 1, h, 0, 0, 0, 1, 0)) for h in (1, 13)]


def installed_locales():
    """[(name, differs from C in %b / %p)] of the LC_TIME locales this machine can switch to (C/POSIX excluded)."""
    import locale
    names = []
    try:
        out = subprocess.run(["locale", "-a"], stdout=subprocess.PIPE, stderr=subprocess.DEVNULL, universal_newlines=True,
                             timeout=20).stdout.split("\n")
        names = [n.strip() for n in out if n.strip()]
    except Exception:  # noqa
        pass
    names = [n for n in LOCALE_CANDIDATES + sorted(names) if n not in ("C", "POSIX")]
    with Ambient():
        ref = c_month_names()
    out, seen = [], set()
    for n in names:
        if n.lower().replace("-", "") in seen:
            continue
        seen.add(n.lower().replace("-", ""))
        try:
            with Ambient(lc_time=n):
                out.append((n, c_month_names() != ref))
        except locale.Error:
            continue
    out.sort(key=lambda x: not x[1])          # locales with other month names first
    return out


def fs_time_reference(inp):
    """Independent expectation for fs.time: (epoch_to_datetime fields, datetime_to_epoch value)."""
    import datetime as dtm
    import math
    if inp["kind"] == "epoch":
        e = inp["value"]           # integers and exact binary fractions: no rounding question
        d = dtm.datetime(1970, 1, 1) + dtm.timedelta(seconds=math.floor(e), microseconds=int(round((e - math.floor(e)) * 10 ** 6)))
        return (d.year, d.month, d.day, d.hour, d.minute, d.second, d.microsecond), int(math.floor(e))
    y, mo, d, h, mi, s = inp["fields"]
    return None, calendar.timegm((y, mo, d, h, mi, s)) - 60 * inp["offset_minutes"]


def fs_time_outcome(inp):
    import datetime as dtm
    import fs.time as ft
    try:
        if inp["kind"] == "epoch":
            d = ft.epoch_to_datetime(inp["value"])
            off = d.utcoffset()
            return "ok", ((d.year, d.month, d.day, d.hour, d.minute, d.second, d.microsecond),
                          None if off is None else off.total_seconds(), ft.datetime_to_epoch(d))
        y, mo, d, h, mi, s = inp["fields"]
        aware = dtm.datetime(y, mo, d, h, mi, s, tzinfo=dtm.timezone(dtm.timedelta(minutes=inp["offset_minutes"])))
        return "ok", (None, None, ft.datetime_to_epoch(aware))
    except Exception as e:  # noqa
        return "exc", "%s: %s" % (type(e).__name__, e)


def check_fs_time(inp):
    """fs.time.epoch_to_datetime gives the aware UTC datetime of the epoch value (fraction kept), datetime_to_epoch
    of it the whole seconds again; datetime_to_epoch of an aware datetime in any fixed-offset zone is its UTC epoch."""
    kind, r = fs_time_outcome(inp)
    fields, epoch = fs_time_reference(inp)
    exp = (fields, 0.0 if fields is not None else None, epoch)
    if kind == "exc":
        return "exception", fail("fs.time " + r.split(":")[0], "foreign-exception", "fs.time", inp, r, repr(exp))
    if r != exp:
        return "mismatch", fail("fs.time wrong value", "wrong-info", "fs.time", inp, repr(r), repr(exp))
    return inp["kind"], None


def ambient_inputs(rnd, thorough):
    """[(parser, input)]: the time-bearing cases re-evaluated under every ambient setting."""
    out = []
    cy = current_year()
    n = 5 if thorough else 1
    for _ in range(600 * n):
        out.append(("list/unix", random_unix(rnd)))
    for _ in range(400 * n):
        out.append(("list/windows", random_windows(rnd)))
    # every day of the months in which the zones above switch, at the hours around the switch (a local-time
    # conversion would fall into the gap / the repeated hour), plus the year ends
    tmpl_u = random_unix(rnd, perms="rw-r--r--", ty="-")
    tmpl_w = random_windows(rnd)
    for mo in (3, 4, 9, 10, 11):
        for day in range(1, days_in_month(cy, mo) + 1):
            for hour in (1, 2, 3):
                if (day + hour) % (1 if thorough else 2) == 0:
                    out.append(("list/unix", dict(tmpl_u, form="time", year=None, month=mo, day=day, hour=hour, minute=30,
                                                  name="f%d" % day)))
                    out.append(("list/windows", dict(tmpl_w, year=2024, month=mo, day=min(day, days_in_month(2024, mo)),
                                                     hour=hour, minute=30, yfmt=2, name="g%d" % day)))
                    out.append(("ftp_time", "2024%02d%02d%02d3000" % (mo, min(day, days_in_month(2024, mo)), hour)))
    for y in (1970, 1971, 1999, 2000, 2024, 2037, 2038, 2099):
        for mo, day in ((1, 1), (12, 31), (6, 30)):
            out.append(("list/unix", dict(tmpl_u, form="year", year=y, month=mo, day=day, hour=0, minute=0, name="y")))
            if y <= 2068:
                out.append(("list/windows", dict(tmpl_w, year=y, month=mo, day=day, hour=23, minute=59, yfmt=2, name="y")))
    k = 0
    while k < 400 * n:
        f = random_mlsx(rnd)
        if any(key.lower() in ("modify", "create") for key, _v in f["facts"]):
            out.append(("mlsx", f))
            k += 1
    for _ in range(400 * n):
        out.append(("ftp_time", random_ftp_time(rnd)))
    epochs = [0, 1, -1, 0.25, -0.25, 0.5, 86399.75, 86400, 951782400, 10 ** 9, 10 ** 9 + 0.5, 1710054000, 1710054000.75,
              1730613600, 2 ** 31 - 1, 2 ** 31, 2 ** 32 + 0.5, 4102444800, 32503680000.25, -10 ** 6 - 0.5, -2 ** 31,
              253402300799]
    for _ in range(100 * n):
        epochs.append(rnd.randint(-2 ** 31, 2 ** 33) + rnd.choice([0, 0, 0.25, 0.5, 0.75, 0.125]))
    for e in epochs:
        out.append(("fs.time", dict(kind="epoch", value=e)))
    for _ in range(100 * n):
        y, mo = rnd.choice([1970, 2000, 2024, 2038, rnd.randint(1971, 2200)]), rnd.randint(1, 12)
        out.append(("fs.time", dict(kind="aware", fields=[y, mo, rnd.randint(1, days_in_month(y, mo)), rnd.randint(0, 23),
                                                            rnd.randint(0, 59), rnd.randint(0, 59)],
                                    offset_minutes=rnd.choice([0, 60, -300, 330, 345, 720, 765, -720, 840, -1, 1]))))
    return out


def ambient_eval(parser, inp):
    """-> (raw parser outcome, signature of the faithfulness failure or None, failure, year-sensitive?)."""
    if parser == "list/unix":
        f = check_unix(inp)[1]
        kind, r = list_outcome([render_unix(inp)])
        return (kind, r if kind == "ok" else repr(r)), f, inp["form"] == "time"
    if parser == "list/windows":
        f = check_windows(inp)[1]
        kind, r = list_outcome([render_windows(inp)])
        return (kind, r if kind == "ok" else repr(r)), f, False
    if parser == "mlsx":
        f = check_mlsx(inp)[1]
        kind, r = mlsx_outcome([render_mlsx(inp)])
        return (kind, r if kind == "ok" else repr(r)), f, False
    if parser == "ftp_time":
        f = check_ftp_time(inp)[1]
        try:
            raw = ("ok", M()["FTPFS"]._parse_ftp_time(inp))
        except Exception as e:  # noqa
            raw = ("exc", repr(e))
        return raw, f, False
    if parser == "fs.time":
        return fs_time_outcome(inp), check_fs_time(inp)[1], False
    raise ValueError(parser)


def check_ambient(parser, inp, tz, lc_time, base=None):
    """Outcome under (tz, lc_time) against the outcome under UTC0 / LC_TIME=C.  -> (base, failure or None)."""
    if base is None:
        with Ambient(tz=AMBIENT_TZ[0], lc_time="C"):
            base = ambient_eval(parser, inp) + (current_year(),)
    with Ambient(tz=tz, lc_time=lc_time):
        raw, f, ysens = ambient_eval(parser, inp)
        year = current_year()
    braw, bf, _ys, byear = base
    same_raw = raw == braw or (ysens and year != byear)      # a year-less date is read in the local current year
    if same_raw and (f is None) == (bf is None) and (f is None or f["sig"] == bf["sig"]):
        return base, None
    what = "tz" if (lc_time in (None, "C") or tz not in (None, AMBIENT_TZ[0])) else "lc_time"
    return base, fail(sig_ambient(parser, what), "ambient-dependence", "ambient",
                      dict(parser=parser, input=inp, tz=tz, lc_time=lc_time),
                      "under TZ=%r LC_TIME=%r: %r%s" % (tz, lc_time, raw, "" if f is None else " [%s; expected %s]" % (f["sig"], f["expected"])),
                      "as under TZ=%r LC_TIME='C': %r%s" % (AMBIENT_TZ[0], braw, "" if bf is None else " [%s]" % bf["sig"]))


# ===================================================================== 6. statefulness
#
# A parser is a function of its input text: what it returns for X does not depend on what the callers did with the
# results of earlier calls (a ParseResult's params dict, a raw-info dict, a FEAT dict are mutable and callers do
# consume them), on which other inputs were parsed in between, or on which thread asks.  For every parser of the
# property: parse X and keep a deep copy (taken BEFORE anything is touched; for the generated inputs the independent
# expectation of sections 2-4 is checked on top), mutate everything mutable in the result, parse other inputs (and
# mutate those results), parse X again - every later outcome must equal the first one, and the independent
# faithfulness verdict must stay the same.

MUTATION_MODES = ("update", "pop", "clear", "poison-values")
STATEFUL_PARSERS = ("parse_fs_url", "fs.opener.parse", "registry.open", "list", "list/parse_line", "mlsx", "mlsx/facts",
                    "features", "ftp_time")


def sig_stateful(parser):
    return "%s: result depends on what earlier callers did with earlier results (shared mutable state)" % parser


def freeze(x):
    """Deep, type-sensitive, order-insensitive (for dicts) immutable image of a parser outcome."""
    if isinstance(x, dict):
        return ("dict", tuple(sorted(((freeze(k), freeze(v)) for k, v in x.items()), key=repr)))
    if isinstance(x, tuple) and hasattr(x, "_fields"):
        return (type(x).__name__,) + tuple((f, freeze(getattr(x, f))) for f in x._fields)
    if isinstance(x, (list, tuple)):
        return (type(x).__name__, tuple(freeze(v) for v in x))
    if isinstance(x, (set, frozenset)):
        return (type(x).__name__, tuple(sorted((freeze(v) for v in x), key=repr)))
    return (type(x).__name__, repr(x))


def mutate(x, mode, depth=0):
    """Change everything mutable that is reachable from a parser result, in place.  -> number of objects changed."""
    n = 0
    if depth > 6:
        return 0
    if isinstance(x, dict):
        for v in list(x.values()):
            n += mutate(v, mode, depth + 1)
        if mode == "update":
            x["<added by a caller>"] = "x"
            for k in list(x):
                if isinstance(x[k], (str, int, float)) or x[k] is None:
                    x[k] = "<changed by a caller>"
                    break
        elif mode == "pop":
            if x:
                x.pop(sorted(x, key=repr)[0])
        elif mode == "clear":
            x.clear()
        else:
            for k in list(x):
                if not isinstance(x[k], (dict, list)):
                    x[k] = "<changed by a caller>"
        return n + 1
    if isinstance(x, list):
        for v in list(x):
            n += mutate(v, mode, depth + 1)
        if mode == "update":
            x.append("<added by a caller>")
        elif mode == "pop":
            if x:
                x.pop()
        elif mode == "clear":
            del x[:]
        else:
            x.reverse()
            x.append(None)
        return n + 1
    if isinstance(x, tuple):
        for v in x:
            n += mutate(v, mode, depth + 1)
        for f in getattr(x, "_fields", ()):          # attribute assignment where possible (a namedtuple refuses)
            try:
                setattr(x, f, "<changed by a caller>")
                n += 1
            except Exception:  # noqa
                pass
        return n
    if hasattr(x, "__dict__") and not isinstance(x, type):
        for k in list(vars(x)):
            try:
                setattr(x, k, "<changed by a caller>")
                n += 1
            except Exception:  # noqa
                pass
    return n


_REC = {}


def recording_registry():
    """A private fs.opener Registry with one opener ('rec://') that records the ParseResult the registry hands it and
    then consumes it the way openers do (pops / adds options in parse_result.params)."""
    if not _REC:
        from fs.opener.registry import Registry
        from fs.opener.base import Opener
        from fs.memoryfs import MemoryFS
        seen = []

        class RecOpener(Opener):
            protocols = ["rec"]

            def open_fs(self, fs_url, parse_result, writeable, create, cwd):
                seen.append(freeze(parse_result))
                mutate(parse_result, _REC.get("mode", "pop"))
                return MemoryFS()
        reg = Registry(load_extern=False)
        reg.install(RecOpener)
        _REC.update(registry=reg, seen=seen)
    return _REC


def stateful_call(parser, inp):
    """-> (outcome image, live result or None).  One call of the real parser; never raises."""
    m = M()
    if parser not in STATEFUL_PARSERS:
        raise ValueError(parser)
    try:
        if parser == "parse_fs_url":
            r = m["up"].parse_fs_url(inp)
        elif parser == "fs.opener.parse":
            import fs.opener
            r = fs.opener.parse(inp)
        elif parser == "registry.open":
            rec = recording_registry()
            del rec["seen"][:]
            f, path = rec["registry"].open(inp)
            f.close()
            return ("ok", (tuple(rec["seen"]), freeze(path))), None     # the opener mutated the ParseResult itself
        elif parser == "list":
            r = m["lp"].parse(inp)
        elif parser == "list/parse_line":
            r = m["lp"].parse_line(inp)
        elif parser == "mlsx":
            r = list(m["FTPFS"]._parse_mlsx(inp))
        elif parser == "mlsx/facts":
            r = m["FTPFS"]._parse_facts(inp)
        elif parser == "features":
            r = m["FTPFS"]._parse_features(inp)
        else:
            r = m["FTPFS"]._parse_ftp_time(inp)
    except Exception as e:  # noqa
        return ("raised", type(e).__name__), None
    return ("ok", freeze(r)), r


def check_stateful(inp):
    """Replayable unit: inp = dict(parser, input, mode, between=[(parser, input), ...]).
    parse input; mutate the result; parse (and mutate) the `between` inputs; parse input again (twice)."""
    parser, x, mode = inp["parser"], inp["input"], inp["mode"]
    _REC["mode"] = mode
    first, live = stateful_call(parser, x)
    if live is not None:
        mutate(live, mode)
    for p2, x2 in inp.get("between") or []:
        _o, l2 = stateful_call(p2, x2)
        if l2 is not None:
            mutate(l2, mode)
    for again in (1, 2):
        later, live = stateful_call(parser, x)
        if later != first:
            return fail(sig_stateful(parser), "stateful", "stateful", inp,
                        "parse #%d of the same text after a caller changed the earlier result (%s): %r" % (again + 1, mode, later),
                        "as the first parse: %r" % (first,))
        if live is not None:
            mutate(live, mode)
    return None


def explore_stateful(seed, thorough, record, nontrivial):
    """-> coverage dict; failures go to record()."""
    t0 = time.time()
    rnd = random.Random(seed * 15485863 + 2020)
    k = 3 if thorough else 1
    # inputs from the grammars of sections 1-4 (with their independent expectations), probes included
    parts = []
    while len(parts) < 260 * k:
        p = random_parts(rnd)
        if p["params"] or len(parts) % 4 == 0:
            parts.append(p)
    ufields = [random_unix(rnd) for _ in range(100 * k)]
    wfields = [random_windows(rnd) for _ in range(60 * k)]
    mfields = [random_mlsx(rnd) for _ in range(150 * k)]
    times = [random_ftp_time(rnd) for _ in range(80 * k)]
    feats = [random_feat(rnd)[0] for _ in range(80 * k)]
    built = [build_url(p) for p in parts]
    urls = list(URL_PROBES) + built + [random_urlish(rnd) for _ in range(60 * k)]
    urls = [u for u in urls if not any(0xD800 <= ord(c) <= 0xDFFF for c in u)]
    rec = ["rec://" + u.split("://", 1)[1] for u in built[:120 * k] if "\n" not in u.split("://", 1)[1]]
    lines = [render_unix(f) for f in ufields] + [render_windows(f) for f in wfields] + LIST_PROBES
    batches = [[l] for l in lines] + [rnd.sample(lines, rnd.randint(2, 6)) for _ in range(40 * k)]
    ml = [render_mlsx(f) for f in mfields] + MLSX_PROBES
    mbatches = [[l] for l in ml] + [rnd.sample(ml, rnd.randint(2, 6)) for _ in range(40 * k)]
    pools = {"parse_fs_url": urls, "fs.opener.parse": urls[::3], "registry.open": rec, "list": batches,
             "list/parse_line": lines[::2], "mlsx": mbatches, "mlsx/facts": ml[::2], "features": feats, "ftp_time": times}
    assert sorted(pools) == sorted(STATEFUL_PARSERS)

    def verdicts():
        """signature of the faithfulness failure (or None) of every generated input, by the independent expectations"""
        out = []
        for name, chk, items in (("parse_fs_url/round-trip", check_roundtrip, parts), ("list/unix", check_unix, ufields),
                                 ("list/windows", check_windows, wfields), ("mlsx", check_mlsx, mfields),
                                 ("ftp_time", check_ftp_time, times)):
            for it in items:
                f = chk(it)[1]
                out.append((name, it, None if f is None else f["sig"], None if f is None else f["observed"]))
        return out
    verdict0 = verdicts()
    cov = dict(parsers=sorted(pools), inputs=dict((p, len(v)) for p, v in pools.items()), mutation_modes=list(MUTATION_MODES),
               units=0, calls=len(verdict0) * 2, results_mutated=0, phases={}, threads=0, failures=0,
               independent_verdicts_rechecked=len(verdict0))
    everything = [(p, x) for p in sorted(pools) for x in pools[p]]

    def note(f):
        if f is not None:
            cov["failures"] += 1
            record(f)
    # the reference: first outcome of every input, taken before ANY result has been touched (deep, immutable image);
    # the independent expectations of sections 2-4 have judged these very inputs in this run already
    reference = {}
    live = {}
    for p, x in everything:
        o, l = stateful_call(p, x)
        reference[(p, json.dumps(x))] = o
        live[(p, json.dumps(x))] = l
        cov["calls"] += 1
        if o[0] == "ok" and o[1] not in (("dict", ()), ("list", ()), ("NoneType", "None")):
            nontrivial.add(hash(("st", p, json.dumps(x))))

    def compare(p, x, o, phase, mode):
        cov["calls"] += 1
        bump(cov["phases"], phase)
        if o != reference[(p, json.dumps(x))]:
            note(fail(sig_stateful(p), "stateful", "stateful", dict(parser=p, input=x, mode=mode, between=[]),
                      "in phase %r (%s): %r" % (phase, mode, o), "as the first parse of this run: %r" % (reference[(p, json.dumps(x))],)))
    # phase A: now the callers change the results they were handed first, mode by mode; then every input again,
    # in the same and in the reverse order (more inputs in between than any cache would hold, and fewer)
    for mi, mode in enumerate(MUTATION_MODES):
        _REC["mode"] = mode
        for key, l in live.items():
            if l is not None:
                cov["results_mutated"] += 1 if mutate(l, mode) else 0
        order = everything if mi % 2 == 0 else everything[::-1]
        for p, x in order:
            o, l = stateful_call(p, x)
            compare(p, x, o, "all parsed, all results changed, all parsed again", mode)
            live[(p, json.dumps(x))] = l
    # phase B: replayable units - parse X, change the result, k other inputs in between, parse X again
    for i, (p, x) in enumerate(everything):
        mode = MUTATION_MODES[i % len(MUTATION_MODES)]
        between = [] if i % 3 == 0 else [everything[(i * 7 + j * 13 + 1) % len(everything)] for j in range(1 + i % 4)]
        unit = dict(parser=p, input=x, mode=mode, between=[list(b) for b in between])
        cov["units"] += 1
        cov["calls"] += 3 + len(between)
        bump(cov["phases"], "unit: parse, change, %d others, parse again" % len(between))
        f = check_stateful(unit)
        note(f)
        if f is None:
            o, _l = stateful_call(p, x)
            compare(p, x, o, "after the unit", mode)
    # phase C: several threads doing the same to the same inputs at once
    import threading
    nthreads = 6 if thorough else 4
    errors = []

    def worker(t):
        r2 = random.Random(t * 7919 + 5)
        mine = list(everything)
        r2.shuffle(mine)
        for i, (p, x) in enumerate(mine[:400 if not thorough else 2000]):
            if p == "registry.open":
                continue        # the recording opener's list is shared by design
            o, l = stateful_call(p, x)
            if o != reference[(p, json.dumps(x))]:
                errors.append((p, x, o, t))
            if l is not None:
                mutate(l, MUTATION_MODES[(i + t) % len(MUTATION_MODES)])
    ths = [threading.Thread(target=worker, args=(t,)) for t in range(nthreads)]
    for t in ths:
        t.start()
    for t in ths:
        t.join()
    cov["threads"] = nthreads
    cov["calls"] += nthreads * min(len(everything), 400 if not thorough else 2000)
    bump(cov["phases"], "threads", nthreads * min(len(everything), 400 if not thorough else 2000))
    for p, x, o, t in errors[:50]:
        note(fail(sig_stateful(p), "stateful", "stateful", dict(parser=p, input=x, mode="update", between=[]),
                  "in thread %d of %d parsing and changing results concurrently: %r" % (t, nthreads, o),
                  "as the first parse of this run: %r" % (reference[(p, json.dumps(x))],)))
    # the faithfulness verdicts of sections 2-4 must not have moved either (independent expectations)
    for (name, it, sig0, _o0), (_n, _i, sig1, obs1) in zip(verdict0, verdicts()):
        if sig0 != sig1:
            note(fail(sig_stateful(name), "stateful", name, it, "after the callers changed earlier results: %s (%s)" % (obs1, sig1),
                      "the verdict before anything was changed: %s" % (sig0 or "exactly the expected result",)))
    cov["seconds"] = round(time.time() - t0, 2)
    return cov


# ===================================================================== re-check / minimise

def recheck(parser, inp):
    """Re-run one stored input; returns the failure dict or None."""
    if parser == "ambient":
        return check_ambient(inp["parser"], inp["input"], inp.get("tz"), inp.get("lc_time"))[1]
    if parser == "stateful":
        return check_stateful(inp)
    if parser == "fs.time":
        return check_fs_time(inp)[1]
    if parser == "parse_fs_url":
        return check_url_total(inp)[1]
    if parser == "parse_fs_url/round-trip":
        return check_roundtrip(inp)[1]
    if parser == "list/unix":
        return check_unix(inp)[1]
    if parser == "list/windows":
        return check_windows(inp)[1]
    if parser == "list/garbage":
        return check_list_garbage(inp)[1]
    if parser == "mlsx":
        return check_mlsx(inp)[1]
    if parser == "mlsx/garbage":
        return check_mlsx_garbage(inp)[1]
    if parser == "ftp_time":
        return check_ftp_time(inp)[1]
    if parser == "features":
        return check_feat(inp["text"], inp["expected"])[1]
    raise ValueError(parser)


def rendered(parser, inp):
    """The text actually handed to the parser, for reports."""
    try:
        if parser == "ambient":
            return "TZ=%s LC_TIME=%s %s: %r" % (inp.get("tz"), inp.get("lc_time"), inp["parser"],
                                                rendered(inp["parser"], inp["input"]))
        if parser == "stateful":
            return "%s: %r, result changed by the caller (%s), %d other inputs, then the same text again" % (
                inp["parser"], inp["input"], inp["mode"], len(inp.get("between") or []))
        if parser == "parse_fs_url/round-trip":
            return build_url(inp)
        if parser == "list/unix":
            return render_unix(inp)
        if parser == "list/windows":
            return render_windows(inp)
        if parser == "mlsx":
            return render_mlsx(inp)
        if parser == "features":
            return inp["text"]
    except Exception:  # noqa
        return None
    return inp


SHRINK_KEYS = {
    "parse_fs_url/round-trip": ["params", "path", "username", "password", "resource", "protocol"],
    "list/unix": ["name", "target", "owner", "group", "size", "links", "acl", "seps"],
    "list/windows": ["name", "size", "seps"],
    "mlsx": ["facts", "junk", "pad", "lead", "trail", "name"],
}
NULLABLE = {"params", "path", "username", "password", "junk"}


def shrink_candidates(v):
    if isinstance(v, str):
        n = len(v)
        if n == 0:
            return
        yield v[:n // 2]
        yield v[n // 2:]
        if n <= 16:
            for i in range(n):
                yield v[:i] + v[i + 1:]
        for i in range(min(n, 16)):
            if not (v[i] < u"\x80" and v[i].isalnum()):
                yield v[:i] + "a" + v[i + 1:]
    elif isinstance(v, list):
        for i in range(len(v)):
            yield v[:i] + v[i + 1:]
        for i in range(len(v)):
            for c in shrink_candidates(v[i]):
                yield v[:i] + [c] + v[i + 1:]
    elif isinstance(v, dict):
        for k in sorted(v):
            d = dict(v)
            del d[k]
            yield d
        for k in sorted(v):
            for c in shrink_candidates(v[k]):
                d = dict(v)
                d[k] = c
                yield d
            for c in shrink_candidates(k):
                if c not in v:
                    d = dict(v)
                    d[c] = d.pop(k)
                    yield d


def minimise(failure, budget=600):
    """Delta-debug the stored input while the same signature is observed."""
    parser, sig = failure["parser"], failure["sig"]
    best = failure
    spent = [0]

    def still(inp):
        spent[0] += 1
        try:
            f = recheck(parser, inp)
        except Exception:  # noqa  (a shrunk field no longer fits the renderer)
            return None
        return f if f is not None and f["sig"] == sig else None

    progress = True
    while progress and spent[0] < budget:
        progress = False
        cur = best["input"]
        if isinstance(cur, str):
            cands = shrink_candidates(cur)
        elif parser == "features":
            cands = (dict(cur, text=c) for c in shrink_candidates(cur["text"])) if cur["expected"] is None else iter(())
        else:
            def gen(cur=cur):
                for k in SHRINK_KEYS.get(parser, []):
                    if k not in cur:
                        continue
                    if k in NULLABLE and cur[k] is not None:
                        yield dict(cur, **{k: None})
                    if k == "seps":
                        if any(x != " " for x in cur[k]):
                            yield dict(cur, seps=[" "] * len(cur[k]))
                        continue
                    if k == "name" and parser != "parse_fs_url/round-trip":
                        for c in shrink_candidates(cur[k]):
                            if c:
                                yield dict(cur, name=c)
                        continue
                    for c in shrink_candidates(cur[k]):
                        yield dict(cur, **{k: c})
            cands = gen()
        for c in cands:
            if spent[0] >= budget:
                break
            if c == cur:
                continue
            f = still(c)
            if f is not None:
                best = f
                progress = True
                break
    return best


# ===================================================================== exploration

URL_PROBES = ["x://@host", "zip://a.zip!/x@y", "://", "a://", "a://b\n", "a://b\n\n", "a\n://b", "ftp://u:p@h/d?x=1&y=%41!p",
              "a://u@h!p@q", "a:://b", "a://:@h", "a://h?", "a://h?k", "a://h?=v", "", "\n", "a:/", "a//b", "a://@", "a://@\n",
              u"a://\udc80@b", u"a://h?\udc80=%ff", "a://%zz:%@%", "a://b!c!d", "a://b?c?d!e", "a://h?a=1&a=2;b=3"]
LIST_PROBES = ["-rw-r--r--   1 owner group   1234 Feb 29 12:00 x", "-rw-r--r--   1 owner group   1234 Feb 29  2020 x",
               "-rw-r--r--   1 owner group   1234 Feb 30 12:00 x", "-rw-r--r--   1 o g 1 Jan 01  1900 x",
               "-rw-r--r--   1 o g 1 Jan 01  0000 x", "-rw-r--r--   1 o g 1 Jan 01  9999 x", "-rw-r--r-- 1 o g 1 Dec 31 24:00 x",
               u"-rw-r--r-- ٣ o g ٣ Jan ٣ ٣٣:٣٣ x", "total 24", "crw-rw-rw- 1 root root 1, 3 Jan  1 00:00 null",
               "02-29-21  10:00AM  12 x", "29-02-21  10:00AM  12 x", "31-12-99  12:00AM <DIR> x", "11-02-18  25:00  1 x",
               "11-02-18  13:00PM  1 x", u"11-02-18  ٠٣:٠٠  ٣ x", "\n", " ", "", "- 1", "d" * 200]
MLSX_PROBES = ["type=file;size=\xb2; x", "type=file;modify=20201301000000; x", "type=file;modify=00000101000000; x",
               "type=file;create=20200199999999; x", "", ";", "=", "a", "/", "type=dir; /", "type=file; ..", "type=file;modify=; x",
               "type=file;modify=-0010101000000; x", "Type=DIR; x", "type=file; a=b"]


def explore(tier, seed):
    """Run every check on the real code; no Coq involved.  Returns a dict with histograms, the
    failures grouped by signature, samples, and the inputs for the Coq cross-check."""
    thorough = tier == "thorough"
    rnd = random.Random(seed * 1000003 + 20)
    hist = dict((k, {}) for k in ("parse_fs_url", "round_trip", "list_unix", "list_windows", "list_garbage",
                                  "mlsx", "mlsx_garbage", "ftp_time", "features"))
    fails = {}
    counts = dict(evaluations=0)
    nontrivial = set()
    samples = []
    timings = {}

    def record(f):
        if f is None:
            return
        e = fails.setdefault(f["sig"], dict(count=0, examples=[]))
        e["count"] += 1
        ex = e["examples"]
        size = len(json.dumps(f["input"], default=str))
        if len(ex) < 3:
            ex.append((size, f))
        elif size < max(x[0] for x in ex):
            ex.sort(key=lambda x: x[0])
            ex[-1] = (size, f)

    def sample(parser, inp, outcome):
        samples.append(dict(parser=parser, input=inp, outcome=outcome))

    # ---- 1. totality
    t0 = time.time()
    maxlen = 7
    n_short = 0
    for L in range(0, maxlen + 1):
        for tup in itertools.product(SHORT_ALPHABET, repeat=L):
            s = "".join(tup)
            k, f = check_url_total(s)
            bump(hist["parse_fs_url"], k)
            n_short += 1
            if k == "ParseResult":
                nontrivial.add(hash(("u", s)))
            record(f)
    n_rand = 400000 if thorough else 120000
    for i in range(n_rand):
        s = random_urlish(rnd)
        k, f = check_url_total(s)
        bump(hist["parse_fs_url"], k)
        if k == "ParseResult":
            nontrivial.add(hash(("u", s)))
        record(f)
        if i in (3, 77777):
            sample("parse_fs_url", s, k)
    for s in URL_PROBES:
        k, f = check_url_total(s)
        bump(hist["parse_fs_url"], k)
        record(f)
    counts["url_exhaustive_short"] = n_short
    counts["url_random"] = n_rand
    counts["evaluations"] += n_short + n_rand + len(URL_PROBES)
    timings["url_total"] = round(time.time() - t0, 2)

    # ---- 2. round trip
    t0 = time.time()
    n_rt = 150000 if thorough else 40000
    built = []
    for i in range(n_rt):
        p = random_parts(rnd)
        k, f = check_roundtrip(p)
        bump(hist["round_trip"], k)
        if k == "exact":
            nontrivial.add(hash(("r", build_url(p))))
        record(f)
        if i < 400:
            built.append(build_url(p))
        if i in (5, 999):
            sample("parse_fs_url/round-trip", dict(parts=p, url=build_url(p)), k)
    counts["round_trip"] = n_rt
    counts["evaluations"] += n_rt
    timings["round_trip"] = round(time.time() - t0, 2)

    # ---- 3. LIST
    t0 = time.time()
    valid_lines = []
    n_unix = 0
    types = "-dlpscbD"
    for i, perms in enumerate(all_perm_strings()):          # every permission string
        f = random_unix(rnd, perms=perms, ty=types[i % len(types)])
        k, fl = check_unix(f)
        bump(hist["list_unix"], k)
        n_unix += 1
        if k == "exact":
            nontrivial.add(hash(("lu", render_unix(f))))
        record(fl)
    for i in range(30000 if thorough else 8000):
        f = random_unix(rnd, perms=(rnd.choice(["rwsr-sr-t", "rwSr-Sr-T", "rwx--x--t"]) if rnd.random() < 0.02 else None))
        if rnd.random() < 0.01:
            f.update(form="time", year=None, month=2, day=29, hour=12, minute=0) if calendar.isleap(current_year()) \
                else f.update(form="year", year=2024, month=2, day=29, hour=0, minute=0)
        if rnd.random() < 0.005:
            f.update(form="year", year=1900, hour=0, minute=0, day=min(f["day"], 28))
        k, fl = check_unix(f)
        bump(hist["list_unix"], k)
        n_unix += 1
        line = render_unix(f)
        if k == "exact":
            nontrivial.add(hash(("lu", line)))
        if len(valid_lines) < 300:
            valid_lines.append(line)
        record(fl)
        if i == 11:
            sample("list/unix", line, k)
    n_win = 20000 if thorough else 6000
    for i in range(n_win):
        f = random_windows(rnd)
        k, fl = check_windows(f)
        bump(hist["list_windows"], k)
        line = render_windows(f)
        if k == "exact":
            nontrivial.add(hash(("lw", line)))
        if len(valid_lines) < 600:
            valid_lines.append(line)
        record(fl)
        if i == 11:
            sample("list/windows", line, k)
    n_garb = 200000 if thorough else 60000
    for i in range(n_garb):
        line = garbage_line(rnd, valid_lines)
        k, fl = check_list_garbage(line)
        bump(hist["list_garbage"], k)
        record(fl)
        if i == 1234:
            sample("list/garbage", line, k)
    for line in LIST_PROBES:
        k, fl = check_list_garbage(line)
        bump(hist["list_garbage"], k)
        record(fl)
    counts.update(list_unix=n_unix, list_windows=n_win, list_garbage=n_garb + len(LIST_PROBES))
    counts["evaluations"] += n_unix + n_win + n_garb + len(LIST_PROBES)
    timings["list"] = round(time.time() - t0, 2)

    # ---- 4. MLSD / FEAT
    t0 = time.time()
    n_m = 80000 if thorough else 25000
    mlsx_lines = []
    times = []
    for i in range(n_m):
        f = random_mlsx(rnd)
        k, fl = check_mlsx(f)
        bump(hist["mlsx"], k)
        line = render_mlsx(f)
        if k.startswith("exact"):
            nontrivial.add(hash(("m", line)))
        if len(mlsx_lines) < 300:
            mlsx_lines.append(line)
        record(fl)
        if i == 17:
            sample("mlsx", line, k)
    n_t = 60000 if thorough else 20000
    for i in range(n_t):
        t = random_ftp_time(rnd)
        k, fl = check_ftp_time(t)
        bump(hist["ftp_time"], k)
        if k == "value->int":
            nontrivial.add(hash(("t", t)))
        if len(times) < 400:
            times.append(t)
        record(fl)
    n_mg = 150000 if thorough else 50000
    for i in range(n_mg):
        line = garbage_line(rnd, mlsx_lines)
        k, fl = check_mlsx_garbage(line)
        bump(hist["mlsx_garbage"], k)
        record(fl)
    for line in MLSX_PROBES:
        k, fl = check_mlsx_garbage(line)
        bump(hist["mlsx_garbage"], k)
        record(fl)
    n_f = 40000 if thorough else 10000
    for i in range(n_f):
        text, exp = random_feat(rnd)
        k, fl = check_feat(text, exp)
        bump(hist["features"], k)
        record(fl)
        if i == 3:
            sample("features", text, k)
    counts.update(mlsx=n_m, ftp_time=n_t, mlsx_garbage=n_mg + len(MLSX_PROBES), features=n_f)
    counts["evaluations"] += n_m + n_t + n_mg + len(MLSX_PROBES) + n_f
    timings["mlsx"] = round(time.time() - t0, 2)

    # ---- 5. ambient process configuration: time zones (and LC_TIME locales when installed)
    t0 = time.time()
    amb_in = ambient_inputs(rnd, thorough)
    zones = AMBIENT_TZ + (THOROUGH_TZ if thorough else [])
    locales = installed_locales()
    settings = [(tz, "C") for tz in zones]
    for name, _differs in locales[:(6 if thorough else 2)]:
        settings.append((AMBIENT_TZ[0], name))
        settings.append((zones[1 + len(settings) % (len(zones) - 1)], name))
    amb = dict(time_zones=zones, lc_time_locales=[n for n, _d in locales], settings=len(settings),
               lc_time_locales_with_other_month_names=[n for n, d in locales if d], per_parser={}, dependent=0,
               inputs=len(amb_in), evaluations=0)
    hist["ambient"] = {}
    saved_tz, saved_tzname = os.environ.get("TZ"), time.tzname
    bases = []
    with Ambient(tz=AMBIENT_TZ[0], lc_time="C"):
        year0 = current_year()
        for parser, inp in amb_in:
            bases.append(ambient_eval(parser, inp) + (year0,))
            bump(amb["per_parser"], parser)
    for (parser, inp), base in zip(amb_in, bases):
        if base[1] is not None:
            record(base[1])            # faithfulness under UTC0 (known findings keep their signature)
        elif base[0][0] == "ok":
            nontrivial.add(hash(("amb", parser, json.dumps(inp, sort_keys=True, default=str))))
    for tz, lc in settings:
        for (parser, inp), base in zip(amb_in, bases):
            _b, fl = check_ambient(parser, inp, tz, lc, base=base)
            amb["evaluations"] += 1
            bump(hist["ambient"], "%s|%s|%s" % (tz, lc, "same" if fl is None else "DIFFERENT"))
            if fl is not None:
                amb["dependent"] += 1
                record(fl)
    if os.environ.get("TZ") != saved_tz or time.tzname != saved_tzname:
        record(fail("harness: TZ not restored", "harness", "ambient", dict(parser="-", input="-"), repr(time.tzname),
                    repr(saved_tzname)))
    counts["ambient"] = amb["evaluations"]
    counts["evaluations"] += amb["evaluations"]
    timings["ambient"] = round(time.time() - t0, 2)

    # ---- 6. statefulness: results changed by callers, other inputs in between, threads
    t0 = time.time()
    hist["stateful"] = {}
    stateful = explore_stateful(seed, thorough, record, nontrivial)
    hist["stateful"] = dict(stateful["phases"])
    counts["stateful"] = stateful["calls"]
    counts["evaluations"] += stateful["calls"]
    timings["stateful"] = round(time.time() - t0, 2)

    # ---- inputs for the Coq cross-check (<= 300 URL strings, <= 120 time strings)
    coq_urls = list(URL_PROBES)
    for _ in range(130):
        coq_urls.append(random_urlish(rnd) if rnd.random() < 0.6 else
                        "".join(rnd.choice(SHORT_ALPHABET + "://") for _ in range(rnd.randint(3, 10))))
    coq_urls += built[:100]
    for _ in range(40):
        s = rnd.choice(built)
        i = rnd.randint(0, len(s))
        coq_urls.append(s[:i] + rnd.choice(["@", "!", "?", ":", "://", "\n"]) + s[i:])
    coq_urls = [u for u in coq_urls if not any(0xD800 <= ord(c) <= 0xDFFF for c in u)][:300]
    coq_times = [t for t in times if all(c in "0123456789.aT:" for c in t)][:110]
    coq_times += ["20201301000000", "00000101000000", "19700101000000", "2020010100000", "", "99991231235959", "20200100000000"]
    return dict(hist=hist, fails=fails, counts=counts, nontrivial=len(nontrivial), samples=samples, timings=timings,
                coq_urls=coq_urls, coq_times=coq_times, ambient=amb, stateful=stateful)


# ===================================================================== Coq model vs real regex

def coq_str(s):
    return "[" + ";".join(str(ord(c)) for c in s) + "]"


def coq_ostr(o):
    return "None" if o is None else "(Some %s)" % coq_str(o)


def url_raw_observation(s):
    """(code, raw parts, consistency note).  code 0 ParseError, 2 parts, 1 / 9 an exception (agrees
    with no model result, so it is reported as a mismatch).
    The raw parts are read off the REAL regex groups with str.partition, and must explain the
    real ParseResult through unquote/parse_qs."""
    from six.moves.urllib.parse import unquote, parse_qs
    m = M()
    kind, r = url_outcome(s)
    g = m["up"]._RE_FS_URL.match(s)
    if kind == "ParseError":
        return 0, None, None if g is None else "ParseError although the regex matches"
    if kind == "exc":
        return (1 if isinstance(r, AttributeError) else 9), None, None
    proto, creds, url1, url2, path = g.groups()
    if creds is not None:
        u, _, p = creds.partition(":")
        url = url1
        rc = (u, p)
    else:
        url = url2
        rc = None
    res, has_qs, qs = url.partition("?")
    raw = (proto, rc, res, qs if has_qs else None, path)
    want = (proto, unquote(rc[0]) if rc else None, unquote(rc[1]) if rc else None, unquote(res),
            dict((k, unquote(v[0])) for k, v in parse_qs(qs, keep_blank_values=True).items()) if has_qs else {}, path)
    got = (r.protocol, r.username, r.password, r.resource, r.params, r.path)
    return 2, raw, None if got == want else "raw groups %r do not explain the result %r" % (raw, got)


def coq_crosscheck(urls, times, tag="C20"):
    """Evaluate Parse/Url.v url_parse and Parse/FtpTime.v ftp_time_impl with vm_compute on the
    sampled inputs and compare with the real code.  Returns dict(n_url, n_time, mismatches, seconds)."""
    t0 = time.time()
    mism = []
    urows = []
    ukept = []
    for s in urls:
        code, raw, note = url_raw_observation(s)
        if note:
            mism.append(dict(model="python-side consistency", input=s, note=note))
        if raw is None:
            parts = "(mk_parts [] None [] None None)"
        else:
            proto, rc, res, qs, path = raw
            creds = "None" if rc is None else "(Some (%s, %s))" % (coq_str(rc[0]), coq_str(rc[1]))
            parts = "(mk_parts %s %s %s %s %s)" % (coq_str(proto), creds, coq_str(res), coq_ostr(qs), coq_ostr(path))
        urows.append("  (%s, %d, %s)" % (coq_str(s), code, parts))
        ukept.append((s, code, raw))
    trows = []
    tkept = []
    for t in times:
        try:
            v = M()["FTPFS"]._parse_ftp_time(t)
            code, val = (0, 0) if v is None else (2, v)
        except ValueError:
            code, val = 1, 0
        except Exception:  # noqa
            code, val = 9, 0
        trows.append("  (%s, %d, (%d)%%Z)" % (coq_str(t), code, val))
        tkept.append((t, code, val))
    os.makedirs(common.WORK, exist_ok=True)
    tag = "%s_p%d" % (tag, os.getpid())      # one file per process (checks of the property may run side by side)
    vfile = os.path.join(common.WORK, "cases_%s.v" % tag)
    with open(vfile, "w") as fh:
        fh.write("From Coq Require Import List NArith ZArith.\nImport ListNotations.\n"
                 "From PyFS Require Import Base.PyStr Parse.Url Parse.FtpTime.\nLocal Open Scope N_scope.\n")
        fh.write("Definition ucases : list (str * N * parts) := [\n" + ";\n".join(urows) + "].\n")
        fh.write("Definition tcases : list (str * N * Z) := [\n" + ";\n".join(trows) + "].\n")
        fh.write("Fixpoint bad {A} (f : A -> bool) (i : N) (l : list A) : list N :=\n"
                 "  match l with [] => [] | x :: t => if f x then bad f (i + 1) t else i :: bad f (i + 1) t end.\n")
        fh.write("Eval vm_compute in bad (fun c => parse_agrees (fst (fst c)) (snd (fst c)) (snd c)) 0 ucases.\n")
        fh.write("Eval vm_compute in bad (fun c => time_agrees (fst (fst c)) (snd (fst c)) (snd c)) 0 tcases.\n")
    p = subprocess.run(["timeout", "300", "coqc", "-Q", common.COQ, "PyFS", vfile], cwd=common.WORK,
                       stdout=subprocess.PIPE, stderr=subprocess.STDOUT, universal_newlines=True)
    for ext in (".vo", ".glob", ".vok", ".vos"):
        try:
            os.remove(vfile[:-2] + ext)
        except OSError:
            pass
    try:
        os.remove(os.path.join(common.WORK, ".cases_%s.aux" % tag))
    except OSError:
        pass
    blocks = re.findall(r"=\s*(\[[^\]]*\])\s*:\s*list N", p.stdout, flags=re.S)
    if p.returncode != 0 or len(blocks) != 2:
        mism.append(dict(model="coqc", note="coqc failed on %s: %s" % (vfile, p.stdout[-1500:])))
        return dict(n_url=0, n_time=0, mismatches=mism, seconds=round(time.time() - t0, 2))
    for blk, kept, model in ((blocks[0], ukept, "Parse/Url.v url_parse"), (blocks[1], tkept, "Parse/FtpTime.v ftp_time_impl")):
        for i in re.findall(r"\d+", blk):
            mism.append(dict(model=model, input=kept[int(i)][0], real=repr(kept[int(i)][1:])))
    return dict(n_url=len(ukept), n_time=len(tkept), mismatches=mism, seconds=round(time.time() - t0, 2))


# ===================================================================== run / replay

THEOREMS = {
    "parse_fs_url": "Parse/ParseProofs.v url_split_total, url_never_crashes, url_parse_error_iff",
    "parse_fs_url/round-trip": "Parse/ParseProofs.v url_split_build, url_split_build_user, url_at_in_path_refuted",
    "mlsx": "Parse/ParseProofs.v ftp_time_total, ftp_time_never_crashes, ftp_time_range",
    "mlsx/garbage": "Parse/ParseProofs.v ftp_time_total, ftp_time_never_crashes",
    "ftp_time": "Parse/ParseProofs.v ftp_time_total, ftp_time_range, ftp_time_decode_impl",
}


def local_known():
    if not os.path.exists(LOCAL_KNOWN):
        return {}
    try:
        with open(LOCAL_KNOWN) as fh:
            data = json.load(fh)
    except (OSError, ValueError):
        return {}
    return dict((k["signature"], k) for k in data.get("known", []) if k.get("property") == "C20")


def known_entry(report, sig):
    return report.known_match(sig) or local_known().get(sig)


def payload_of(f, count=None):
    d = dict(kind=f["kind"], parser=f["parser"], signature=f["sig"], input=f["input"],
             text=rendered(f["parser"], f["input"]), observed=f["observed"], expected=f["expected"],
             theorem=THEOREMS.get(f["parser"], "correspondence only (no Coq model of this parser)"))
    if count is not None:
        d["occurrences_in_this_run"] = count
    return d


def run(report):
    proof = common.preflight(report)
    res = explore(report.tier, report.seed)
    coq = coq_crosscheck(res["coq_urls"], res["coq_times"])
    minimal = {}
    for sig in sorted(res["fails"]):
        e = res["fails"][sig]
        first = min(e["examples"], key=lambda x: x[0])[1]
        entry = known_entry(report, sig)
        if entry is not None:
            report.known_finding(entry, first["input"])
            minimal[sig] = rendered(first["parser"], first["input"])
            continue
        if sig in PENDING_FINDINGS:
            continue
        small = minimise(first)
        minimal[sig] = rendered(small["parser"], small["input"])
        report.violation(payload_of(small, e["count"]))
    for mm in coq["mismatches"][:5]:
        report.violation(dict(kind="model-differs-from-implementation", parser=mm.get("model"), input=mm.get("input"),
                              observed=mm.get("real") or mm.get("note"), expected="agreement of the Coq scanner with "
                              "the real regex / _parse_ftp_time", theorem="Parse/Url.v, Parse/FtpTime.v"),
                         no_input="input" not in mm)
    cov = dict(evaluations=res["counts"]["evaluations"], distinct_nontrivial=res["nontrivial"],
               rule="parse_fs_url on every string over {a : / @ ! ? % \\n} up to length 7 and on random token strings "
                    "(letters, digits, URL delimiters, '://', valid and invalid %-escapes, unicode, control and line-"
                    "separator characters, a lone surrogate); round trip of random (protocol, user, password, resource, "
                    "params, path) tuples through quote/urlencode; unix LIST lines for all 4096 permission strings x "
                    "file types and random lines from the grammar (ACL marker, 1-3 digit link counts, owner/group "
                    "alphabet, sizes up to 2^40, 'Mon DD HH:MM' and 'Mon DD  YYYY', three day paddings, names with "
                    "spaces/unicode/combining marks, link arrows); Windows lines (MM-DD-YY and MM-DD-YYYY, 12h/24h, "
                    "<DIR>/size); mutated/truncated/random garbage lines; MLSD fact lines (type values and cases, size/"
                    "sizd, modify/create with fractions, out-of-range and malformed values, unknown facts, facts "
                    "without '=', names with ';' '='), FEAT replies; non-trivial = distinct inputs whose parse "
                    "produced a full result equal to the expected one (or a ParseResult for the totality runs). "
                    "A year-less unix date is expected in the current local year (the library's rule). "
                    "Ambient dimension: every time-bearing case (unix / Windows LIST lines incl. every day of the DST-switch "
                    "months at 01:30/02:30/03:30, MLSD modify/create facts, _parse_ftp_time strings, fs.time "
                    "epoch_to_datetime / datetime_to_epoch on integer, fractional, negative and far-future epochs and on "
                    "aware datetimes in fixed-offset zones) is re-evaluated under each POSIX TZ setting (os.environ['TZ'] + "
                    "time.tzset()) and each installed non-C LC_TIME locale: raw result and faithfulness verdict must equal "
                    "those under UTC0 / LC_TIME=C. "
                    "Statefulness dimension: every parser (parse_fs_url, fs.opener.parse, Registry.open through a recording "
                    "opener that consumes parse_result.params, _ftp_parse.parse / parse_line, _parse_mlsx, _parse_facts, "
                    "_parse_features, _parse_ftp_time) on generated inputs and probes: first outcome kept as a deep immutable "
                    "image before anything is touched; then every mutable object reachable from the results is changed "
                    "(update / pop / clear / poison values, attribute assignment where possible), everything is parsed again "
                    "in the same and the reverse order, in replayable units (parse X, change, 0-4 other inputs, parse X "
                    "twice) and from several threads at once: every outcome must equal the first one and the independent "
                    "faithfulness verdicts of sections 2-4 must not move.",
               counts=res["counts"], histograms=res["hist"], samples=res["samples"][:10],
               ambient=res["ambient"], stateful=res["stateful"],
               signatures=dict((s, dict(count=e["count"], minimal_input=minimal.get(s),
                                        known=known_entry(report, s) is not None))
                               for s, e in res["fails"].items()),
               side_conditions=SIDE_CONDITIONS, timings_s=res["timings"],
               coq_model_validated_on=dict(url_strings=coq["n_url"], ftp_time_strings=coq["n_time"],
                                           mismatches=len(coq["mismatches"]), seconds=coq["seconds"]),
               exhaustive=True, exhaustive_scope="parse_fs_url totality on all strings of length <= 7 over 8 symbols; "
                                                 "all 4096 unix permission strings; everything else is sampled")
    return report.finish(proof, cov, assumptions=[
        "urllib's quote/unquote/urlencode/parse_qs, time.strptime, calendar.timegm and unicodedata.normalize are "
        "trusted oracles (the Coq URL model keeps all components raw)",
        "Parse/Url.v is a hand-written scanner for _RE_FS_URL, validated against the real regex on the sampled "
        "strings of each run (vm_compute); Python's re engine itself is not modelled",
        "Parse/FtpTime.v decodes ASCII digits only; int()'s extra leniency (blanks, sign, '_', non-ASCII digits) is "
        "exercised on the real code but outside the model",
        "LIST / MLSD / FEAT parsers have no Coq model: their part of the property is established by generated "
        "well-formed lines with independently computed expectations and by garbage lines (correspondence only)",
        "unix links are expected as directories and device/fifo/socket entries as files (the library's convention); "
        "unix names are expected NFC-normalised; MLSD expectations follow RFC 3659"])


def replay(report, path):
    with open(path) as fh:
        d = json.load(fh)
    if d.get("kind") == "model-differs-from-implementation":
        if "input" not in d or d["input"] is None:
            print("no stored input")
            return 1
        urls, times = ([d["input"]], []) if "Url" in (d.get("parser") or "") else ([], [d["input"]])
        coq = coq_crosscheck(urls, times, tag="C20_replay")
        print("mismatches:", coq["mismatches"])
        return 1 if coq["mismatches"] else 0
    f = recheck(d["parser"], d["input"])
    print("parser   :", d["parser"])
    print("input    :", repr(rendered(d["parser"], d["input"])))
    if f is None:
        print("no failure any more")
        return 0
    print("signature:", f["sig"])
    print("observed :", f["observed"])
    print("expected :", f["expected"])
    if known_entry(report, f["sig"]) is not None:
        print("(this signature is a registered known finding)")
    return 1


if __name__ == "__main__":
    import sys
    tier = sys.argv[1] if len(sys.argv) > 1 else "quick"
    t0 = time.time()
    res = explore(tier, common.seed_from_env())
    print("explore %.1fs" % (time.time() - t0), res["counts"], "nontrivial", res["nontrivial"], res["timings"])
    for k, v in res["hist"].items():
        print(" ", k, dict(sorted(v.items(), key=lambda kv: -kv[1])[:8]))
    for sig in sorted(res["fails"]):
        e = res["fails"][sig]
        small = minimise(min(e["examples"], key=lambda x: x[0])[1])
        print("SIG %-62s n=%-6d min=%r" % (sig, e["count"], rendered(small["parser"], small["input"])))
    print("ambient:", dict((k, v) for k, v in res["ambient"].items()))
    print("stateful:", res["stateful"])
    if "--nocoq" not in sys.argv:
        coq = coq_crosscheck(res["coq_urls"], res["coq_times"])
        print("coq cross-check:", coq)
