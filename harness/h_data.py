"""C02 — stored data is returned bit-identical by every read path.

(1) fs.tools.copy_file_data from /repo against the extracted loop model (IO/CopyData.v) with
    readers that return short reads; (2) every (write path, read path) pair on every backend
    for the boundary lengths of each chunk size; (3) text written/read through FS.open with
    encoding / errors / newline settings against CPython's own io.TextIOWrapper(io.BytesIO);
    (4) make_stream's layer decision table against the model."""
from __future__ import print_function

import hashlib
import io
import itertools
import json
import os
import shutil
import tempfile
import random

import backends as B
import common
from common import r_bytes, r_list, tokb, tok


class ShortReader(object):
    def __init__(self, data, oracle):
        self.data, self.pos, self.oracle = data, 0, list(oracle)

    def read(self, n=-1):
        rem = len(self.data) - self.pos
        if n is None or n < 0:
            got = rem
        else:
            want = min(n, rem)
            sh = self.oracle.pop(0) if self.oracle else 0
            got = want if (sh == 0 or want < sh) else sh
        out = self.data[self.pos:self.pos + got]
        self.pos += got
        return out


class Collect(object):
    def __init__(self):
        self.chunks = []

    def write(self, b):
        self.chunks.append(bytes(b))
        return len(b)


def loop_cases(rnd, n):
    cases = []
    for _ in range(n):
        ln = rnd.choice([0, 1, 2, 3, 7, 8, 9, 20, 40])
        data = bytes(bytearray(rnd.randrange(256) for _ in range(ln)))
        kind = rnd.choice([0, 1, 2, 2, 2, 2])
        size = rnd.choice([0, 1, 2, 3, 7, 8, 64])
        oracle = [rnd.choice([0, 0, 1, 2, 3, 5]) for _ in range(rnd.randint(0, 12))]
        cases.append((data, kind, size, oracle))
    return cases


def lengths_for(c):
    return sorted(set(x for x in (0, 1, c - 1, c, c + 1, 3 * c + 1) if x >= 0))


WRITE_PATHS = ["writebytes", "upload", "writefile", "appendbytes", "piecewise", "copy", "move", "copy_file",
               "append_seek", "append_plus_lines", "truncate_rewrite"] + \
    ["pieces_tell", "pieces_text_seek_tell", "pieces_truncate"]
# the last three: the data in TWO pieces (each larger than fs.constants.DEFAULT_CHUNK_SIZE when the data is more than twice
# that) with a position query / relative seek / text-layer seek(tell()) / argument-less truncate() BETWEEN the pieces
BIG_PIECE_PATHS = ["pieces_tell", "pieces_text_seek_tell", "pieces_truncate"]
READ_PATHS = ["readbytes", "download", "read", "readinto", "readline", "iterate", "hash", "getsize"]


def write_path(fsx, how, path, data, chunk):
    fs = fsx
    if how == "writebytes":
        fs.writebytes(path, data)
    elif how == "upload":
        fs.upload(path, io.BytesIO(data), chunk_size=chunk)
    elif how == "writefile":
        fs.writefile(path, io.BytesIO(data))
    elif how == "appendbytes":
        half = len(data) // 2
        fs.writebytes(path, data[:half])
        fs.appendbytes(path, data[half:])
    elif how == "piecewise":
        step = max(1, (chunk or 7))
        with fs.openbin(path, "w") as f:
            for i in range(0, len(data), step):
                f.write(data[i:i + step])
    elif how == "append_seek":
        # io semantics of append mode: every write lands at the end, wherever the position is
        third = len(data) // 3
        fs.writebytes(path, data[:third])
        with fs.openbin(path, "a") as f:
            f.write(data[third:2 * third])
            f.seek(0)
            f.write(data[2 * third:])
    elif how == "append_plus_lines":
        half = len(data) // 2
        fs.writebytes(path, data[:half])
        with fs.openbin(path, "a+") as f:
            f.seek(0)
            f.read(1)
            rest = data[half:]
            step = max(1, (chunk or 7))
            f.writelines([rest[i:i + step] for i in range(0, len(rest), step)])
    elif how == "truncate_rewrite":
        # io semantics: truncate(n) keeps the position; the next write continues there
        half = len(data) // 2
        with fs.openbin(path, "w") as f:
            f.write(data[:half] + b"#JUNK#JUNK")
            k = half // 2
            f.seek(k)
            f.truncate(half)        # size half, position still k
            f.write(data[k:])
    elif how == "pieces_tell":
        half = len(data) // 2
        with fs.openbin(path, "w") as f:
            f.write(data[:half])
            if f.tell() != half:
                raise AssertionError("tell() after writing %d bytes is %d" % (half, f.tell()))
            f.seek(0, 1)
            f.write(data[half:])
    elif how == "pieces_text_seek_tell":
        half = len(data) // 2
        with fs.open(path, "w", encoding="latin-1", newline="") as f:
            f.write(data[:half].decode("latin-1"))
            f.seek(f.tell())
            f.write(data[half:].decode("latin-1"))
    elif how == "pieces_truncate":
        half = len(data) // 2
        with fs.openbin(path, "w") as f:
            f.write(data[:half])
            f.seek(0, 1)
            f.truncate()            # at the position: nothing is cut
            f.write(data[half:])
    elif how == "copy":
        fs.writebytes(path + ".src", data)
        fs.copy(path + ".src", path, overwrite=True)
    elif how == "move":
        fs.writebytes(path + ".src", data)
        fs.move(path + ".src", path, overwrite=True)
    elif how == "copy_file":
        import fs.copy as fscopy
        from fs.memoryfs import MemoryFS
        src = MemoryFS()
        src.writebytes("s", data)
        fscopy.copy_file(src, "s", fsx, path)
        src.close()
    else:
        raise ValueError(how)


def read_path(fs, how, path, chunk):
    if how == "readbytes":
        return fs.readbytes(path)
    if how == "download":
        out = io.BytesIO()
        fs.download(path, out, chunk_size=chunk)
        return out.getvalue()
    if how == "read":
        with fs.openbin(path) as f:
            parts = []
            while True:
                b = f.read(chunk if chunk and chunk > 0 else -1)
                if not b:
                    break
                parts.append(b)
            return b"".join(parts)
    if how == "readinto":
        with fs.openbin(path) as f:
            buf = bytearray(max(1, chunk or 5))
            parts = []
            while True:
                n = f.readinto(buf)
                if not n:
                    break
                parts.append(bytes(buf[:n]))
            return b"".join(parts)
    if how == "readline":
        with fs.openbin(path) as f:
            parts = []
            while True:
                b = f.readline()
                if not b:
                    break
                parts.append(b)
            return b"".join(parts)
    if how == "iterate":
        with fs.openbin(path) as f:
            return b"".join(list(f))
    if how == "hash":
        return ("hash", fs.hash(path, "md5"))
    if how == "getsize":
        return ("size", fs.getsize(path), fs.getinfo(path, namespaces=["details"]).size)
    raise ValueError(how)


# ------------------------------------------------------------------------------------------
# FTPFS over a loop-back server (harness/ftpserver.py; both kinds of server): the write path x read path matrix with
# lengths around the transfer block sizes (ftplib's 8192 for upload/download, fs.constants.DEFAULT_CHUNK_SIZE for
# FTPFile.read/write) - every transfer is a data connection of its own, so fewer lengths than on the local backends.
# The stored bytes are also read from the server's directory with os.* (what was WRITTEN, whatever the read path says).

# TODO PENDING_FINDINGS (ftp4, 2026-10-01): misbehaviours of the UNCHANGED library exposed by the FTPFS matrix, not yet
# in known_findings.json; awaiting triage.  Signatures are the `why` strings of the classification loop in run().
FTP_KNOWN_SIGNATURES = [w % n for n in ("FTPFS", "FTPFS(server without MLST/MLSD)") for w in (
    # 'a+' handle: seek(0); read(1); writelines(..) - write directly after read, no seek between: the STOR/APPE goes out
    # on a control connection whose RETR is pending: ftplib.error_reply '226 Transfer complete.' (timing dependent)
    "%s: write path append_plus_lines raised",
    # (repaired in /repo by the FTPFS fix series of 2026-10-01, violations again if they return: openbin(p, 'w') without
    #  a write() created no file - "write path piecewise / writefile stored other bytes" at length 0)
)]
PENDING_FINDINGS = []      # the signatures above are registered in known_findings.json (C02)


def ftp_lengths(thorough):
    from fs.constants import DEFAULT_CHUNK_SIZE
    ls = [0, 1, 4097, 8193, DEFAULT_CHUNK_SIZE + 5, 2 * DEFAULT_CHUNK_SIZE + 11]     # the last: two pieces > chunk size
    if thorough:
        ls += [8191, 8192, 3 * 8192 + 1, DEFAULT_CHUNK_SIZE - 1, DEFAULT_CHUNK_SIZE, 3 * DEFAULT_CHUNK_SIZE + 1]
    return sorted(ls)


def ftp_matrix(report, rnd, thorough, bad, nontrivial):
    """-> (coverage, number of evaluations)."""
    ok, why = B.network_available()
    cov = dict(available=ok, unavailable_because=why)
    if not ok:
        return cov, 0
    n = 0
    pairs_all = list(itertools.product(WRITE_PATHS, READ_PATHS))
    cov.update(backends=[bc.name for bc in B.NETWORK], lengths=ftp_lengths(thorough), pairs_per_length={})
    for bc in B.NETWORK:
        b = bc()
        try:
            fsx = b.make()
            for ci, ln in enumerate(ftp_lengths(thorough)):
                data = bytes(bytearray((i * 7 + ln) % 256 for i in range(ln)))
                if ln and ci % 2:
                    data = data[:-1] + b"\n"
                chunk = [None, 1, 7, 4096][ci % 4] if ln < 10000 else [None, 4096][ci % 2]
                # every write path and every read path at least once per length, + drawn pairs
                k = max(len(WRITE_PATHS), len(READ_PATHS))
                ws, rs = list(WRITE_PATHS), list(READ_PATHS)
                rnd.shuffle(ws), rnd.shuffle(rs)
                pairs = [(ws[i % len(ws)], rs[i % len(rs)]) for i in range(k)]
                pairs += pairs_all if thorough and ln < 10000 else rnd.sample(pairs_all, 4)
                cov["pairs_per_length"][ln] = len(pairs)
                for wp, rp in pairs:
                    if ln > 10000 and rp in ("readline", "iterate") and not thorough:
                        rp = "read"          # FTPFile reads lines byte by byte: one recv per byte
                    n += 1
                    p = "f%d" % ci
                    b.settle()
                    if os.path.exists(os.path.join(b.root, p)):     # every write path has to create the file itself
                        os.remove(os.path.join(b.root, p))
                    try:
                        write_path(fsx, wp, p, data, chunk)
                    except Exception as e:  # noqa
                        bad.append(("%s: write path %s raised" % (bc.name, wp),
                                    dict(backend=bc.name, write=wp, read=rp, length=ln, chunk=chunk),
                                    type(e).__name__ + ": " + str(e)[:200], None))
                        continue
                    b.settle()
                    try:
                        with open(os.path.join(b.root, p), "rb") as fh:
                            stored = fh.read()
                    except IOError:
                        stored = None       # no such file
                    if stored != data:
                        bad.append(("%s: write path %s stored other bytes" % (bc.name, wp),
                                    dict(backend=bc.name, write=wp, length=ln, chunk=chunk,
                                         stored_length=None if stored is None else len(stored)),
                                    "no file" if stored is None else repr(stored)[:120], repr(data)[:120]))
                        with open(os.path.join(b.root, p), "wb") as fh:      # the read path gets the right bytes anyway
                            fh.write(data)
                    try:
                        got = read_path(fsx, rp, p, chunk)
                    except Exception as e:  # noqa
                        bad.append(("%s: read path %s raised" % (bc.name, rp),
                                    dict(backend=bc.name, write=wp, read=rp, length=ln, chunk=chunk),
                                    type(e).__name__ + ": " + str(e)[:200], None))
                        continue
                    nontrivial.add((bc.name, wp, rp, ln, chunk))
                    exp = ("hash", hashlib.md5(data).hexdigest()) if rp == "hash" else \
                        ("size", ln, ln) if rp == "getsize" else data
                    if got != exp:
                        bad.append(("%s: read path %s returned other bytes" % (bc.name, rp),
                                    dict(backend=bc.name, write=wp, read=rp, length=ln, chunk=chunk),
                                    repr(got)[:120], repr(exp)[:120]))
        finally:
            b.close()
    return cov, n


def byte_cases(tier, rnd):
    chunks = [1, 2, 7, 4096]
    cases = []
    for c in chunks:
        for ln in lengths_for(c):
            data = bytes(bytearray((i * 7 + ln) % 256 for i in range(ln)))
            if ln and rnd.random() < 0.5:
                data = data[:-1] + b"\n"
            cases.append((data, c))
    cases.append((bytes(bytearray(range(256))) * 2, None))
    big = 1024 * 1024
    for ln in ([big - 1, big, big + 1] if tier == "thorough" else [big + 1]):
        cases.append((hashlib.sha256(b"seed").digest() * (ln // 32 + 1), None))
        cases[-1] = (cases[-1][0][:ln], None)
    if tier == "thorough":
        cases.append((b"\x00\xff" * (5 * big // 2), None))
    return cases


ENCODINGS = [("utf-8", None), ("utf-16", None), ("utf-8-sig", None), ("utf-32", None), ("latin-1", "replace"), ("ascii", "replace"), ("ascii", "ignore"),
             ("ascii", "strict"), ("utf-8", "strict")]
NEWLINES = [None, "", "\n", "\r", "\r\n"]
TEXTS = [u"", u"plain", u"line1\nline2\n", u"crlf\r\nmixed\rend", u"caf\xe9 中\U0001F600", u"\n\n", u"tab\tsp ", u"x" * 5000 + u"\n"]


BOM_ENCODINGS = ("utf-16", "utf-32", "utf-8-sig")


def io_append_reference(text, enc, errs):
    """Bytes a real io file holds after open('w').write(first half) and open('a').write(second half)."""
    d = tempfile.mkdtemp(prefix="pyfs2verif_c02_")
    p = os.path.join(d, "f")
    try:
        try:
            with io.open(p, "w", encoding=enc, errors=errs, newline="") as f:
                f.write(text[: len(text) // 2])
            with io.open(p, "a", encoding=enc, errors=errs, newline="") as f:
                f.write(text[len(text) // 2:])
        except Exception as e:
            return ("raises", type(e).__name__)
        with open(p, "rb") as f:
            return f.read()
    finally:
        shutil.rmtree(d, ignore_errors=True)


def text_reference(text, enc, errs, nl):
    raw = io.BytesIO()
    try:
        w = io.TextIOWrapper(raw, encoding=enc, errors=errs, newline=nl)
        w.write(text)
        w.flush()
        data = raw.getvalue()
        w.detach()
    except Exception as e:
        return ("raises", type(e).__name__), None
    try:
        r = io.TextIOWrapper(io.BytesIO(data), encoding=enc, errors=errs, newline=nl)
        back = r.read()
    except Exception as e:
        back = ("raises", type(e).__name__)
    return data, back


# ------------------------------------------------------------------------------------------
# Zero-size requests on the read paths.  A record parser (length-prefixed records, some of
# them empty) and a sweep of read sizes that includes 0 (ending in read(-1) / read(None) /
# read()), readinto with an empty buffer and readline(0), on open('rb') (default, unbuffered,
# buffered) and openbin() handles of every backend, read-mode archive members included.
# Oracle: the property itself (the concatenation is the stored data; a zero-size request
# returns nothing and leaves the position alone) and io.BytesIO for every single call.

ZERO_HANDLES = [
    ("open('rb')", lambda fsx, p: fsx.open(p, "rb")),
    ("open('rb',buffering=0)", lambda fsx, p: fsx.open(p, "rb", buffering=0)),
    ("open('rb',buffering=16)", lambda fsx, p: fsx.open(p, "rb", buffering=16)),
    ("openbin()", lambda fsx, p: fsx.openbin(p)),
    ("openbin('r',buffering=0)", lambda fsx, p: fsx.openbin(p, "r", buffering=0)),
]


class _ReadArchive(B.Backend):
    """Read-mode ZipFS / TarFS over an archive written through the write-mode filesystem."""

    def __init__(self, writer):
        self.writer = writer
        self.name = {"WriteZipFS(before close)": "ReadZipFS", "WriteTarFS(before close)": "ReadTarFS"}[writer.name]

    def make(self):
        self.w = self.writer()
        self.fs = self.w.make()
        return self.fs

    def reopen(self):
        from fs.zipfs import ZipFS
        from fs.tarfs import TarFS
        self.fs.close()
        self.w.target.seek(0)
        self.fs = (ZipFS if self.name == "ReadZipFS" else TarFS)(self.w.target)
        return self.fs


def record_cases(rnd, thorough):
    """(header width, records): length-prefixed records; every case has empty records, one of
    them first or last, next to records longer than the io buffer sizes."""
    import struct
    cases = []
    for width, fmt in ((1, ">B"), (2, ">H"), (4, ">I")):
        for _ in range(3 if thorough else 1):
            lens = [rnd.choice([0, 0, 1, 2, 5, 17, 200, 255]) for _k in range(rnd.randint(3, 9))]
            if width > 1:
                lens[rnd.randrange(len(lens))] = rnd.choice([600, 4096, 8193, 20000])
            lens.insert(rnd.choice([0, len(lens)]), 0)
            lens.insert(rnd.randrange(len(lens) + 1), 0)
            recs = [bytes(bytearray(rnd.randrange(256) for _k in range(n))) for n in lens]
            data = b"".join(struct.pack(fmt, len(r)) + r for r in recs)
            cases.append((width, fmt, recs, data))
    return cases


def parse_records(f, width, fmt):
    import struct
    out = []
    while True:
        head = f.read(width)
        if not head:
            return out
        if len(head) != width:
            return out + [("truncated header", len(head))]
        (n,) = struct.unpack(fmt, head)
        body = f.read(n)
        out.append(body)
        if len(body) != n:
            return out + [("short record", n, len(body))]


def size_plans(rnd, length, thorough):
    """Sequences of requests with zero sizes at the start, in the middle, repeated, and at EOF;
    the last one reads the rest (read(-1) / read(None) / read()) and is followed by zero-size
    requests at EOF."""
    plans = []
    for end in (("read", -1), ("read", None), ("read",)):
        for _ in range(3 if thorough else 1):
            ops = []
            for _k in range(rnd.randint(6, 14)):
                r = rnd.random()
                if r < 0.3:
                    ops.append(rnd.choice([("read", 0), ("readinto", 0), ("readline", 0)]))
                elif r < 0.8:
                    ops.append(("read", rnd.choice([1, 2, 3, 7, 16, 17, 64, max(1, length // 3)])))
                elif r < 0.9:
                    ops.append(("readinto", rnd.choice([1, 5, 16, 33])))
                else:
                    ops.append(("readline",))
            ops.insert(0, rnd.choice([("read", 0), ("readinto", 0)]))
            ops += [end, ("read", 0), ("readinto", 0), ("read", 1)]
            plans.append(ops)
    return plans


def run_plan(f, ops):
    """[(returned bytes, position after)] ; readinto reports the bytes it filled in."""
    out = []
    for op in ops:
        try:
            if op[0] == "read":
                r = f.read(*op[1:])
            elif op[0] == "readline":
                r = f.readline(*op[1:])
            else:
                buf = bytearray(b"\xaa" * op[1])
                n = f.readinto(buf)
                r = ("readinto", n, bytes(buf))
            r = bytes(r) if isinstance(r, (bytes, bytearray)) else r
            out.append((r, f.tell()))
        except Exception as e:  # noqa
            out.append(("raises " + type(e).__name__ + ": " + str(e)[:80], None))
            break
    return out


def zero_read_block(rnd, thorough, bad, nontrivial):
    backs = [B.Mem, B.OS, B.Temp, B.SubMem, B.SubOS, B.SubSub, B.Wrap, B.WrapOS, B.MountSub, B.MultiOne, B.ZipW, B.TarW,
             lambda: _ReadArchive(B.ZipW), lambda: _ReadArchive(B.TarW)]
    recs = record_cases(rnd, thorough)
    flat = [b"", b"x", b"ab\ncd\n\nef", bytes(bytearray(range(256))) * 40]
    n = zero = 0
    for bc in backs:
        b = bc()
        try:
            fsx = b.make()
            for i, (_w, _f, _r, data) in enumerate(recs):
                fsx.writebytes("rec%d" % i, data)
            for i, data in enumerate(flat):
                fsx.writebytes("flat%d" % i, data)
            if isinstance(b, _ReadArchive):
                fsx = b.reopen()
            for hname, opener in ZERO_HANDLES:
                ctx = dict(backend=b.name, handle=hname)
                for i, (width, fmt, records, data) in enumerate(recs):
                    n += 1
                    try:
                        with opener(fsx, "rec%d" % i) as f:
                            got = parse_records(f, width, fmt)
                    except Exception as e:  # noqa
                        got = "raises %s: %s" % (type(e).__name__, str(e)[:120])
                    nontrivial.add((b.name, hname, "records", width, len(records)))
                    zero += sum(1 for r in records if not r)
                    if got != records:
                        bad.append(("record parser (read(width) / read(length), empty records included) did not get the "
                                    "stored records back", dict(ctx, header_width=width, lengths=[len(r) for r in records]),
                                    repr([len(r) if isinstance(r, bytes) else r for r in got]
                                         if isinstance(got, list) else got)[:200],
                                    repr([len(r) for r in records])[:200]))
                for i, data in enumerate(flat):
                    for ops in size_plans(rnd, len(data), thorough):
                        n += 1
                        exp = run_plan(io.BytesIO(data), ops)
                        try:
                            with opener(fsx, "flat%d" % i) as f:
                                got = run_plan(f, ops)
                        except Exception as e:  # noqa
                            got = "raises %s: %s" % (type(e).__name__, str(e)[:120])
                        nontrivial.add((b.name, hname, "sizes", len(data), ops[-4]))
                        zero += sum(1 for op in ops if len(op) > 1 and op[1] == 0)
                        if got != exp:
                            k = next((j for j in range(min(len(got), len(exp))) if got[j] != exp[j]), min(len(got), len(exp))) \
                                if isinstance(got, list) else 0
                            bad.append(("read sizes incl. zero: a request returned other data / position than io.BytesIO",
                                        dict(ctx, length=len(data), requests=[list(o) for o in ops], first_difference=k),
                                        repr(got[k] if isinstance(got, list) and k < len(got) else got)[:160],
                                        repr(exp[k] if k < len(exp) else None)[:160]))
        finally:
            b.close()
    return n, zero


def run(report):
    import fs.tools
    proof = common.preflight(report)
    rnd = random.Random(report.seed + 2)
    thorough = report.tier == "thorough"
    bad = []
    total = 0
    nontrivial = set()
    # (1) the copy loop vs the model
    lc = loop_cases(rnd, 3000 if thorough else 600)
    lines, impl = [], []
    for data, kind, size, oracle in lc:
        cs = {0: None, 1: -1, 2: size}[kind]
        dst = Collect()
        fs.tools.copy_file_data(ShortReader(data, oracle), dst, chunk_size=cs)
        impl.append(r_list(r_bytes, dst.chunks))
        lines.append("data copy %s %d %d %s" % (tokb(data), kind, size,
                                                ",".join(str(x) for x in oracle) if oracle else "-"))
    model = common.run_model_parallel(lines)
    n_vm, vm_mism = common.vm_crosscheck(lines[:200], model[:200], "C02", limit=60)
    for i, c in enumerate(lc):
        total += 1
        nontrivial.add(("loop", impl[i]))
        if impl[i] != model[i]:
            bad.append(("copy_file_data differs from IO/CopyData.v", dict(data=list(c[0]), kind=c[1], size=c[2], oracle=c[3]),
                        impl[i], model[i]))
        elif c[1] != 2 or c[2] != 0:
            if b"".join(bytes(bytearray(int(x) for x in ch[1:].split(","))) if len(ch) > 1 else b""
                        for ch in (impl[i][1:-1].split(";") if impl[i] != "[]" else [])) != c[0]:
                bad.append(("copy_file_data lost or reordered bytes", dict(data=list(c[0]), kind=c[1], size=c[2]), impl[i], None))
    # (2) write path x read path on every backend
    backs = [B.Mem, B.OS, B.SubMem, B.Wrap, B.MountSub, B.MultiOne, B.ZipW, B.TarW] if thorough else \
        [B.Mem, B.OS, B.SubMem, B.MountSub, B.ZipW]
    for bc in backs:
        b = bc()
        try:
            fsx = b.make()
            for ci, (data, chunk) in enumerate(byte_cases(report.tier, rnd)):
                pairs = list(itertools.product(WRITE_PATHS, READ_PATHS))
                if len(data) > 100000 or not thorough:
                    pairs = rnd.sample(pairs, 6 if len(data) > 100000 else 14)
                if len(data) > 300000:      # pieces larger than the chunk size: always, on every backend
                    pairs += [(wp, rnd.choice(READ_PATHS)) for wp in BIG_PIECE_PATHS if wp not in [x[0] for x in pairs]]
                for wp, rp in pairs:
                    total += 1
                    p = "f%d" % ci
                    try:
                        write_path(fsx, wp, p, data, chunk)
                        got = read_path(fsx, rp, p, chunk)
                    except Exception as e:  # noqa
                        bad.append(("write/read path raised", dict(backend=bc.name, write=wp, read=rp, length=len(data),
                                                                   chunk=chunk), type(e).__name__ + ": " + str(e)[:200], None))
                        continue
                    nontrivial.add((bc.name, wp, rp, len(data), chunk))
                    if rp == "hash":
                        ok = got == ("hash", hashlib.md5(data).hexdigest())
                    elif rp == "getsize":
                        ok = got == ("size", len(data), len(data))
                    else:
                        ok = got == data
                    if not ok:
                        bad.append(("data not bit-identical", dict(backend=bc.name, write=wp, read=rp, length=len(data),
                                                                   chunk=chunk), repr(got)[:120], repr(data)[:120]))
        finally:
            b.close()
    # (2') the same matrix on FTPFS over a loop-back server
    ftp_cov, n_ftp = ftp_matrix(report, random.Random(report.seed + 202), thorough, bad, nontrivial)
    total += n_ftp
    # zero-size requests (record parser, size sweeps) on every kind of read handle
    n_zero_seq, n_zero_req = zero_read_block(rnd, thorough, bad, nontrivial)
    total += n_zero_seq
    # archive write -> read back
    for mk, rd in ((B.ZipW, "zip"), (B.TarW, "tar")):
        b = mk()
        fsx = b.make()
        datas = [d for d, _c in byte_cases("quick", rnd)[:8]]
        for i, d in enumerate(datas):
            fsx.writebytes("a%d" % i, d)
        fsx.close()
        b.target.seek(0)
        from fs.zipfs import ZipFS
        from fs.tarfs import TarFS
        r = (ZipFS if rd == "zip" else TarFS)(b.target)
        for i, d in enumerate(datas):
            total += 1
            if r.readbytes("a%d" % i) != d or r.getsize("a%d" % i) != len(d):
                bad.append(("archive round trip changed bytes", dict(kind=rd, length=len(d)), None, None))
        r.close()
    # (3) text layer against CPython's io.TextIOWrapper
    tcases = 0
    for bc in ([B.Mem, B.OS, B.SubMem, B.Wrap, B.MountSub, B.MultiOne] if thorough else [B.Mem, B.OS, B.SubMem, B.Wrap]):
        b = bc()
        try:
            fsx = b.make()
            for (enc, errs), nl, text in itertools.product(ENCODINGS, NEWLINES, TEXTS):
                if not thorough and rnd.random() > 0.45:
                    continue
                total += 1
                tcases += 1
                ref_bytes, ref_back = text_reference(text, enc, errs, nl)
                try:
                    with fsx.open("t", "w", encoding=enc, errors=errs, newline=nl) as f:
                        f.write(text)
                    stored = fsx.readbytes("t")
                    got_bytes = stored
                except Exception as e:
                    got_bytes = ("raises", type(e).__name__)
                    stored = None
                if got_bytes != ref_bytes:
                    bad.append(("text not stored as io.TextIOWrapper would", dict(backend=bc.name, encoding=enc, errors=errs,
                                                                               newline=nl, text=text[:40]),
                                repr(got_bytes)[:120], repr(ref_bytes)[:120]))
                    continue
                if stored is None:
                    continue
                try:
                    with fsx.open("t", "r", encoding=enc, errors=errs, newline=nl) as f:
                        back = f.read()
                except Exception as e:
                    back = ("raises", type(e).__name__)
                nontrivial.add(("text", enc, errs, nl, text[:10]))
                if back != ref_back:
                    bad.append(("text not read back as io.TextIOWrapper would", dict(backend=bc.name, encoding=enc, errors=errs,
                                                                                  newline=nl, text=text[:40]),
                                repr(back)[:120], repr(ref_back)[:120]))
            # the convenience methods take the same parameters: writetext / appendtext / readtext
            for (enc, errs), text in itertools.product(ENCODINGS, TEXTS):
                if not thorough and rnd.random() > 0.5:
                    continue
                total += 1
                tcases += 1
                kw = dict(encoding=enc) if errs is None else dict(encoding=enc, errors=errs)
                ref_bytes, ref_back = text_reference(text, enc, errs, "")
                try:
                    fsx.writetext("t2", text[: len(text) // 2], newline="", **kw)
                    fsx.appendtext("t2", text[len(text) // 2:], newline="", **kw)
                    got_bytes = fsx.readbytes("t2")
                except Exception as e:
                    got_bytes = ("raises", type(e).__name__)
                if enc in BOM_ENCODINGS or text == u"":
                    # BOM encodings: what an append writes depends on whether the file is empty (io asks tell()):
                    # the reference is a REAL io file written the same way (write half, append half)
                    ref_bytes = io_append_reference(text, enc, errs)
                if got_bytes != ref_bytes:
                    bad.append(("text not stored as io.TextIOWrapper would", dict(backend=bc.name, encoding=enc, errors=errs,
                                                                               newline="", text=text[:40], via="writetext+appendtext"),
                                repr(got_bytes)[:120], repr(ref_bytes)[:120]))
                elif not isinstance(got_bytes, tuple):
                    try:
                        back = fsx.readtext("t2", newline="", **kw)
                    except Exception as e:
                        back = ("raises", type(e).__name__)
                    if back != ref_back:
                        bad.append(("text not read back as io.TextIOWrapper would", dict(backend=bc.name, encoding=enc, errors=errs,
                                                                                      newline="", text=text[:40], via="readtext"),
                                    repr(back)[:120], repr(ref_back)[:120]))
            # defaults: unchanged
            for text in TEXTS:
                fsx.writetext("d", text)
                total += 1
                if fsx.readtext("d") != text:
                    bad.append(("writetext/readtext with defaults changed the text", dict(backend=bc.name, text=text[:40]),
                                repr(fsx.readtext("d"))[:80], None))
        finally:
            b.close()
    # (4) make_stream decision table
    import fs.iotools
    for mode in ["".join(p) for p in itertools.product("rwax", ["+", ""], ["b", "t", ""])]:
        for bi, buffering in enumerate((-1, 0, 4096)):
            total += 1
            try:
                s = fs.iotools.make_stream("n", io.BytesIO(b"abc"), mode=mode, buffering=buffering)
                layers = []
                o = s
                text = isinstance(o, io.TextIOWrapper)
                if text:
                    o = o.buffer
                kind = type(o).__name__ if isinstance(o, (io.BufferedRandom, io.BufferedReader, io.BufferedWriter)) else "raw"
                got = "%s/%s" % (kind, "T" if text else "F")
            except Exception as e:
                got = "EXC:" + type(e).__name__
            exp = common.run_model(["data stream %s %d" % (tok(mode), bi)])[0]
            if got != exp:
                bad.append(("make_stream builds a different stack", dict(mode=mode, buffering=buffering), got, exp))
    seen = set()
    pending_seen = {}
    for why, ctx, a, b2 in bad:
        sig = why + " " + str(ctx.get("backend", ctx.get("mode", "")))
        known = report.known_match(why)
        if known:
            report.known_finding(known)
            continue
        if why in PENDING_FINDINGS:
            pending_seen[why] = pending_seen.get(why, 0) + 1
            continue
        if sig in seen or len(seen) >= 10:
            continue
        seen.add(sig)
        report.violation(dict(kind="data-not-identical", why=why, case=ctx, observed=a, expected=b2,
                              theorem="Props/C02.v"))
    if vm_mism and not bad:
        report.violation(dict(kind="correspondence-broken", vm=vm_mism, theorem="Props/C02.v"), no_input=True)
    cov = dict(evaluations=total, distinct_nontrivial=len(nontrivial),
               rule="copy loop: random data/chunk sizes (incl. None, negative, 0)/short-read oracles vs the model; byte "
                    "strings of lengths {0,1,c-1,c,c+1,3c+1} for c in {1,2,7,4096}, all byte values, 1 MiB+1 (thorough: "
                    "1 MiB-1, 1 MiB, 5 MiB) x (8 write paths x 8 read paths) x backends; text: 7 encoding/errors x 5 newline "
                    "x 8 texts vs io.TextIOWrapper(io.BytesIO); make_stream: 24 modes x 3 bufferings vs the model; "
                    "non-trivial = distinct (backend, write path, read path, length, chunk) / text settings / chunk lists",
               samples=[dict(data=list(lc[0][0]), kind=lc[0][1], size=lc[0][2], oracle=lc[0][3], chunks=impl[0])],
               zero_size_read_sequences=n_zero_seq, zero_size_requests=n_zero_req,
               zero_size_rule="14 backends (incl. read-mode ZipFS/TarFS members) x {open('rb'), open('rb',0), "
                              "open('rb',16), openbin(), openbin('r',0)} x (length-prefixed record parser with "
                              "header widths 1/2/4 and empty records + size sweeps with read(0) / readinto(empty) / "
                              "readline(0) at start, middle and EOF, ending in read(-1) / read(None) / read()); "
                              "every call compared with io.BytesIO (data and position)",
               ftpfs_loopback_server=dict(ftp_cov, evaluations=n_ftp, pending_findings_seen=pending_seen),
               loop_cases=len(lc), text_cases=tcases, disagreements_checked=len(bad), vm_compute_crosschecked=n_vm,
               traces_validated_against_impl=total - len(bad))
    return report.finish(proof, cov, assumptions=[
        "encode/decode/newline translation is CPython's io layer: checked differentially against io.TextIOWrapper, not proved",
        "a blocking reader returns b'' only at end of file (hypothesis of the copy-loop theorem)"])


def replay(report, path):
    with open(path) as fh:
        print(fh.read()[:3000])
    return 1
