"""C19 -- tree-level correspondence: fs.copy.copy_fs / copy_fs_if and fs.mirror.mirror on the real code
against the extracted Gallina model of coq/Copy/TreeCopy.v (theorems: coq/Copy/TreeCopyProofs.v).

A case is a pair of trees (source, destination) with explicit integer modification times (MT_BASE + z,
or None = "missing", set through setinfo), one call with workers=0 between two real filesystem
objects (source: MemoryFS; destination: MemoryFS, in the thorough tier also OSFS), and the comparison
of the COMPLETE destination storage afterwards (fsops.snap_memoryfs) with the tree computed by the
model from the same two trees:

  names, types, bytes      exactly (entry order inside a directory is not compared)
  modification times       a node the model left alone or stamped with a source time (preserve_time)
                           must carry exactly that time; a node the model stamped with `now` (freshly
                           written file without preserve_time, freshly made directory) must carry a
                           time that is not older than the start of the call.  The root's own time is
                           not compared.  On OSFS directory times are not compared (the kernel updates
                           them when entries change), no "missing" times are generated, and an EMPTY
                           file written over an existing file may carry either the old time (what the
                           model says: MemoryFS stamps a file in write(), not when open("w") empties
                           it, and copying zero bytes writes nothing) or a fresh one (the kernel's
                           O_TRUNC stamps it).
  failing calls            only the exception class is compared (model: err:DirectoryExpected for a
                           source directory meeting a destination file, err:FileExpected for a source
                           file that has to be copied onto a destination directory); the half-done
                           destination of a failed call is not compared
  the source               must be unchanged

For a third of the mirror cases the call is repeated and compared with the model applied to its own
first result (the first `now` marker is older than the second, as real time is).
"""
from __future__ import print_function

import json
import os
import random
import sys
import tempfile
import time

import common
import fsops
from common import tok, tokb

MT_BASE = fsops.MT_BASE
NOW1 = 2000000          # model-side markers for "the time of the call"; larger than every set time
NOW2 = 2000001
CONDS = ["always", "newer", "older", "exists", "not_exists"]
NAMES = ["a", "b", "c", "d.txt", "e"]
OTHER = ["x", "y", "z.bin"]
RELATIONS = ["empty-dst", "empty-src", "disjoint", "overlapping", "conflicting", "random"]

# --------------------------------------------------------------------------- trees
# ('F', bytes, mt) | ('D', mt, [(name, node), ...]);  mt: None | int z (real time MT_BASE + z)


def gen_mt(rnd, none_ok=True):
    if none_ok and rnd.random() < 0.12:
        return None
    return rnd.randint(10, 40)


def gen_data(rnd, side):
    r = rnd.random()
    if r < 0.2:
        return b""
    return (side + "x" * rnd.randint(0, 2)).encode("ascii")


def gen_tree(rnd, side, names, depth, budget, none_ok=True):
    ents = []
    for name in rnd.sample(names, rnd.randint(0, min(3, len(names)))):
        if budget[0] <= 0:
            break
        budget[0] -= 1
        if depth < 3 and rnd.random() < 0.4:
            ents.append((name, gen_tree(rnd, side, names, depth + 1, budget, none_ok)))
        else:
            ents.append((name, ("F", gen_data(rnd, side), gen_mt(rnd, none_ok))))
    return ("D", gen_mt(rnd, none_ok), ents)


def related(rnd, s, conflicting, none_ok, root=False):
    """A destination node derived from the source node s."""
    if s[0] == "F":
        if conflicting and rnd.random() < 0.35:
            inner = [("in", ("F", b"Di", gen_mt(rnd, none_ok)))] if rnd.random() < 0.5 else []
            return ("D", rel_mt(rnd, s[2], none_ok), inner)
        data = b"D" * len(s[1]) if rnd.random() < 0.6 else b"D" * (len(s[1]) + 1)
        return ("F", data, rel_mt(rnd, s[2], none_ok))
    if conflicting and not root and rnd.random() < 0.3:
        return ("F", gen_data(rnd, "D"), gen_mt(rnd, none_ok))
    ents = []
    for name, c in s[2]:
        if rnd.random() < 0.65:
            ents.append((name, related(rnd, c, conflicting, none_ok)))
    for name in rnd.sample(OTHER, rnd.randint(0, 2)):
        if rnd.random() < 0.5:
            ents.append((name, ("F", gen_data(rnd, "D"), gen_mt(rnd, none_ok))))
        else:
            ents.append((name, ("D", gen_mt(rnd, none_ok), [("k", ("F", b"Dk", gen_mt(rnd, none_ok)))]
                         if rnd.random() < 0.6 else [])))
    rnd.shuffle(ents)
    return ("D", gen_mt(rnd, none_ok), ents)


def rel_mt(rnd, m, none_ok):
    if m is None or (none_ok and rnd.random() < 0.1):
        return gen_mt(rnd, none_ok)
    return m + rnd.choice([-3, -1, 0, 0, 1, 4])


def gen_pair(rnd, relation, none_ok=True):
    src = gen_tree(rnd, "S", NAMES, 0, [rnd.randint(1, 9)], none_ok)
    if relation == "empty-src":
        src = ("D", None, [])
        dst = gen_tree(rnd, "D", NAMES, 0, [rnd.randint(0, 6)], none_ok)
    elif relation == "empty-dst":
        dst = ("D", None, [])
    elif relation == "disjoint":
        dst = gen_tree(rnd, "D", OTHER, 0, [rnd.randint(1, 6)], none_ok)
    elif relation == "overlapping":
        dst = related(rnd, src, False, none_ok, True)
    elif relation == "conflicting":
        dst = related(rnd, src, True, none_ok, True)
    else:
        dst = gen_tree(rnd, "D", NAMES, 0, [rnd.randint(1, 9)], none_ok)
    # the roots' own times are not set and not compared
    return ("D", None, src[2]), ("D", None, dst[2])


def has_clash(s, d):
    """(source directory on destination file, source file on destination directory) anywhere."""
    dc = fc = False
    if s[0] == "D" and d[0] == "D":
        dd = dict(d[2])
        for name, c in s[2]:
            o = dd.get(name)
            if o is None:
                continue
            if c[0] == "D" and o[0] == "F":
                dc = True
            elif c[0] == "F" and o[0] == "D":
                fc = True
            elif c[0] == "D":
                a, b = has_clash(c, o)
                dc, fc = dc or a, fc or b
    return dc, fc


def tree_tokens(t):
    out = []

    def go(n):
        if n[0] == "F":
            out.extend(["1", "-" if n[2] is None else str(n[2]), tokb(n[1])])
        else:
            out.extend(["2", "-" if n[1] is None else str(n[1]), str(len(n[2]))])
            for name, c in n[2]:
                out.append(tok(name))
                go(c)
    go(t)
    return out


def tree_json(t):
    if t[0] == "F":
        return ["F", list(bytearray(t[1])), t[2]]
    return ["D", t[1], [[n, tree_json(c)] for n, c in t[2]]]


def tree_unjson(j):
    if j[0] == "F":
        return ("F", bytes(bytearray(j[1])), j[2])
    return ("D", j[1], [(n, tree_unjson(c)) for n, c in j[2]])


def no_none(t, default=20):
    if t[0] == "F":
        return ("F", t[1], default if t[2] is None else t[2])
    return ("D", default if t[1] is None else t[1], [(n, no_none(c, default)) for n, c in t[2]])


# --------------------------------------------------------------------------- real filesystems

def real_mt(z):
    return None if z is None else MT_BASE + z


def build_fs(fs, t, set_none=True):
    """Create the tree t below the root of fs; times are set bottom-up so that every one is final."""
    def go(path, n, root):
        if n[0] == "F":
            fs.writebytes(path, n[1])
        else:
            if not root:
                fs.makedir(path)
            for name, c in n[2]:
                go(path.rstrip("/") + "/" + name, c, False)
        if not root:
            mt = n[2] if n[0] == "F" else n[1]
            if mt is not None or set_none:
                fs.setinfo(path, {"details": {"modified": real_mt(mt)}})
    go("/", t, True)


def raw_snapshot(fs):
    """('D', raw mtime, [(name, node)]) / ('F', bytes, raw mtime) through the public API."""
    def go(path, info):
        mt = info.raw.get("details", {}).get("modified")
        if info.is_dir:
            return ("D", mt, [(i.name, go(path.rstrip("/") + "/" + i.name, i))
                              for i in fs.scandir(path, namespaces=["details"])])
        return ("F", fs.readbytes(path), mt)
    return go("/", fs.getinfo("/", namespaces=["details"]))


def raw_snapshot_mem(fs):
    """The same from the MemoryFS entry objects (the storage itself)."""
    def go(e):
        if e.is_dir:
            return ("D", e.modified_time, [(k, go(v)) for k, v in e._dir.items()])
        return ("F", e._bytes_file.getvalue(), e.modified_time)
    return go(fs.root)


def model_tree(text):
    """Rendered model tree -> the python shape, names decoded, data as bytes."""
    def conv(n):
        if n[0] == "F":
            data = bytes(bytearray(int(x) for x in n[1][1:].split(","))) if len(n[1]) > 1 else b""
            return ("F", data, n[2])
        return ("D", n[1], [("".join(chr(int(x)) for x in k[1:].split(",")) if len(k) > 1 else "", conv(c))
                            for k, c in n[2]])
    return conv(fsops.parse_tree(text))


def diff_trees(model, real, t_starts, dir_times, slack, path="", root=True):
    """Differences between the model's tree and the raw snapshot of the implementation."""
    out = []
    if model[0] != real[0]:
        return ["%s: model %s, implementation %s" % (path or "/", model[0], real[0])]

    def times(mm, rm, empty_file=False):
        if root:
            return
        if empty_file and slack and mm not in t_starts and isinstance(rm, (int, float)) \
                and rm >= min(t_starts.values()) - slack:
            return      # OSFS: emptying an existing file stamps it (MemoryFS keeps the old time)
        if mm in t_starts:
            if not (isinstance(rm, (int, float)) and rm >= t_starts[mm] - slack):
                out.append("%s: mtime %r is older than the start of the call (%r)" % (path, rm, t_starts[mm]))
        elif rm != real_mt(mm):
            out.append("%s: mtime model %r, implementation %r" % (path, real_mt(mm), rm))
    if model[0] == "F":
        if model[1] != real[1]:
            out.append("%s: bytes model %r, implementation %r" % (path, model[1], real[1]))
        times(model[2], real[2], model[1] == b"")
        return out
    if dir_times:
        times(model[1], real[1])
    m, r = dict(model[2]), dict(real[2])
    if len(m) != len(model[2]) or len(r) != len(real[2]):
        out.append("%s: duplicate names" % (path or "/"))
    for name in sorted(set(m) | set(r)):
        p = path + "/" + name
        if name not in r:
            out.append("%s: in the model only" % p)
        elif name not in m:
            out.append("%s: in the implementation only" % p)
        else:
            out.extend(diff_trees(m[name], r[name], t_starts, dir_times, slack, p, False))
    return out


class Dest(object):
    def __init__(self, backend):
        from fs.memoryfs import MemoryFS
        self.backend = backend
        self.tmp = None
        if backend == "mem":
            self.fs = MemoryFS()
        else:
            from fs.osfs import OSFS
            self.tmp = tempfile.mkdtemp(prefix="pyfs2verif_c19t_")
            self.fs = OSFS(self.tmp)

    def close(self):
        try:
            self.fs.close()
        finally:
            if self.tmp:
                common.rm_rf(self.tmp)


def model_line(case, src=None, dst=None, now=NOW1):
    fn = case["function"]
    s = tree_tokens(src if src is not None else case["src"])
    d = tree_tokens(dst if dst is not None else case["dst"])
    pt = "1" if case["preserve_time"] else "0"
    if fn == "mirror":
        head = ["treecopy", "mirror", "1" if case["copy_if_newer"] else "0", pt, str(now)]
    else:
        head = ["treecopy", "copy_fs_if", str(CONDS.index(case["condition"])), pt, str(now)]
    return " ".join(head + s + d)


def call_real(case, src_fs, dst_fs):
    import fs.copy
    import fs.mirror
    fn = case["function"]
    pt = case["preserve_time"]
    try:
        if fn == "copy_fs":
            fs.copy.copy_fs(src_fs, dst_fs, workers=0, preserve_time=pt)
        elif fn == "copy_fs_if":
            fs.copy.copy_fs_if(src_fs, dst_fs, case["condition"], workers=0, preserve_time=pt)
        else:
            fs.mirror.mirror(src_fs, dst_fs, copy_if_newer=case["copy_if_newer"], workers=0, preserve_time=pt)
    except Exception as e:  # noqa
        return common.exc_name(e)
    return "ok"


def run_real(case):
    """Build both filesystems, call, snapshot.  Returns dict(outcome, tree, rendered, t_start, ...)."""
    from fs.memoryfs import MemoryFS
    src_fs = MemoryFS()
    dest = Dest(case.get("backend", "mem"))
    try:
        build_fs(src_fs, case["src"])
        build_fs(dest.fs, case["dst"], set_none=(dest.backend == "mem"))
        src_before = fsops.snap_memoryfs(src_fs)
        res = {}
        t1 = time.time()
        res["outcome"] = call_real(case, src_fs, dest.fs)
        res["t1"] = t1
        snap = raw_snapshot_mem if dest.backend == "mem" else raw_snapshot
        res["tree"] = snap(dest.fs)
        if dest.backend == "mem":
            res["rendered"] = fsops.snap_memoryfs(dest.fs)
        if case.get("twice") and res["outcome"] == "ok":
            t2 = time.time()
            res["outcome2"] = call_real(case, src_fs, dest.fs)
            res["t2"] = t2
            res["tree2"] = snap(dest.fs)
        res["src_changed"] = fsops.snap_memoryfs(src_fs) != src_before
        return res
    finally:
        src_fs.close()
        dest.close()


def judge(case, res, model_out, model_out2=None):
    """List of differences between the implementation's run and the model's answers."""
    slack = 0.0 if case.get("backend", "mem") == "mem" else 0.05
    dir_times = case.get("backend", "mem") == "mem"
    diffs = []
    if res["src_changed"]:
        diffs.append("the source filesystem changed")
    if model_out.startswith("ok:"):
        if res["outcome"] != "ok":
            return diffs + ["implementation raised %s, model returns a tree" % res["outcome"]]
        diffs += diff_trees(model_tree(model_out[3:]), res["tree"], {NOW1: res["t1"]}, dir_times, slack)
        if "rendered" in res and not case.get("twice"):
            # the same comparison on the canonical text of the storage snapshot (names, types, bytes)
            if fsops.canon_tree(res["rendered"]) != fsops.canon_tree(model_out[3:]):
                if not diffs:
                    diffs.append("canonical snapshot text differs from the model's tree")
    else:
        if res["outcome"] != model_out:
            diffs.append("implementation: %s, model: %s" % (res["outcome"], model_out))
        return diffs
    if case.get("twice") and model_out2 is not None:
        if not model_out2.startswith("ok:") or res.get("outcome2") != "ok":
            diffs.append("second pass: implementation %s, model %s" % (res.get("outcome2"), model_out2[:40]))
        else:
            diffs += ["second pass: " + x for x in
                      diff_trees(model_tree(model_out2[3:]), res["tree2"],
                                 {NOW1: res["t1"], NOW2: res["t2"]}, dir_times, slack)]
    return diffs


def second_line(case, model_out):
    """The model applied to its own first result (trees re-encoded from the rendered text)."""
    t = model_tree(model_out[3:])
    return model_line(case, dst=t, now=NOW2)


def payload(case, res, model_out, diffs, model_out2=None):
    d = dict(kind="replica-differs-from-model", function=case["function"],
             condition=case.get("condition"), copy_if_newer=case.get("copy_if_newer"),
             preserve_time=case["preserve_time"], backend=case.get("backend", "mem"),
             twice=bool(case.get("twice")), relation=case.get("relation"),
             src=tree_json(case["src"]), dst=tree_json(case["dst"]),
             implementation=dict(outcome=res["outcome"], tree=repr(res["tree"]),
                                 second=repr(res.get("tree2"))),
             model=model_out, model_second=model_out2, differences=diffs[:12],
             theorem="Copy/TreeCopyProofs.v",
             what="fs.%s: the destination after the call differs from the tree computed by the "
                  "proved model" % ("mirror.mirror" if case["function"] == "mirror" else "copy." + case["function"]))
    return d


def case_of(d):
    return dict(function=d["function"], condition=d.get("condition"), copy_if_newer=d.get("copy_if_newer"),
                preserve_time=d["preserve_time"], backend=d.get("backend", "mem"), twice=d.get("twice", False),
                src=tree_unjson(d["src"]), dst=tree_unjson(d["dst"]))


def replay_tree(d):
    """Re-run a recorded violation; returns 0 when implementation and model agree."""
    case = case_of(d)
    res = run_real(case)
    out = common.run_model([model_line(case)])[0]
    out2 = None
    if case.get("twice") and out.startswith("ok:"):
        out2 = common.run_model([second_line(case, out)])[0]
    diffs = judge(case, res, out, out2)
    print("function:", case["function"], "condition:", case.get("condition"), "copy_if_newer:",
          case.get("copy_if_newer"), "preserve_time:", case["preserve_time"], "backend:", case["backend"])
    print("source:        ", case["src"])
    print("destination:   ", case["dst"])
    print("implementation:", res["outcome"], res["tree"])
    print("model:         ", out)
    for x in diffs:
        print("  DIFFERENCE:", x)
    return 1 if diffs else 0


# --------------------------------------------------------------------------- the check

def cases_for_pair(rnd, src, dst, relation, backend):
    """The calls made on one pair: copy_fs, copy_fs_if x 5 conditions, mirror x both copy_if_newer."""
    out = [dict(function="copy_fs", condition="always", preserve_time=rnd.random() < 0.5)]
    for c in CONDS:
        out.append(dict(function="copy_fs_if", condition=c, preserve_time=rnd.random() < 0.5))
    for cn in (False, True):
        out.append(dict(function="mirror", copy_if_newer=cn, preserve_time=rnd.random() < 0.5,
                        twice=rnd.random() < 0.34))
    for c in out:
        c.update(src=src, dst=dst, relation=relation, backend=backend)
    return out


def run_tree_checks(report, rnd, tier):
    t0 = time.time()
    thorough = tier == "thorough"
    n_pairs = 10000 if thorough else 600
    cases = []
    by_rel = {}
    clash_pairs = 0
    for i in range(n_pairs):
        relation = RELATIONS[i % len(RELATIONS)] if i % 7 else "conflicting"
        backend = "os" if thorough and i % 10 == 9 else "mem"
        src, dst = gen_pair(rnd, relation, none_ok=(backend == "mem"))
        if backend == "os":
            src, dst = no_none(src), no_none(dst)
            src, dst = ("D", None, src[2]), ("D", None, dst[2])
        by_rel[relation] = by_rel.get(relation, 0) + 1
        if any(has_clash(src, dst)):
            clash_pairs += 1
        cases.extend(cases_for_pair(rnd, src, dst, relation, backend))
    lines = [model_line(c) for c in cases]
    outs = common.run_model_parallel(lines, procs=4, chunk=5000)
    idx2 = [i for i, c in enumerate(cases) if c.get("twice") and outs[i].startswith("ok:")]
    outs2 = dict(zip(idx2, common.run_model_parallel([second_line(cases[i], outs[i]) for i in idx2],
                                                      procs=4, chunk=5000))) if idx2 else {}
    t_model = time.time()
    by_fn, by_out, mism = {}, {}, 0
    reported = set()
    second = osruns = 0
    for i, c in enumerate(cases):
        res = run_real(c)
        key = c["function"] + ("/" + c["condition"] if c["function"] == "copy_fs_if" else
                               "/copy_if_newer=%s" % c["copy_if_newer"] if c["function"] == "mirror" else "")
        by_fn[key] = by_fn.get(key, 0) + 1
        by_out[outs[i][:3] if outs[i].startswith("ok:") else outs[i]] = \
            by_out.get(outs[i][:3] if outs[i].startswith("ok:") else outs[i], 0) + 1
        if c["backend"] == "os":
            osruns += 1
        if i in outs2:
            second += 1
        diffs = judge(c, res, outs[i], outs2.get(i))
        if diffs:
            mism += 1
            sig = (key, c["preserve_time"], c["backend"], diffs[0].split(":")[-1][:30])
            if len(reported) < 12 and sig not in reported:
                reported.add(sig)
                report.violation(payload(c, res, outs[i], diffs, outs2.get(i)))
    vm_n, vm_bad = 0, []
    if os.environ.get("TREECOPY_NO_VM") != "1":
        vm_n, vm_bad = common.vm_crosscheck(lines, outs, "treecopy", limit=60 if thorough else 25)
        for m in vm_bad:
            report.violation(dict(kind="extraction-differs-from-vm_compute", what=m,
                                  theorem="Copy/TreeCopyProofs.v"), no_input=True)
    return dict(
        tree_pairs=n_pairs, tree_pairs_by_relation=by_rel, tree_pairs_with_file_directory_clash=clash_pairs,
        tree_runs=len(cases), tree_runs_by_function=by_fn, tree_model_outcomes=by_out,
        tree_second_pass_runs=second, tree_osfs_destination_runs=osruns, tree_mismatches=mism,
        tree_vm_crosschecked=vm_n,
        tree_rule="destination storage after fs.copy.copy_fs / copy_fs_if (5 conditions) / fs.mirror.mirror (both "
                  "copy_if_newer values), workers=0, preserve_time on/off, between two real filesystems == tree "
                  "computed by the extracted model of Copy/TreeCopy.v: names, types, bytes exactly; a time the "
                  "model did not stamp with `now` exactly, a time stamped `now` only 'not older than the start of "
                  "the call'; root time and (OSFS) directory times not compared; an empty file written over an existing file keeps its old time on MemoryFS (modelled), either time accepted on OSFS; failing calls: exception class "
                  "only; source unchanged; explicit times MT_BASE+z incl. equal/older/newer and missing (None)",
        tree_wall_s=dict(model=round(t_model - t0, 1), total=round(time.time() - t0, 1)))


if __name__ == "__main__":
    # standalone: PYTHONPATH=/repo:/verif/harness /venv/bin/python -W ignore h_treecopy.py [seed] [tier]
    #         or: ... h_treecopy.py replay <violation.json>
    if os.environ.get("TREECOPY_DRIVER"):
        common.DRIVER = os.environ["TREECOPY_DRIVER"]
    if len(sys.argv) > 2 and sys.argv[1] == "replay":
        with open(sys.argv[2]) as fh:
            sys.exit(replay_tree(json.load(fh)))
    seed_ = int(sys.argv[1]) if len(sys.argv) > 1 else common.seed_from_env()
    tier_ = sys.argv[2] if len(sys.argv) > 2 else "quick"
    rep = common.Report("C19", tier_, seed_)
    cov = run_tree_checks(rep, random.Random(seed_ + 1900), tier_)
    print(json.dumps(cov, indent=1, sort_keys=True))
    for path_, no_input_ in rep.violations:
        print("VIOLATION property=C19 replay=%s%s" % (path_, " no-failing-input-found" if no_input_ else ""))
    sys.exit(1 if rep.violations else 0)
