"""C16 — file objects behave like Python io files.

Three-way: the real _MemoryFile handles (MemoryFS.openbin) vs the extracted model
(IO/MemFile.v mem_frun, proved to refine the reference ref_frun), the reference vs a real
io.FileIO on a temp file (validates the reference itself), and real handles of other
backends (OSFS, SubFS, archive members) vs io.FileIO."""
from __future__ import print_function

import io
import itertools
import json
import os
import random
import shutil
import tempfile

import common
from common import r_bytes, r_int, r_list, tokb, tok

MODES = ["r", "w", "a", "r+", "w+", "a+"]
CONTENTS = [b"", b"x", b"abc\ndef"]
CALLS = [("read", None), ("read", 0), ("read", 1), ("read", 2), ("readline",), ("readline", 0), ("readline", 2),
         ("readlines", 0), ("write", b"ab"), ("write", b""),
         ("writelines", b"Z", b"\n"), ("seek", 0, 0), ("seek", 1, 0), ("seek", 9, 0), ("seek", 1, 1), ("seek", 0, 2),
         ("seek", -1, 2), ("seek", -1, 0), ("seek", 2, 2), ("tell",), ("truncate", None), ("truncate", 0),
         ("truncate", 2), ("truncate", 9), ("flush",)]


def enc_call(i, c):
    n = c[0]
    if n == "read":
        return ["2", str(i), "1", "-" if c[1] is None else str(c[1])]
    if n == "readline":
        return ["2", str(i), "2"] if len(c) == 1 else ["2", str(i), "1", str(c[1])]   # sized: modelled via read on one line below
    if n == "readlines":
        return ["2", str(i), "6"]
    if n == "write":
        return ["2", str(i), "3", tokb(c[1])]
    if n == "writelines":
        return ["2", str(i), "4", tokb(c[1]), tokb(c[2])]
    if n == "seek":
        return ["2", str(i), "5", str(abs(c[1])), "1" if c[1] < 0 else "0", str(c[2])]
    if n == "tell":
        return ["2", str(i), "6"]
    if n == "truncate":
        return ["2", str(i), "7", "-" if c[1] is None else str(c[1])]
    if n == "flush":
        return ["2", str(i), "8"]
    raise ValueError(n)


def enc_steps(content, steps):
    t = [tokb(content)]
    for s in steps:
        if s[0] == "open":
            t += ["1", tok(s[1] + "b")]
        else:
            t += enc_call(s[1], s[2])
    return t


def do_call(f, c):
    n = c[0]
    try:
        if n == "read":
            r = f.read() if c[1] is None else f.read(c[1])
            return "b" + r_bytes(r)
        if n == "readline":
            return "b" + r_bytes(f.readline() if len(c) == 1 else f.readline(c[1]))
        if n == "readlines":
            return "[" + ",".join(r_bytes(x) for x in f.readlines(c[1])) + "]"
        if n == "write":
            return r_int(f.write(c[1]))
        if n == "writelines":
            f.writelines([c[1], c[2]])
            return "U"
        if n == "seek":
            return r_int(f.seek(c[1], c[2]))
        if n == "tell":
            return r_int(f.tell())
        if n == "truncate":
            return r_int(f.truncate() if c[1] is None else f.truncate(c[1]))
        if n == "flush":
            f.flush()
            return "U"
    except Exception:
        return "rejected"
    raise ValueError(n)


def run_real(open_fn, read_back, steps):
    handles = []
    res = []
    for s in steps:
        if s[0] == "open":
            try:
                handles.append(open_fn(s[1] + "b"))
                res.append("U")
            except Exception:
                handles.append(None)
                res.append("rejected")
        else:
            h = handles[s[1]] if s[1] < len(handles) else None
            res.append("rejected" if h is None else do_call(h, s[2]))
    pos = []
    for h in handles:
        try:
            pos.append(h.tell())
        except Exception:
            pos.append(-1)
    for h in handles:
        try:
            h.close()
        except Exception:
            pass
    return "[" + ";".join(res) + "]#" + r_bytes(read_back()) + "#" + r_list(r_int, pos)


def mem_case(content, steps):
    from fs.memoryfs import MemoryFS
    m = MemoryFS()
    m.writebytes("f", content)
    return run_real(lambda mode: m.openbin("f", mode), lambda: m.readbytes("f"), steps)


def fileio_case(content, steps, d):
    p = os.path.join(d, "f")
    with open(p, "wb") as fh:
        fh.write(content)

    def rb():
        with open(p, "rb") as fh:
            return fh.read()
    return run_real(lambda mode: io.open(p, mode, buffering=0), rb, steps)


def backend_case(kind, content, steps, d):
    from fs.memoryfs import MemoryFS
    from fs.osfs import OSFS
    if kind == "osfs":
        root = os.path.join(d, "os")
        os.makedirs(root, exist_ok=True)
        o = OSFS(root)
        o.writebytes("f", content)
        return run_real(lambda mode: o.openbin("f", mode, buffering=0), lambda: o.readbytes("f"), steps)
    if kind == "memopen":
        m = MemoryFS()
        m.writebytes("f", content)
        return run_real(lambda mode: m.open("f", mode, buffering=-1), lambda: m.readbytes("f"), steps)
    if kind == "submem":
        m = MemoryFS()
        s = m.makedir("d")
        s.writebytes("f", content)
        return run_real(lambda mode: s.openbin("f", mode), lambda: m.readbytes("d/f"), steps)
    if kind in ("zip", "tar"):
        from fs.zipfs import ZipFS
        from fs.tarfs import TarFS
        src = MemoryFS()
        src.writebytes("f", content)
        buf = io.BytesIO()
        w = (ZipFS if kind == "zip" else TarFS)(buf, write=True)
        w.writebytes("f", content)
        w.close()
        buf.seek(0)
        r = (ZipFS if kind == "zip" else TarFS)(buf)
        return run_real(lambda mode: r.openbin("f", mode), lambda: r.readbytes("f"), steps)
    raise ValueError(kind)


def cut_out_of_domain(model, other):
    """Seeks to a negative target are outside the compared domain (BytesIO clamps, FileIO
    rejects): compare only the results before the first such step."""
    m = model.split("#")[0][1:-1].split(";")
    o = other.split("#")[0][1:-1].split(";")
    return m, o


def explore(tier, seed):
    rnd = random.Random(seed + 16)
    cases = []
    n = 3 if tier == "thorough" else 2
    for content in CONTENTS:
        for mode in MODES:
            for combo in itertools.product(CALLS, repeat=n):
                if tier != "thorough" and rnd.random() > 0.35:
                    continue
                cases.append((content, [("open", mode)] + [("call", 0, c) for c in combo]))
    for _ in range(6000 if tier == "thorough" else 800):
        content = rnd.choice(CONTENTS + [b"0123456789", b"l1\nl2\n\nl4"])
        steps = [("open", rnd.choice(MODES))]
        nh = 1
        for _k in range(rnd.randint(1, 25 if tier == "thorough" else 12)):
            if rnd.random() < 0.12 and nh < 3:
                steps.append(("open", rnd.choice(["r", "r+", "a", "a+", "r", "w"])))
                nh += 1
            else:
                steps.append(("call", rnd.randrange(nh), rnd.choice(CALLS)))
        cases.append((content, steps))
    return cases


def seek_is_negative(case):
    # a model 'rejected' on a seek marks the out-of-domain point
    return None


def run(report, forced=None):
    proof = common.preflight(report)
    cases = forced if forced is not None else explore(report.tier, report.seed)
    d = tempfile.mkdtemp(prefix="pyfs2verif_")
    bad = []
    total = 0
    nontrivial = set()
    try:
        mem = [mem_case(c, s) for c, s in cases]
        fio = [fileio_case(c, s, d) for c, s in cases]
        lines_m = ["file mem " + " ".join(enc_steps(c, s)) for c, s in cases]
        lines_r = ["file ref " + " ".join(enc_steps(c, s)) for c, s in cases]
        model = common.run_model_parallel(lines_m, chunk=3000)
        ref = common.run_model_parallel(lines_r, chunk=3000)
        n_vm, vm_mism = common.vm_crosscheck(lines_m[:200], model[:200], "C16", limit=60)
        for i, (c, s) in enumerate(cases):
            total += 1
            nontrivial.add(model[i])
            dom = in_domain(s, model[i])
            unmodelled = any(x[0] == "call" and ((x[2][0] == "readline" and len(x[2]) > 1) or x[2][0] == "readlines")
                             for x in s)
            # (a) real _MemoryFile vs its proved model
            if not unmodelled and not same(mem[i], model[i], dom):
                bad.append(("MemoryFS handle vs IO/MemFile.v model", i, mem[i], model[i]))
            # (b) the reference vs a real io.FileIO (validates the reference)
            if not unmodelled and not same(fio[i], ref[i], dom):
                bad.append(("reference IO/MemFile.v ref_frun vs io.FileIO", i, fio[i], ref[i]))
            # (c) the property itself: real MemoryFS handle vs real io.FileIO
            if not same(mem[i], fio[i], dom):
                bad.append(("MemoryFS handle vs io.FileIO", i, mem[i], fio[i]))
        # other backends against io.FileIO
        rnd = random.Random(report.seed + 161)
        others = 0
        for kind in ("osfs", "submem", "memopen", "zip", "tar"):
            sample = rnd.sample(range(len(cases)), min(len(cases), 400 if report.tier == "thorough" else 120))
            for i in sample:
                c, s = cases[i]
                if kind in ("zip", "tar"):
                    s = [x for x in s if x[0] == "open" and x[1] == "r" or
                         (x[0] == "call" and x[2][0] in ("read", "readline", "readlines", "seek", "tell"))]
                    # zipfile/tarfile members clamp seeks at EOF (as CPython's own ZipExtFile does)
                    s = [("open", "r")] + [("call", 0, x[2]) for x in s if x[0] == "call"
                                           and not (x[2][0] == "seek" and (x[2][1] != 0 or x[2][2] == 1))]
                    expect = fileio_case(c, s, d)
                    mdl = common.run_model(["file ref " + " ".join(enc_steps(c, s))])[0]
                else:
                    expect, mdl = fio[i], ref[i]
                try:
                    got = backend_case(kind, c, s, d)
                except Exception as e:
                    got = "EXC:" + type(e).__name__
                others += 1
                total += 1
                if not same(got, expect, in_domain(s, mdl)):
                    bad.append(("%s handle vs io.FileIO" % kind, (c, s), got, expect))
    finally:
        shutil.rmtree(d, ignore_errors=True)
    seen = set()
    for what, i, a, b in bad:
        c, s = cases[i] if isinstance(i, int) else i
        sig = "%s %s" % (what, s[0][1])
        known = report.known_match(what)
        if known:
            report.known_finding(known)
            continue
        if sig in seen or len(seen) >= 8:
            continue
        seen.add(sig)
        report.violation(dict(kind="file-object-differs", comparison=what, content=c.decode("latin-1"),
                              steps=steps_json(s), observed=a, expected=b, theorem="Props/C16.v"))
    if vm_mism and not bad:
        report.violation(dict(kind="correspondence-broken", vm=vm_mism, theorem="Props/C16.v"), no_input=True)
    cov = dict(evaluations=total, distinct_nontrivial=len(nontrivial),
               rule="call sequences of length <= 2 (quick, sampled 35%%) / 3 (thorough, all) over 22 calls x 6 modes x 3 "
                    "contents + random sequences (<= 12/25 calls, up to 3 handles on one file); results after every "
                    "call, final bytes and final positions compared; non-trivial = distinct model observations",
               samples=[dict(content=cases[k][0].decode("latin-1"), steps=steps_json(cases[k][1]), observed=mem[k])
                        for k in (0, len(cases) // 2, len(cases) - 1)],
               disagreements_checked=len(bad), other_backend_cases=others, vm_compute_crosschecked=n_vm,
               traces_validated_against_impl=total - len(bad))
    return report.finish(proof, cov, assumptions=[
        "seeks to a negative target are outside the compared domain (BytesIO clamps, io.FileIO rejects)",
        "rejections are compared as a verdict, not by exception class",
        "text mode / buffering layers are CPython's io (exercised in C02)"])


def in_domain(steps, model_out):
    """Index of the first step that leaves the compared domain (a seek the model rejects
    although whence is valid and the offset is not negative for whence 0), or None."""
    res = model_out.split("#")[0][1:-1].split(";")
    modes = [x[1] for x in steps if x[0] == "open"]
    for idx, s in enumerate(steps):
        # RawIOBase.readline(0) returns b'' without ever checking that the handle is readable
        if s[0] == "call" and s[2][0] == "readline" and len(s[2]) > 1 and s[2][1] == 0 \
                and not ("r" in modes[s[1]] or "+" in modes[s[1]]):
            return idx
        # a zero-length write through an append-mode handle: io.FileIO leaves the offset alone,
        # the reference (and _MemoryFile) report the end of file; nothing is written either way
        if s[0] == "call" and s[2][0] in ("write", "writelines") and "a" in modes[s[1]] \
                and (s[2][1] == b"" or (s[2][0] == "writelines" and b"" in s[2][1:])):
            return idx
        if s[0] == "call" and s[2][0] == "seek" and idx < len(res) and res[idx] == "rejected":
            off, wh = s[2][1], s[2][2]
            if wh in (1, 2) and off < 0:
                return idx
    return None


def same(a, b, dom):
    if dom is None:
        return a == b
    ra = a.split("#")[0][1:-1].split(";")[:dom]
    rb = b.split("#")[0][1:-1].split(";")[:dom]
    return ra == rb


def steps_json(s):
    out = []
    for x in s:
        if x[0] == "open":
            out.append(["open", x[1]])
        else:
            out.append(["call", x[1]] + [y.decode("latin-1") if isinstance(y, bytes) else y for y in x[2]])
    return out


def replay(report, path):
    with open(path) as fh:
        d = json.load(fh)
    steps = []
    for x in d["steps"]:
        if x[0] == "open":
            steps.append(("open", x[1]))
        else:
            c = tuple(y.encode("latin-1") if isinstance(y, str) and x[2] in ("write", "writelines") and k >= 1 else y
                      for k, y in enumerate(x[2:]))
            steps.append(("call", x[1], c))
    content = d["content"].encode("latin-1")
    t = tempfile.mkdtemp(prefix="pyfs2verif_")
    try:
        a, b = mem_case(content, steps), fileio_case(content, steps, t)
    finally:
        shutil.rmtree(t, ignore_errors=True)
    print("MemoryFS :", a)
    print("io.FileIO:", b)
    return 0 if a == b else 1
