"""C16 — file objects behave like Python io files.

Three-way: the real _MemoryFile handles (MemoryFS.openbin) vs the extracted model
(IO/MemFile.v mem_frun, proved to refine the reference ref_frun), the reference vs a real
io.FileIO on a temp file (validates the reference itself), and real handles of other
backends (OSFS, SubFS, archive members) vs io.FileIO."""
from __future__ import print_function

import array
import ctypes
import io
import itertools
import json
import mmap
import os
import random
import shutil
import tempfile

import common
from common import r_bytes, r_int, r_list, tokb, tok

# TODO PENDING_FINDINGS: misbehaviours of the UNCHANGED library exposed by the FTPFS coverage, not yet in
# known_findings.json (to be triaged: repaired in /repo, registered as known findings, or the oracle narrowed).  A
# signature listed here is neither a violation nor printed; every other disagreement still is a violation.
# The FTPFS file-object signatures are generated from FTP_RULES below (one per rule).
PENDING_FINDINGS = []      # filled below: [ftp_signature(r) for r in FTP_RULES] + FTP_BUFFER_PENDING

MODES = ["r", "w", "a", "r+", "w+", "a+"]
CONTENTS = [b"", b"x", b"abc\ndef"]
CALLS = [("read", None), ("read", 0), ("read", 1), ("read", 2), ("readline",), ("readline", 0), ("readline", 2),
         ("readlines", 0), ("write", b"ab"), ("write", b""),
         ("writelines", b"Z", b"\n"), ("seek", 0, 0), ("seek", 1, 0), ("seek", 9, 0), ("seek", 1, 1), ("seek", 0, 2),
         ("seek", -1, 2), ("seek", -1, 0), ("seek", 2, 2), ("tell",), ("truncate", None), ("truncate", 0),
         ("truncate", 2), ("truncate", 9), ("flush",),
         # the explicit spelling of "no size" (a third element: pass None itself, not the parameter's default)
         ("read", None, "None"), ("truncate", None, "None"), ("readlines", None)]


def enc_call(i, c):
    n = c[0]
    if n == "read":
        return ["2", str(i), "1", "-" if c[1] is None else str(c[1])]
    if n == "readline":
        return ["2", str(i), "2"] if len(c) == 1 else ["2", str(i), "1", str(c[1])]   # sized: modelled via read on one line below
    if n == "readlines":
        return ["2", str(i), "6"]
    if n == "write":
        return ["2", str(i), "3", tokb(c[1])]
    if n == "writelines":
        return ["2", str(i), "4", tokb(c[1]), tokb(c[2])]
    if n == "seek":
        return ["2", str(i), "5", str(abs(c[1])), "1" if c[1] < 0 else "0", str(c[2])]
    if n == "tell":
        return ["2", str(i), "6"]
    if n == "truncate":
        return ["2", str(i), "7", "-" if c[1] is None else str(c[1])]
    if n == "flush":
        return ["2", str(i), "8"]
    raise ValueError(n)


def enc_steps(content, steps):
    t = [tokb(content)]
    for s in steps:
        if s[0] == "open":
            t += ["1", tok(s[1] + "b")]
        else:
            t += enc_call(s[1], s[2])
    return t


def _rb(x):
    """Returned data of binary and of text handles (text: its utf-8 bytes) in one encoding."""
    return r_bytes(x.encode("utf-8") if isinstance(x, str) else x)


# ------------------------------------------------------------------------------------------
# Buffer objects handed to readinto / readinto1 / write / writelines: every kind of object
# that exports the buffer protocol, also those whose items are wider than one byte (for
# which len() is not the number of bytes).

class _Rec(ctypes.Structure):
    _fields_ = [("magic", ctypes.c_uint32), ("size", ctypes.c_uint16)]      # 8 bytes with padding


# kind -> (item size in bytes, writable)
BUF_KINDS = [("bytes", 1, False), ("bytearray", 1, True), ("mv", 1, True), ("mvro", 1, False),
             ("mvH", 2, True), ("mvI", 4, True), ("arrB", 1, True), ("arrH", array.array("H").itemsize, True),
             ("arrI", array.array("I").itemsize, True), ("ctarrH", 2, True), ("ctstruct", ctypes.sizeof(_Rec), True),
             ("mmap", 1, True)]
BUF_ITEM = dict((k, i) for k, i, _w in BUF_KINDS)
BUF_FILL = 0xAA


def make_buf(kind, initial):
    """(the object to hand to the file method, thunk giving its bytes afterwards, cleanup)."""
    initial = bytes(initial)
    nothing = lambda: None
    if kind == "bytes":
        return initial, (lambda: initial), nothing
    if kind == "mvro":
        return memoryview(initial), (lambda: initial), nothing
    if kind == "bytearray":
        b = bytearray(initial)
        return b, (lambda: bytes(b)), nothing
    if kind in ("mv", "mvH", "mvI"):
        b = bytearray(initial)
        m = memoryview(b)
        if kind != "mv":
            m = m.cast(kind[2])
        return m, (lambda: bytes(b)), m.release
    if kind in ("arrB", "arrH", "arrI"):
        a = array.array(kind[3])
        a.frombytes(initial)
        return a, a.tobytes, nothing
    if kind == "ctarrH":
        a = (ctypes.c_uint16 * (len(initial) // 2)).from_buffer_copy(initial)
        return a, (lambda: bytes(bytearray(a))), nothing
    if kind == "ctstruct":
        n = len(initial) // ctypes.sizeof(_Rec)
        a = _Rec.from_buffer_copy(initial) if n == 1 else (_Rec * n).from_buffer_copy(initial)
        return a, (lambda: bytes(bytearray(a))), nothing
    if kind == "mmap":
        m = mmap.mmap(-1, len(initial))
        m[:] = initial
        return m, (lambda: m[:]), m.close
    raise ValueError(kind)


def do_call(f, c):
    n = c[0]
    text = isinstance(f, io.TextIOBase)
    try:
        if n in ("readinto", "readinto1"):
            # c = (method, buffer kind, size in bytes); result: count / bytes of the buffer afterwards.
            # An io object without readinto1 (raw files): readinto is used instead and the result marked '~'.
            obj, dump, done = make_buf(c[1], bytes(bytearray([BUF_FILL])) * c[2])
            try:
                m, mark = getattr(f, n, None), ""
                if m is None and n == "readinto1":
                    m, mark = f.readinto, "~"
                try:
                    k = m(obj)
                except AttributeError:
                    if n == "readinto1":
                        return "absent"
                    raise
                return mark + r_int(k) + "/" + r_bytes(dump())
            finally:
                done()
        if n == "writebuf":
            obj, dump, done = make_buf(c[1], c[2])
            try:
                return r_int(f.write(obj))
            finally:
                done()
        if n == "writelinesbuf":
            bufs = [make_buf(c[1], x) for x in c[2:]]
            try:
                f.writelines([b[0] for b in bufs])
                return "U"
            finally:
                for b in bufs:
                    b[2]()
        if n == "read":
            r = (f.read(None) if len(c) > 2 else f.read()) if c[1] is None else f.read(c[1])
            return "b" + _rb(r)
        if n == "readline":
            return "b" + _rb(f.readline() if len(c) == 1 else f.readline(c[1]))
        if n == "readlines":
            return "[" + ",".join(_rb(x) for x in f.readlines(c[1])) + "]"
        if n == "write":
            return r_int(f.write(c[1].decode("utf-8") if text else c[1]))
        if n == "writelines":
            f.writelines([x.decode("utf-8") if text else x for x in (c[1], c[2])])
            return "U"
        if n == "seek":
            return r_int(f.seek(c[1], c[2]))
        if n == "tell":
            return r_int(f.tell())
        if n == "truncate":
            return r_int((f.truncate(None) if len(c) > 2 else f.truncate()) if c[1] is None else f.truncate(c[1]))
        if n == "flush":
            f.flush()
            return "U"
    except Exception:
        return "rejected"
    raise ValueError(n)


def run_real(open_fn, read_back, steps, fs_fn=None, tick=None, watch=None):
    """`watch` (seconds): a step that takes longer is recorded as HANG and nothing more is called (FTP kinds)."""
    if watch is not None:
        return _run_watched(open_fn, read_back, steps, fs_fn, watch)
    handles = []
    res = []
    for k, s in enumerate(steps):
        if tick is not None:
            tick(k)
        if s[0] == "fs":
            # a call on the filesystem itself (getsize / getinfo) between file-object calls
            try:
                res.append(r_int(fs_fn(s[1])))
            except Exception:
                res.append("rejected")
        elif s[0] == "open":
            try:
                handles.append(open_fn(s[1] + "b"))
                res.append("U")
            except Exception:
                handles.append(None)
                res.append("rejected")
        else:
            h = handles[s[1]] if s[1] < len(handles) else None
            res.append("rejected" if h is None else do_call(h, s[2]))
    if tick is not None:
        tick(len(steps))
    pos = []
    for h in handles:
        try:
            pos.append(h.tell())
        except Exception:
            pos.append(-1)
    for h in handles:
        try:
            h.close()
        except Exception:
            pass
    return "[" + ";".join(res) + "]#" + r_bytes(read_back()) + "#" + r_list(r_int, pos)


def _run_watched(open_fn, read_back, steps, fs_fn, watch):
    """run_real with a watchdog around every call: [results..., HANG] and no further calls once one is stuck."""
    handles = []
    res = []
    for s in steps:
        try:
            with _Watchdog(watch):
                if s[0] == "fs":
                    try:
                        res.append(r_int(fs_fn(s[1])))
                    except Exception:
                        res.append("rejected")
                elif s[0] == "open":
                    handles.append(None)
                    try:
                        handles[-1] = open_fn(s[1] + "b")
                        res.append("U")
                    except Exception:
                        res.append("rejected")
                else:
                    h = handles[s[1]] if s[1] < len(handles) else None
                    res.append("rejected" if h is None else do_call(h, s[2]))
        except _Hang:
            res.append("HANG")
            break
    hung = res[-1:] == ["HANG"]
    pos = []
    for h in handles:
        try:
            with _Watchdog(watch):
                pos.append(-1 if hung or h is None else h.tell())
        except (Exception, _Hang):
            pos.append(-1)
    for h in handles:
        try:
            with _Watchdog(watch):
                if h is not None:
                    h.close()
        except (Exception, _Hang):
            pass
    return "[" + ";".join(res) + "]#" + r_bytes(read_back()) + "#" + r_list(r_int, pos)


def mem_case(content, steps):
    from fs.memoryfs import MemoryFS
    m = MemoryFS()
    m.writebytes("f", content)
    return run_real(lambda mode: m.openbin("f", mode), lambda: m.readbytes("f"), steps)


def fileio_case(content, steps, d):
    p = os.path.join(d, "f")
    with open(p, "wb") as fh:
        fh.write(content)

    def rb():
        with open(p, "rb") as fh:
            return fh.read()
    return run_real(lambda mode: io.open(p, mode, buffering=0), rb, steps)


def backend_case(kind, content, steps, d):
    from fs.memoryfs import MemoryFS
    from fs.osfs import OSFS
    if kind == "osfs":
        root = os.path.join(d, "os")
        os.makedirs(root, exist_ok=True)
        o = OSFS(root)
        o.writebytes("f", content)
        return run_real(lambda mode: o.openbin("f", mode, buffering=0), lambda: o.readbytes("f"), steps)
    if kind == "memopen":
        m = MemoryFS()
        m.writebytes("f", content)
        return run_real(lambda mode: m.open("f", mode, buffering=-1), lambda: m.readbytes("f"), steps)
    if kind == "submem":
        m = MemoryFS()
        s = m.makedir("d")
        s.writebytes("f", content)
        return run_real(lambda mode: s.openbin("f", mode), lambda: m.readbytes("d/f"), steps)
    if kind in ("zip", "tar"):
        from fs.zipfs import ZipFS
        from fs.tarfs import TarFS
        src = MemoryFS()
        src.writebytes("f", content)
        buf = io.BytesIO()
        w = (ZipFS if kind == "zip" else TarFS)(buf, write=True)
        w.writebytes("f", content)
        w.close()
        buf.seek(0)
        r = (ZipFS if kind == "zip" else TarFS)(buf)
        return run_real(lambda mode: r.openbin("f", mode), lambda: r.readbytes("f"), steps)
    raise ValueError(kind)


def cut_out_of_domain(model, other):
    """Seeks to a negative target are outside the compared domain (BytesIO clamps, FileIO
    rejects): compare only the results before the first such step."""
    m = model.split("#")[0][1:-1].split(";")
    o = other.split("#")[0][1:-1].split(";")
    return m, o


# ------------------------------------------------------------------------------------------
# Systematic seek-boundary block: (position class) x (whence) x (target class) for every
# file-object kind, also after interleaved calls on a second handle / on the filesystem.
# Oracle: the io object CPython itself gives for the same mode on a temp file holding the
# same initial content (never the library).

# kind -> (reference io layer, archive member?)
B_KINDS = [
    ("mem", "raw", False),        # MemoryFS.openbin -> _MemoryFile
    ("submem", "raw", False),     # SubFS(MemoryFS).openbin
    ("memraw", "raw", False),     # MemoryFS.open('..b', buffering=-1) -> RawWrapper(_MemoryFile)
    ("membuf", "buf", False),     # MemoryFS.open('..b', buffering=3) -> Buffered*(RawWrapper(_MemoryFile))
    ("memtext", "text", False),   # MemoryFS.open('..') -> TextIOWrapper(RawWrapper(_MemoryFile))
    ("osfs", "raw", False),       # OSFS.openbin(buffering=0)
    ("osfsbuf", "buf", False),    # OSFS.openbin(buffering=3)
    ("osfstext", "text", False),  # OSFS.open('..')
    ("zipw", "bufdef", False),    # ZipFS(write=True).openbin (files of the archive being written; WrapFS.openbin
                                  # does not forward `buffering`, so the reference is default-buffered io.open)
    ("zip", "raw", True),         # ZipFS.openbin -> _ZipExtFile
    ("zipraw", "raw", True),      # ZipFS.open('rb') -> RawWrapper(_ZipExtFile)
    ("zipbuf", "buf", True),      # ZipFS.open('rb', buffering=3) -> BufferedReader(RawWrapper(_ZipExtFile))
    ("ziptext", "text", True),    # ZipFS.open('r') -> TextIOWrapper(RawWrapper(_ZipExtFile))
    ("tar", "raw", True),         # TarFS.openbin -> RawWrapper(tarfile member)
    ("tarraw", "raw", True),
    ("tarbuf", "buf", True),
    ("tartext", "text", True),
]
# FTPFS file objects (only when the loop-back server of harness/ftpserver.py starts): kind -> reference io layer
B_FTP_KINDS = [
    ("ftp", "raw", False),        # FTPFS.openbin -> FTPFile (MLST/MLSD server)
    ("ftplist", "raw", False),    # the same on a server without MLST/MLSD (sizes come from the LIST parser)
    ("ftpbuf", "buf", False),     # FTPFS.open('..b', buffering=3) -> Buffered*(RawWrapper(FTPFile))
    ("ftptext", "text", False),   # FTPFS.open('..') -> TextIOWrapper(RawWrapper(FTPFile))
]
# sequences per kind (quick, thorough), on top of the always-complete "seek that does not move" class; every call is
# several round trips to the server
FTP_BUDGET = {"ftp": (400, 3000), "ftplist": (120, 1000), "ftpbuf": (150, 1500), "ftptext": (150, 1500)}
FTP_SAMEPOS_WHOLE = ("ftp",)                       # quick: the other kinds draw half of their budget from that class
FTP_BUFFER_BUDGET = {"ftp": (120, 800)}          # buffer-type block: raw FTPFile only
FTP_CALL_TIMEOUT = 1.0                             # seconds; a call that takes longer is recorded as HANG
FTP_THREEWAY = (100, 400)                          # random call sequences of the three-way comparison
B_BUF = 3
B_WHENCE = (0, 1, 2)
_ARCHIVES = {}


def b_ref_open(layer, p):
    if layer == "raw":
        return lambda mode: io.open(p, mode, buffering=0)
    if layer == "buf":
        return lambda mode: io.open(p, mode, buffering=B_BUF)
    if layer == "bufdef":
        return lambda mode: io.open(p, mode)
    return lambda mode: io.open(p, mode.replace("b", ""), encoding="utf-8", newline="")


def b_ref_case(layer, content, steps, d):
    p = os.path.join(d, "bref")
    with open(p, "wb") as fh:
        fh.write(content)

    def rb():
        with open(p, "rb") as fh:
            return fh.read()
    return run_real(b_ref_open(layer, p), rb, steps, fs_fn=lambda which: os.stat(p).st_size)


def b_fs_fn(fsobj, path):
    def call(which):
        if which == "getsize":
            return fsobj.getsize(path)
        return fsobj.getinfo(path, namespaces=["details"]).size
    return call


def b_archive(kind, content):
    key = (kind[:3], content)
    if key not in _ARCHIVES:
        from fs.zipfs import ZipFS
        from fs.tarfs import TarFS
        buf = io.BytesIO()
        w = (ZipFS if key[0] == "zip" else TarFS)(buf, write=True)
        w.writebytes("f", content)
        w.close()
        _ARCHIVES[key] = buf.getvalue()
    return _ARCHIVES[key]


class _Hang(BaseException):
    pass


class _Watchdog(object):
    """Raises _Hang in the main thread when the block takes longer than `seconds` (no-op in other threads)."""

    def __init__(self, seconds):
        self.seconds = seconds

    def _fire(self, *_a):
        raise _Hang()

    def __enter__(self):
        import signal
        import threading
        self.on = threading.current_thread() is threading.main_thread()
        if self.on:
            self.old = signal.signal(signal.SIGALRM, self._fire)
            signal.setitimer(signal.ITIMER_REAL, self.seconds)

    def __exit__(self, *_a):
        import signal
        if self.on:
            signal.setitimer(signal.ITIMER_REAL, 0)
            signal.signal(signal.SIGALRM, self.old)
        return False


class _FtpBox(object):
    """An FTPFS on a loop-back server of its own (harness/ftpserver.py); close() stops the server."""

    def __init__(self, variant):
        import ftpserver
        self.fs, self.root, self.close = ftpserver.make(variant)
        self.srv = self.close.server


def b_real_case(kind, content, steps, d, cache):
    """Run the steps on the real file objects of one kind."""
    from fs.memoryfs import MemoryFS
    from fs.osfs import OSFS
    text = lambda mode: mode.replace("b", "")
    if kind.startswith("mem") or kind == "submem":
        m = MemoryFS()
        if kind == "submem":
            s = m.makedir("d")
            s.writebytes("f", content)
            return run_real(lambda mode: s.openbin("f", mode), lambda: m.readbytes("d/f"), steps, b_fs_fn(s, "f"))
        m.writebytes("f", content)
        opener = {"mem": lambda mode: m.openbin("f", mode),
                  "memraw": lambda mode: m.open("f", mode, buffering=-1),
                  "membuf": lambda mode: m.open("f", mode, buffering=B_BUF),
                  "memtext": lambda mode: m.open("f", text(mode))}[kind]
        return run_real(opener, lambda: m.readbytes("f"), steps, b_fs_fn(m, "f"))
    if kind.startswith("osfs") or kind == "zipw":
        if kind not in cache:
            if kind == "zipw":
                from fs.zipfs import ZipFS
                cache[kind] = ZipFS(io.BytesIO(), write=True)
            else:
                root = os.path.join(d, "b_" + kind)
                os.makedirs(root, exist_ok=True)
                cache[kind] = OSFS(root)
        o = cache[kind]
        o.writebytes("f", content)
        opener = {"osfs": lambda mode: o.openbin("f", mode, buffering=0),
                  "zipw": lambda mode: o.openbin("f", mode),
                  "osfsbuf": lambda mode: o.openbin("f", mode, buffering=B_BUF),
                  "osfstext": lambda mode: o.open("f", text(mode))}[kind]
        return run_real(opener, lambda: o.readbytes("f"), steps, b_fs_fn(o, "f"))
    if kind.startswith("ftp"):
        if kind not in cache:
            cache[kind] = _FtpBox("nomlsd" if kind == "ftplist" else "normal")
        box = cache[kind]
        f = box.fs
        box.srv.settle()
        fpath = os.path.join(box.root, "f")
        with open(fpath, "wb") as fh:
            fh.write(content)

        def rb():        # the server's storage, once every transfer has ended
            box.srv.settle()
            with open(fpath, "rb") as fh:
                return fh.read()
        opener = {"ftp": lambda mode: f.openbin("f", mode),
                  "ftplist": lambda mode: f.openbin("f", mode),
                  "ftpbuf": lambda mode: f.open("f", mode, buffering=B_BUF),
                  "ftptext": lambda mode: f.open("f", text(mode))}[kind]
        out = run_real(opener, rb, steps, b_fs_fn(f, "f"), watch=FTP_CALL_TIMEOUT)
        if "HANG" in out:
            cache.pop(kind).close()      # whatever the stuck handles hold goes with this server
        return out
    from fs.zipfs import ZipFS
    from fs.tarfs import TarFS
    r = (ZipFS if kind.startswith("zip") else TarFS)(io.BytesIO(b_archive(kind, content)))
    sub = kind[3:]
    opener = {"": lambda mode: r.openbin("f", mode),
              "raw": lambda mode: r.open("f", mode),
              "buf": lambda mode: r.open("f", mode, buffering=B_BUF),
              "text": lambda mode: r.open("f", text(mode))}[sub]
    try:
        return run_real(opener, lambda: r.readbytes("f"), steps, b_fs_fn(r, "f"))
    finally:
        r.close()


# ------------------------------------------------------------------------------------------
# FTPFS file objects (kinds ftp, ftplist, ftpbuf, ftptext; loop-back server of harness/ftpserver.py).
# The oracle is the io object, as for every other kind.  fs.ftpfs.FTPFile is a stream over FTP transfers and
# deviates from io in ways that are properties of the UNCHANGED library; so that the block can still notice anything
# else, each such deviation is written down as a RULE below and a disagreement with io counts as a known finding
# only if it is reproduced exactly (every result, final bytes, final positions) by `_FtpModelFile`: an io-like file
# over an in-memory "server" that departs from io.FileIO by these rules and by nothing else.  The model says which
# rules it used; each is a known-finding signature of its own.  Two rules describe calls whose outcome depends on
# timing (a transfer in the other direction is still open on the control connection): nothing is compared from such
# a call onwards.  A disagreement with io that the model does not reproduce is a violation.

FTP_RULES = {
    "stor0-truncates":
        "a write that starts at offset 0 through an update handle (r+, or w+ after seek(0)) discards the rest of the "
        "file (STOR with REST 0 truncates; io overwrites in place)",
    "read-past-eof":
        "read at a position beyond end of file raises ftplib.error_perm 554 (io: returns b'')",
    "write-past-eof":
        "write at a position beyond end of file raises ftplib.error_perm 554 and writes nothing (io: zero-fills "
        "the gap)",
    "unflushed-invisible":
        "written bytes reach the file only when the handle seeks or is closed, flush() does nothing: reads through "
        "other handles, getsize/getinfo and truncate() of the writing handle itself do not see them",
    "write-after-read-noseek":
        "write() directly after read() on an update handle (no seek between) sends STOR on a control connection "
        "whose RETR is still pending: ftplib.error_reply '226 Transfer complete' or success, depending on timing "
        "(io: writes at the current position); nothing is compared from that call on",
    "read-after-write-noseek":
        "read() directly after write() on an update handle (no seek between) sends RETR on a control connection "
        "whose STOR is still open; outcome depends on timing (io: reads at the current position); nothing is "
        "compared from that call on",
    "truncate-pending-write":
        "truncate() rewrites the file through a second connection while the handle's own written bytes are still "
        "in flight: they land afterwards at their offset (beyond the new size: with a zero-filled gap)",
    "seek-negative-clamped":
        "seek(n, 1) / seek(n, 2) to a negative target position returns 0 (as io.BytesIO does; io.FileIO raises OSError)",
    "read-stream-snapshot":
        "reads continue the RETR stream opened by the handle's first read: bytes written or truncated afterwards "
        "(truncate() of the same handle, other handles) are not seen until the handle seeks",
}
FTP_RACY = ("write-after-read-noseek", "read-after-write-noseek")


def ftp_signature(rule):
    return "FTPFS file object vs io: " + FTP_RULES[rule]


# buffer-type block on FTPFile: (method, buffer kind) pairs that disagree with io on the unchanged library
FTP_BUFFER_PENDING = []
# registered in known_findings.json (C16, one entry per rule) on 2026-10-01; a rule signature that is not registered
# there is a violation again (nothing is pending):
FTP_RULE_SIGNATURES = [ftp_signature(_r) for _r in sorted(FTP_RULES)] + FTP_BUFFER_PENDING


class _FtpSrv(object):
    """The file as the server stores it, plus what the model run used."""

    def __init__(self, content):
        self.data = bytes(content)
        self.handles = []
        self.fired = []
        self.step = 0
        self.cut = None
        self.version = 0          # counts the changes of the stored file

    def tick(self, k):
        self.step = k

    def fire(self, rule):
        if rule not in self.fired:
            self.fired.append(rule)

    def racy(self, rule):
        self.fire(rule)
        if self.cut is None:
            self.cut = self.step
        raise IOError("outcome depends on timing")

    def in_flight(self):
        return any(h.wc is not None and len(h.wc[2]) for h in self.handles)

    def observe(self):
        """Somebody looks at the stored file."""
        if self.in_flight():
            self.fire("unflushed-invisible")
        return self.data


class _FtpModelFile(io.RawIOBase):
    def __init__(self, srv, mode):
        io.RawIOBase.__init__(self)
        m = mode.replace("b", "").replace("t", "")
        self.srv, self.m = srv, m
        self.reading = "r" in m or "+" in m
        self.writing = m != "r"
        self.appending = "a" in m
        self.pos = 0
        self.rc = None            # [bytes of the RETR stream, consumed]
        self.wc = None            # [STOR/APPE, offset, bytes sent]
        self.truncated_once = False
        srv.handles.append(self)
        if "w" in m or "x" in m:          # truncated when it is opened
            if srv.data:
                srv.version += 1
            srv.data = b""
        if self.appending:                # positioned at the end of what is stored
            self.pos = len(srv.observe())

    def readable(self):
        return self.reading

    def writable(self):
        return self.writing

    def seekable(self):
        return True

    def tell(self):
        return self.pos

    def _commit(self):
        if self.wc is not None:
            kind, off, buf, version = self.wc
            self.wc = None
            if buf and version != self.srv.version:
                self.srv.fire("unflushed-invisible")      # the file changed while these bytes were in flight
            if buf:
                self.srv.version += 1
            if kind == "APPE":
                self.srv.data = self.srv.data + bytes(buf)
            elif buf:
                d = self.srv.data
                self.srv.data = d[:off].ljust(off, b"\0") + bytes(buf) + d[off + len(buf):]

    def close(self):
        if not self.closed:
            try:
                self._commit()
                self.rc = None
            finally:
                io.RawIOBase.close(self)

    def read(self, size=-1):
        if not self.reading:
            raise IOError("File not open for reading")
        srv = self.srv
        if self.wc is not None:
            srv.racy("read-after-write-noseek")
        if self.rc is None:
            if self.pos > len(srv.data):
                srv.fire("read-past-eof")
                raise IOError("554 REST position > file size")
            self.rc = [srv.observe()[self.pos:], 0]
        if size is None:
            size = -1
        stream, k = self.rc
        chunk = stream[k:] if size < 0 else stream[k:k + size]
        now = srv.observe()
        now = now[self.pos:] if size < 0 else now[self.pos:self.pos + size]
        if chunk != now:
            srv.fire("read-stream-snapshot")
        self.rc[1] += len(chunk)
        self.pos += len(chunk)
        return chunk

    def readinto(self, b):
        mv = memoryview(b)
        if mv.readonly:
            raise TypeError("read-only buffer")
        data = self.read(mv.nbytes)
        return io.BytesIO(data).readinto(b)

    def _lines(self, size=None):
        line, byte = [], b"1"
        if size is None or size < 0:
            while byte:
                byte = self.read(1)
                line.append(byte)
                if byte == b"\n" or (not byte and len(line) > 1):
                    yield b"".join(line)
                    del line[:]
        else:
            while byte and size:
                byte = self.read(1)
                size -= len(byte)
                line.append(byte)
                if byte == b"\n" or (byte and not size) or (not byte and len(line) > 1):
                    yield b"".join(line)
                    del line[:]

    def readline(self, size=None):
        for line in self._lines(size):
            return line
        return b""

    def readlines(self, hint=-1):
        lines, size = [], 0
        for line in self._lines():
            lines.append(line)
            size += len(line)
            if hint is not None and 0 < hint < size:
                break
        return lines

    def write(self, data):
        if not self.writing:
            raise IOError("File not open for writing")
        data = memoryview(data).tobytes()
        if not data:
            return 0
        srv = self.srv
        if self.rc is not None:
            srv.racy("write-after-read-noseek")
        if self.wc is None:
            if self.appending:
                self.pos = len(srv.observe())         # appended data goes to the end of what is stored
                self.wc = ["APPE", None, bytearray(), srv.version]
            else:
                if self.pos > len(srv.data):
                    srv.fire("write-past-eof")
                    raise IOError("554 REST position > file size")
                if self.pos == 0:
                    if srv.data:
                        srv.fire("stor0-truncates")
                    if srv.data:
                        srv.version += 1
                    srv.data = b""
                    self.truncated_once = True
                self.wc = ["STOR", self.pos, bytearray(), srv.version]
        self.wc[2] += data
        self.pos += len(data)
        return len(data)

    def writelines(self, lines):
        if not self.writing:
            raise IOError("File not open for writing")
        data = bytearray()
        for line in lines:
            data.extend(memoryview(line).tobytes())
        self.write(data)

    def truncate(self, size=None):
        srv = self.srv
        if not self.writing:
            raise IOError("File not open for writing")
        if size is None:
            size = self.pos
        if self.wc is not None and len(self.wc[2]):
            srv.fire("truncate-pending-write")
        srv.data = srv.observe()[:size].ljust(size, b"\0")
        srv.version += 1
        return size

    def seek(self, pos, whence=0):
        whence = int(whence)
        if whence not in (0, 1, 2):
            raise ValueError("invalid value for whence")
        if whence == 0 and pos < 0:
            raise ValueError("negative seek position")
        self._commit()                    # a pending upload is completed first
        if whence == 0:
            new = pos
        elif whence == 1:
            new = self.pos + pos
        else:
            new = len(self.srv.observe()) + pos
        if new < 0:
            self.srv.fire("seek-negative-clamped")
        self.pos = max(0, new)
        self.rc = None
        return self.pos


def ftp_model_case(kind, content, steps):
    """(what run_real would give for the model, rules used, index of the first step that is not comparable)."""
    from fs import iotools
    srv = _FtpSrv(content)
    text = lambda mode: mode.replace("b", "")
    opener = {"ftp": lambda mode: _FtpModelFile(srv, mode),
              "ftplist": lambda mode: _FtpModelFile(srv, mode),
              "ftpbuf": lambda mode: iotools.make_stream("f", _FtpModelFile(srv, mode), mode=mode, buffering=B_BUF,
                                                         encoding="utf-8", errors=None, newline=""),
              "ftptext": lambda mode: iotools.make_stream("f", _FtpModelFile(srv, text(mode)), mode=text(mode),
                                                          buffering=-1, encoding="utf-8", errors=None, newline="")}[kind]
    out = run_real(opener, lambda: srv.data, steps, lambda which: len(srv.observe()), tick=srv.tick)
    return out, list(srv.fired), srv.cut


def _results(out):
    return out.split("#")[0][1:-1].split(";")


def ftp_domain(kind, content, steps):
    """(index of the first call whose outcome depends on timing, the rules saying so) or (None, [])."""
    _mout, fired, cut = ftp_model_case(kind, content, steps)
    if cut is None or cut >= len(steps):
        return None, []
    return cut, [r for r in fired if r in FTP_RACY]


def ftp_explain(kind, content, steps, got, dom=None):
    """The rules that account for `got` (which differs from what io gives), or None if the model of the known
    deviations does not reproduce it.  `dom`: compare only the results of the steps before this index."""
    if got.startswith("EXC:"):
        return None
    mout, fired, cut = ftp_model_case(kind, content, steps)
    lim = min(x for x in (dom, cut, len(steps) + 1) if x is not None)
    if not fired:
        return None
    if lim > len(steps):
        return fired if got == mout else None
    return fired if _results(got)[:lim] == _results(mout)[:lim] else None


def b_prefixes(mode, size0, archive):
    """Ways of reaching each class of current position (0, middle, EOF, past EOF; by seek,
    by a short read, by readline, by read-to-EOF, by write, by truncate below the position)."""
    readable = "r" in mode or "+" in mode
    writable = mode != "r"
    out = [("start", []), ("end_seek", [("seek", 0, 2)])]
    if size0 >= 2:
        out.append(("mid_seek", [("seek", size0 // 2, 0)]))
    if not archive:
        out.append(("past_eof", [("seek", size0 + 2, 0)]))
    if readable:
        out += [("short_read", [("read", 2)]), ("readline", [("readline",)]),
                ("readline2", [("readline",), ("readline",)]), ("eof_read", [("read", None)])]
    if writable:
        out += [("after_write", [("write", b"ab")]), ("after_truncate", [("seek", 3, 0), ("truncate", 1)])]
    return out


def b_inters(mode, archive, layer):
    """Calls interleaved between reaching the position and the boundary seek: on a second
    handle of the same file, and on the filesystem (getsize/getinfo move shared cursors)."""
    out = [("h2_read", [("open", "r"), ("call", 1, ("read", 2))]),
           ("h2_seek_end", [("open", "r"), ("call", 1, ("seek", 0, 2)), ("call", 1, ("tell",))]),
           ("getsize", [("fs", "getsize")]),
           ("getinfo", [("fs", "getinfo")]),
           ("h2_read_getsize", [("open", "r"), ("call", 1, ("readline",)), ("fs", "getsize")])]
    if not archive:
        out += [("h2_overwrite", [("open", "r+"), ("call", 1, ("seek", 1, 0)), ("call", 1, ("write", b"ZZ")),
                                  ("call", 1, ("flush",))]),
                ("h2_append", [("open", "a"), ("call", 1, ("write", b"TT")), ("call", 1, ("flush",))])]
    return out


def b_probe_state(layer, content, head, d, memo):
    """(position of handle 0, file size) the io reference is in after `head`."""
    key = (layer, content, repr(head))
    if key not in memo:
        p = os.path.join(d, "bprobe")
        with open(p, "wb") as fh:
            fh.write(content)
        opener = b_ref_open(layer, p)
        handles = []
        try:
            for s in head:
                if s[0] == "open":
                    try:
                        handles.append(opener(s[1] + "b"))
                    except Exception:
                        handles.append(None)
                elif s[0] == "call" and handles[s[1]] is not None:
                    do_call(handles[s[1]], s[2])
            if handles[0] is None:
                memo[key] = None
            else:
                pos = handles[0].tell()
                handles[0].flush()
                memo[key] = (pos, os.stat(p).st_size)
        except Exception:
            memo[key] = None
        finally:
            for h in handles:
                try:
                    h.close()
                except Exception:
                    pass
    return memo[key]


def b_targets(pos, size, archive):
    """Boundary targets: exactly 0 / the current position / EOF and one before/after each
    (plus well past EOF); negative targets, and for archive members targets past EOF, are
    outside the compared domain (DESIGN 9.6)."""
    t = {0, 1, pos - 1, pos, pos + 1, size - 1, size, size + 1, size + 3}
    return sorted(x for x in t if x >= 0 and not (archive and x > size))


def boundary_cases(kind, layer, archive, tier, seed, d, memo):
    """Step sequences of the boundary block for one kind (generated against the io reference
    state, so that the offsets hit the boundaries exactly)."""
    rnd = random.Random("%s-%d-bound" % (kind, seed))
    thorough = tier == "thorough"
    big = (b"0123456789abcde\n" * 600)[:9001]   # larger than the zip / io buffer sizes (thorough only)
    contents = [b"abc\ndef", b"l1\nl2\n\nl4", b""] + ([b"x", b"0123456789", big] if thorough else [])
    probe = [("tell",), ("read", 2), ("tell",), ("readline",), ("tell",)]
    wprobe = [("write", b"Q"), ("tell",), ("seek", 0, 0), ("read", None)]
    out = []
    tags = []       # per sequence: (index of the content, no interleaving?, seek target == current position?)
    stats = dict(combos=0, interleaved=0, _tags=tags)
    for ci, content in enumerate(contents):
        for mode in (["r"] if archive else ["r", "r+"] if content is big else
                     ["r", "r+", "a+"] if not thorough and content == b"l1\nl2\n\nl4" else MODES):
            size0 = 0 if "w" in mode else len(content)
            inters = b_inters(mode, archive, layer)
            for pname, prefix in b_prefixes(mode, size0, archive):
                base = [("open", mode)] + [("call", 0, c) for c in prefix]
                variants = [("none", [])]
                if thorough:
                    variants += inters
                else:
                    variants += rnd.sample(inters, 1)
                for iname, inter in variants:
                    head = base + inter
                    st = b_probe_state(layer, content, head, d, memo)
                    if st is None:
                        continue
                    pos, size = st
                    for whence in B_WHENCE:
                        origin = (0, pos, size)[whence]
                        for target in b_targets(pos, size, archive):
                            off = target - origin
                            tail = [("seek", off, whence)] + probe
                            if mode != "r" and (thorough or iname == "none"):
                                out.append((content, head + [("call", 0, c) for c in [("seek", off, whence)] + wprobe]))
                                tags.append((ci, iname == "none", target == pos))
                            out.append((content, head + [("call", 0, c) for c in tail]))
                            tags.append((ci, iname == "none", target == pos))
                            stats["combos"] += 1
                            stats["interleaved"] += iname != "none"
    return out, stats


# ------------------------------------------------------------------------------------------
# Buffer-type block: every binary file-object kind x every buffer-taking method (readinto,
# readinto1, write, writelines) x every kind of buffer object, at several positions (start,
# middle, after a read, less data left than room in the buffer, EOF), followed by tell, read()
# and tell.  Oracle: the io object of the same layer on a temp file (count returned, bytes of
# the buffer afterwards, position, what the next read returns, final file bytes).

BUF_CONTENT = bytes(bytearray(range(1, 41)))       # 40 distinct bytes, a newline among them
BUF_METHODS = ["readinto", "readinto1", "writebuf", "writelinesbuf"]


def buf_payload(nbytes, salt):
    return bytes(bytearray((0x41 + (i * 7 + salt) % 26) for i in range(nbytes)))


def buffer_cases(kind, layer, archive, tier, seed):
    rnd = random.Random("%s-%d-buffers" % (kind, seed))
    thorough = tier == "thorough"
    contents = [BUF_CONTENT] + ([b"abc\ndef", b""] if thorough else [])
    modes = ["r"] if archive else (MODES if thorough else ["r", "r+", "a+", "w"])
    out = []
    stats = dict(buffer_sequences=0, wide_item_buffers=0)
    for content in contents:
        for mode in modes:
            size0 = 0 if "w" in mode else len(content)
            readable = "r" in mode or "+" in mode
            prefixes = [[], [("seek", min(3, size0), 0)], [("seek", max(0, size0 - 3), 0)], [("seek", size0, 0)]]
            if readable:
                prefixes.append([("read", 2)])
            for method, (bk, item, _w) in itertools.product(BUF_METHODS, BUF_KINDS):
                sizes = [n for n in (0, 5, 8, 24) if n % item == 0 and not (n == 0 and bk == "mmap")]
                if method.startswith("write") and "a" in mode:
                    sizes = [n for n in sizes if n]      # zero-length append: outside the compared domain (see in_domain)
                if thorough:
                    combos = list(itertools.product(prefixes, sizes))
                else:
                    # always the largest buffer, at two positions; plus one more (position, size) drawn from the seed
                    combos = [(p, sizes[-1]) for p in rnd.sample(prefixes, 2)] + [(rnd.choice(prefixes), rnd.choice(sizes))]
                for prefix, nbytes in combos:
                    if method in ("readinto", "readinto1"):
                        call = (method, bk, nbytes)
                    elif method == "writebuf":
                        call = (method, bk, buf_payload(nbytes, 1))
                    else:
                        call = (method, bk, buf_payload(nbytes, 2), buf_payload(nbytes, 3))
                    steps = [("open", mode)] + [("call", 0, c) for c in prefix + [call, ("tell",), ("read", None), ("tell",)]]
                    out.append((content, steps))
                    stats["buffer_sequences"] += 1
                    stats["wide_item_buffers"] += item > 1
    return out, stats


# ------------------------------------------------------------------------------------------
# Chunk-size block: every size-taking file-object call with sizes at and around the transfer block sizes
# (fs.constants.DEFAULT_CHUNK_SIZE, which FTPFile.read/write/truncate loop over, and ftplib's 8192): truncate(n)
# growing / shrinking the file by c-1, c, c+1, 2c+5; read(n) and seek targets across the boundary on contents of
# c-1, c, c+1, 2c+5 bytes; write() of ONE piece of c-1, c, c+1, 2c+5 bytes followed by tell(), seek(0, 1), another
# write, seek(0, 1), truncate().  Oracle: the io object of the same layer.  A few dozen sequences per kind.

CHUNK_KINDS = ("ftp", "ftpbuf", "ftptext", "ftplist", "mem", "membuf", "memtext", "osfs", "osfsbuf", "osfstext", "submem")
CHUNK_FTP_QUICK = {"ftp": None, "ftpbuf": 14, "ftptext": 14, "ftplist": 8}      # None: all sequences


def chunk_pattern(n, salt=0):
    """n ASCII bytes with a newline now and then (valid in every layer, text included)."""
    unit = bytes(bytearray((0x30 + (i * 7 + salt) % 75) if (i + salt) % 61 else 10 for i in range(977)))
    return (unit * (n // len(unit) + 1))[:n]


def chunk_cases(kind, tier, seed):
    from fs.constants import DEFAULT_CHUNK_SIZE
    out = []
    small = b"abc\ndef"
    for c in (8192, DEFAULT_CHUNK_SIZE):
        for d in (c - 1, c, c + 1, 2 * c + 5):
            big = chunk_pattern(d, d % 7)
            # truncate: growing / shrinking by d
            out.append((small, [("open", "r+"), ("call", 0, ("truncate", len(small) + d)), ("call", 0, ("tell",)),
                                ("call", 0, ("seek", 0, 2)), ("call", 0, ("seek", len(small) + d - 3, 0)),
                                ("call", 0, ("read", 10)), ("call", 0, ("tell",))]))
            out.append((big + small, [("open", "r+"), ("call", 0, ("seek", 2, 0)), ("call", 0, ("truncate", len(small))),
                                      ("call", 0, ("tell",)), ("call", 0, ("seek", 0, 2)), ("call", 0, ("seek", 0, 0)),
                                      ("call", 0, ("read", None))]))
            # read(n) and seek targets across the boundary
            out.append((big, [("open", "r"), ("call", 0, ("read", c - 1)), ("call", 0, ("tell",)), ("call", 0, ("read", 2)),
                              ("call", 0, ("seek", min(c, d), 0)), ("call", 0, ("read", 3)), ("call", 0, ("tell",)),
                              ("call", 0, ("seek", 0, 0)), ("call", 0, ("read", c + 1)), ("call", 0, ("tell",)),
                              ("call", 0, ("seek", max(0, d - 2), 0)), ("call", 0, ("read", None)), ("call", 0, ("tell",)),
                              ("call", 0, ("seek", 1, 0)), ("call", 0, ("read", d)), ("call", 0, ("tell",))]))
            # one write of d bytes, then position queries, a relative seek, more writes, truncate at the position
            tail = [("call", 0, ("write", big)), ("call", 0, ("tell",)), ("call", 0, ("seek", 0, 1)),
                    ("call", 0, ("write", b"XY")), ("call", 0, ("tell",)), ("call", 0, ("seek", 0, 1)),
                    ("call", 0, ("truncate", None)), ("call", 0, ("tell",)), ("call", 0, ("write", b"Z")),
                    ("call", 0, ("seek", 0, 1)), ("call", 0, ("tell",))]
            out.append((small, [("open", "w")] + tail))
            out.append((small, [("open", "r+"), ("call", 0, ("seek", 0, 2))] + tail))
            out.append((small, [("open", "a")] + tail))
    if kind in CHUNK_FTP_QUICK and tier != "thorough" and CHUNK_FTP_QUICK[kind] is not None:
        out = random.Random("%s-%d-chunks" % (kind, seed)).sample(out, CHUNK_FTP_QUICK[kind])
    return out


def append_cases(kind, tier, seed):
    """Append handles after everything that can move the handle's position or the end of the file WITHOUT a seek right
    before the write: the property says append mode ALWAYS writes at the end, and tell() afterwards is the end.  Every
    position- or size-changing call of CALLS (and a second handle growing / shrinking the file) x {a, a+} x two
    contents, followed by write / tell / relative seek / argument-less truncate / write."""
    out = []
    tail = [("call", 0, ("write", b"Q")), ("call", 0, ("tell",)), ("call", 0, ("seek", 0, 1)), ("call", 0, ("truncate", None)),
            ("call", 0, ("tell",)), ("call", 0, ("write", b"R")), ("call", 0, ("tell",)), ("call", 0, ("seek", 0, 2))]
    movers = [c for c in CALLS if c[0] in ("truncate", "seek", "read", "readline", "readlines")]
    for content in (b"", b"abc\ndef"):
        for mode in ("a", "a+"):
            for c1 in movers:
                # outside the compared domain (see in_domain): readline(0) through a handle that cannot read, seeks to a
                # negative target relative to the position / the end
                if (c1 == ("readline", 0) and "+" not in mode) or (c1[0] == "seek" and c1[1] < 0 and c1[2] in (1, 2)):
                    continue
                out.append((content, [("open", mode), ("call", 0, c1)] + tail))
                out.append((content, [("open", mode), ("call", 0, ("write", b"xy")), ("call", 0, c1)] + tail))
            # the file changes under the open handle through a second one (grown, then shrunk)
            for other in (("write", b"ZZZ"), ("truncate", 1)):
                out.append((content, [("open", mode), ("open", "r+"), ("call", 1, ("seek", 0, 2)), ("call", 1, other),
                                      ("call", 1, ("seek", 0, 1))] + tail))
    if kind.startswith("ftp") and tier != "thorough":
        out = random.Random("%s-%d-append" % (kind, seed)).sample(out, 40 if kind == "ftp" else 12)
    return out


def _count_and_bytes(res):
    k, _, b = res.partition("/")
    return int(k[1:]), ([int(x) for x in b[1:].split(",")] if len(b) > 1 else [])


def buf_same(got, exp):
    """Equality of the observations, except for readinto1 where the io reference object has no such
    method (raw files; marked '~', it ran readinto): there the file object may lack it as well,
    or return what readinto returns, or - being allowed a single raw read - a non-empty prefix of it
    (what follows is then not comparable)."""
    if got == exp:
        return True
    if got.startswith("EXC:"):
        return False
    g, e = got.split("#"), exp.split("#")
    gs, es = g[0][1:-1].split(";"), e[0][1:-1].split(";")
    if len(gs) != len(es):
        return False
    for x, y in zip(gs, es):
        if x == y:
            continue
        if x == "absent" and y == "rejected":
            continue            # neither side did anything
        if y.startswith("~") and not x.startswith("~"):
            if x == "absent":
                return True
            if x == y[1:]:
                continue
            try:
                kx, bx = _count_and_bytes(x)
                ky, by = _count_and_bytes(y[1:])
            except ValueError:
                return False
            return 0 < kx < ky and len(bx) == len(by) and bx[:kx] == by[:kx] and all(v == BUF_FILL for v in bx[kx:])
        return False
    return g[1:] == e[1:]


def boundary_kind(args):
    """The boundary block of one kind (runs in a forked worker: own scratch directory)."""
    kind, layer, archive, tier, seed, d = args
    d = os.path.join(d, "bk_" + kind)
    os.makedirs(d, exist_ok=True)
    bad = []
    memo = {}
    cache = {}
    cases, stats = boundary_cases(kind, layer, archive, tier, seed, d, memo)
    tags = stats.pop("_tags")
    ftp = kind.startswith("ftp")
    rules = {}          # FTP kinds: rule of FTP_RULES -> first disagreement with io it accounts for
    if ftp:
        # the class "seek whose target is the current position" is kept whole (first content, no interleaving); the
        # rest of the block is sampled down to the budget of the kind
        rnd = random.Random("%s-%d-ftp-budget" % (kind, seed))
        core = [i for i, t in enumerate(tags) if t[0] == 0 and t[1] and t[2]]
        budget = FTP_BUDGET[kind][tier == "thorough"]
        if tier != "thorough" and kind not in FTP_SAMEPOS_WHOLE:
            core = sorted(rnd.sample(core, min(len(core), budget // 2)))
        rest = sorted(set(range(len(cases))) - set(core))
        extra = max(0, budget - len(core))
        keep = sorted(core + rnd.sample(rest, min(len(rest), extra)))
        stats.update(same_position_class=len(core), generated=len(cases), explained_by_known_rules=0)
        stats.pop("combos"), stats.pop("interleaved")
        cases = [cases[i] for i in keep]

    def explained(content, steps, got, expect, bufcall=None):
        why = ftp_explain(kind, content, steps, got) if ftp else None
        if why is None:
            return False
        stats["explained_by_known_rules"] += 1
        for r in why:
            rules.setdefault(r, [kind, content.decode("latin-1"), steps_json(steps), got, expect])
        return True

    def domain(content, steps):
        """FTP kinds: the sequence up to (excluding) the first call whose outcome depends on timing."""
        if ftp:
            cut, why = ftp_domain(kind, content, steps)
            if cut is not None:
                stats["cut_at_timing_dependent_call"] = stats.get("cut_at_timing_dependent_call", 0) + 1
                for r in why:
                    rules.setdefault(r, [kind, content.decode("latin-1"), steps_json(steps),
                                         "not executed from step %d on: outcome depends on timing (seen: ftplib."
                                         "error_reply '226 Transfer complete', success, or blocked until the "
                                         "socket timeout)" % cut, "what io does"])
                return steps[:cut]
        return steps
    for content, steps in cases:
        steps = domain(content, steps)
        expect = b_ref_case(layer, content, steps, d)
        try:
            got = b_real_case(kind, content, steps, d, cache)
        except Exception as e:
            got = "EXC:" + type(e).__name__
        if got != expect and not explained(content, steps, got, expect):
            bad.append(("%s handle vs io (seek boundary block)" % kind, (content, steps), got, expect))
    if layer != "text" and (not ftp or kind in FTP_BUFFER_BUDGET):
        bcases, bstats = buffer_cases(kind, layer, archive, tier, seed)
        if ftp:
            n = FTP_BUFFER_BUDGET[kind][tier == "thorough"]
            bcases = random.Random("%s-%d-ftp-buffers" % (kind, seed)).sample(bcases, min(n, len(bcases)))
            bstats = dict(buffer_sequences=len(bcases),
                          wide_item_buffers=sum(BUF_ITEM[st[-4][2][1]] > 1 for _c, st in bcases))
        stats.update(bstats)
        wide_seen = set()
        for content, steps in bcases:
            bi = len(steps) - 4
            call = steps[bi][2]
            steps = domain(content, steps)
            if len(steps) <= bi or (call[0], call[1]) in wide_seen:
                continue        # the buffer call itself is not comparable / this (method, buffer) pair is known by now
            expect = b_ref_case(layer, content, steps, d)
            try:
                got = b_real_case(kind, content, steps, d, cache)
            except Exception as e:
                got = "EXC:" + type(e).__name__
            if ftp and not buf_same(got, expect) and BUF_ITEM[call[1]] > 1:
                wide_seen.add((call[0], call[1]))
            if not buf_same(got, expect) and not explained(content, steps, got, expect, bi):
                bad.append(("%s handle vs io (buffer-type block): %s with a %s buffer" % (kind, call[0], call[1]),
                            (content, steps), got, expect))
        cases = cases + bcases
    if kind in CHUNK_KINDS:
        ccases = chunk_cases(kind, tier, seed)
        stats["chunk_size_sequences"] = len(ccases)
        for content, steps in ccases:
            steps = domain(content, steps)
            expect = b_ref_case(layer, content, steps, d)
            try:
                got = b_real_case(kind, content, steps, d, cache)
            except Exception as e:
                got = "EXC:" + type(e).__name__
            if got != expect and not explained(content, steps, got, expect):
                bad.append(("%s handle vs io (chunk-size block)" % kind, (content, steps), got, expect))
        cases = cases + ccases
    acases = append_cases(kind, tier, seed)
    if archive:
        acases = []     # (members of read archives cannot be opened for appending)
    if layer == "text":
        acases = []     # (text handles: seek/tell cookies and truncate at a cookie are the io text layer's, compared elsewhere)
    stats["append_block_sequences"] = len(acases)
    for content, steps in acases:
        steps = domain(content, steps)
        expect = b_ref_case(layer, content, steps, d)
        try:
            got = b_real_case(kind, content, steps, d, cache)
        except Exception as e:
            got = "EXC:" + type(e).__name__
        if got != expect and not explained(content, steps, got, expect):
            bad.append(("%s handle vs io (append block)" % kind, (content, steps), got, expect))
    cases = cases + acases
    for o in cache.values():
        try:
            o.close()
        except Exception:
            pass
    if ftp:
        stats["known_rules"] = rules
    return kind, bad[:50], len(bad), dict(sequences=len(cases), **stats)


def ftp_ok(report):
    """Whether the FTPFS kinds can run here (the loop-back server starts); recorded for the evidence."""
    if not hasattr(report, "ftp_rules"):
        report.ftp_rules = {}
        try:
            import ftpserver
            report.ftp_available = ftpserver.available()
        except Exception as e:  # noqa
            report.ftp_available = (False, "%s: %s" % (type(e).__name__, e))
    return report.ftp_available[0]


def boundary_block(report, d):
    import multiprocessing
    kinds = (list(B_FTP_KINDS) if ftp_ok(report) else []) + B_KINDS      # the slow (round-trip bound) ones first
    jobs = [(kind, layer, archive, report.tier, report.seed, d) for kind, layer, archive in kinds]
    try:
        pool = multiprocessing.get_context("fork").Pool(min(len(jobs), max(2, (os.cpu_count() or 2) // 2)))
    except Exception:
        pool = None
    if pool is None:
        results = [boundary_kind(j) for j in jobs]
    else:
        try:
            results = pool.map(boundary_kind, jobs, chunksize=1)
        finally:
            pool.terminate()
    bad, cov, total = [], {}, 0
    for kind, b, nbad, stats in results:
        for rule, ex in stats.pop("known_rules", {}).items():
            report.ftp_rules.setdefault(rule, ex)
        bad += b
        stats["disagreements"] = nbad
        cov[kind] = stats
        total += stats["sequences"]
    return bad, cov, total


def explore(tier, seed):
    rnd = random.Random(seed + 16)
    cases = []
    n = 3 if tier == "thorough" else 2
    for content in CONTENTS:
        for mode in MODES:
            for combo in itertools.product(CALLS, repeat=n):
                if tier != "thorough" and rnd.random() > 0.35:
                    continue
                cases.append((content, [("open", mode)] + [("call", 0, c) for c in combo]))
    for _ in range(6000 if tier == "thorough" else 800):
        content = rnd.choice(CONTENTS + [b"0123456789", b"l1\nl2\n\nl4"])
        steps = [("open", rnd.choice(MODES))]
        nh = 1
        for _k in range(rnd.randint(1, 25 if tier == "thorough" else 12)):
            if rnd.random() < 0.12 and nh < 3:
                steps.append(("open", rnd.choice(["r", "r+", "a", "a+", "r", "w"])))
                nh += 1
            else:
                steps.append(("call", rnd.randrange(nh), rnd.choice(CALLS)))
        cases.append((content, steps))
    return cases


def seek_is_negative(case):
    # a model 'rejected' on a seek marks the out-of-domain point
    return None


def temp_handle_iteration(report, d):
    """io files can be iterated without keeping a reference to the handle (`for line in open(p)`): the iterator
    must keep the file alive.  Every filesystem kind x open/openbin x binary/text, expected = the lines of the
    content (io.BytesIO / io.StringIO as the oracle)."""
    import fs.zipfs, fs.tarfs
    from fs.memoryfs import MemoryFS
    from fs.osfs import OSFS
    from fs.mountfs import MountFS
    from fs.wrap import read_only, cache_directory
    n = 0
    contents = [b"", b"one", b"l\nm\n\nlast", b"a\r\nb\rc\n", b"x" * 9001 + b"\ny\n"]
    kinds = []

    def add(name, make):
        kinds.append((name, make))
    add("MemoryFS", lambda: (MemoryFS(), None))
    add("OSFS", lambda: (OSFS(tempfile.mkdtemp(prefix="it_", dir=d)), None))
    add("SubFS(MemoryFS)", lambda: (MemoryFS().makedir("s"), None))
    add("read_only(MemoryFS)", lambda: (MemoryFS(), read_only))
    add("cache_directory(MemoryFS)", lambda: (MemoryFS(), cache_directory))
    add("MountFS", lambda: (MemoryFS(), "mount"))
    add("WriteZipFS", lambda: (fs.zipfs.ZipFS(io.BytesIO(), write=True), None))
    add("WriteTarFS", lambda: (fs.tarfs.TarFS(io.BytesIO(), write=True), None))
    add("ReadZipFS", lambda: ("zip", None))
    add("ReadTarFS", lambda: ("tar", None))
    for name, make in kinds:
        for ci, data in enumerate(contents):
            base, wrap = make()
            try:
                if base in ("zip", "tar"):
                    buf = io.BytesIO()
                    w = (fs.zipfs.ZipFS if base == "zip" else fs.tarfs.TarFS)(buf, write=True)
                    w.writebytes("f.txt", data)
                    w.close()
                    buf.seek(0)
                    fsx = (fs.zipfs.ZipFS if base == "zip" else fs.tarfs.TarFS)(buf)
                else:
                    base.writebytes("f.txt", data)
                    if wrap == "mount":
                        fsx = MountFS()
                        fsx.mount("m", base)
                        fsx = fsx.opendir("m")
                    else:
                        fsx = wrap(base) if wrap else base
                exp_b = list(io.BytesIO(data))
                exp_t = list(io.StringIO(data.decode("latin-1"), newline=""))     # FS.open defaults to newline=""
                for label, opener, exp in (
                        ("for line in open(p,'rb')", lambda: fsx.open("f.txt", "rb"), exp_b),
                        ("for line in openbin(p)", lambda: fsx.openbin("f.txt"), exp_b),
                        ("for line in open(p,'r')", lambda: fsx.open("f.txt", "r", encoding="latin-1"), exp_t)):
                    n += 1
                    try:
                        got = [line for line in opener()]
                    except Exception as e:  # noqa
                        got = "raises %s: %s" % (type(e).__name__, e)
                    if got != exp:
                        sig = "%s handle: iteration without a kept reference" % name
                        known = report.known_match(sig)
                        if known:
                            report.known_finding(known)
                        else:
                            report.violation(dict(kind="file-object-differs", comparison=sig, how=label,
                                                  content=data[:40].decode("latin-1"), observed=repr(got)[:200],
                                                  expected=repr(exp)[:200], theorem="Props/C16.v"))
                        break
            finally:
                try:
                    (fsx if "fsx" in dir() else base).close()
                except Exception:
                    pass
    return n


def run(report, forced=None):
    proof = common.preflight(report)
    cases = forced if forced is not None else explore(report.tier, report.seed)
    d = tempfile.mkdtemp(prefix="pyfs2verif_")
    bad = []
    total = 0
    nontrivial = set()
    try:
        mem = [mem_case(c, s) for c, s in cases]
        fio = [fileio_case(c, s, d) for c, s in cases]
        lines_m = ["file mem " + " ".join(enc_steps(c, s)) for c, s in cases]
        lines_r = ["file ref " + " ".join(enc_steps(c, s)) for c, s in cases]
        model = common.run_model_parallel(lines_m, chunk=3000)
        ref = common.run_model_parallel(lines_r, chunk=3000)
        n_vm, vm_mism = common.vm_crosscheck(lines_m[:200], model[:200], "C16", limit=60)
        for i, (c, s) in enumerate(cases):
            total += 1
            nontrivial.add(model[i])
            dom = in_domain(s, model[i])
            unmodelled = any(x[0] == "call" and ((x[2][0] == "readline" and len(x[2]) > 1) or x[2][0] == "readlines")
                             for x in s)
            # (a) real _MemoryFile vs its proved model
            if not unmodelled and not same(mem[i], model[i], dom):
                bad.append(("MemoryFS handle vs IO/MemFile.v model", i, mem[i], model[i]))
            # (b) the reference vs a real io.FileIO (validates the reference)
            if not unmodelled and not same(fio[i], ref[i], dom):
                bad.append(("reference IO/MemFile.v ref_frun vs io.FileIO", i, fio[i], ref[i]))
            # (c) the property itself: real MemoryFS handle vs real io.FileIO
            if not same(mem[i], fio[i], dom):
                bad.append(("MemoryFS handle vs io.FileIO", i, mem[i], fio[i]))
        # other backends against io.FileIO
        rnd = random.Random(report.seed + 161)
        others = 0
        for kind in ("osfs", "submem", "memopen", "zip", "tar"):
            sample = rnd.sample(range(len(cases)), min(len(cases), 400 if report.tier == "thorough" else 120))
            for i in sample:
                c, s = cases[i]
                if kind in ("zip", "tar"):
                    s = [x for x in s if x[0] == "open" and x[1] == "r" or
                         (x[0] == "call" and x[2][0] in ("read", "readline", "readlines", "seek", "tell"))]
                    # zipfile/tarfile members clamp seeks at EOF (as CPython's own ZipExtFile does)
                    s = [("open", "r")] + [("call", 0, x[2]) for x in s if x[0] == "call"
                                           and not (x[2][0] == "seek" and (x[2][1] != 0 or x[2][2] == 1))]
                    expect = fileio_case(c, s, d)
                    mdl = common.run_model(["file ref " + " ".join(enc_steps(c, s))])[0]
                else:
                    expect, mdl = fio[i], ref[i]
                try:
                    got = backend_case(kind, c, s, d)
                except Exception as e:
                    got = "EXC:" + type(e).__name__
                others += 1
                total += 1
                if not same(got, expect, in_domain(s, mdl)):
                    bad.append(("%s handle vs io.FileIO" % kind, (c, s), got, expect))
        # FTPFS file objects (raw FTPFile) on the same random call sequences, against io.FileIO
        ftp3 = dict(cases=0, explained_by_known_rules=0, cut_at_timing_dependent_call=0)
        if ftp_ok(report):
            cache = {}
            try:
                for i in rnd.sample(range(len(cases)), min(len(cases), FTP_THREEWAY[report.tier == "thorough"])):
                    c, s = cases[i]
                    dom = in_domain(s, ref[i])
                    cut, why = ftp_domain("ftp", c, s)
                    expect = fio[i]
                    if cut is not None and (dom is None or cut < dom):
                        # nothing from the first timing-dependent call on (see FTP_RULES): not even executed
                        ftp3["cut_at_timing_dependent_call"] += 1
                        for r in why:
                            report.ftp_rules.setdefault(r, ["ftp", c.decode("latin-1"), steps_json(s),
                                                            "not executed from step %d on: outcome depends on "
                                                            "timing" % cut, "what io does"])
                        s = s[:cut]
                        expect = fileio_case(c, s, d)
                    try:
                        got = b_real_case("ftp", c, s, d, cache)
                    except Exception as e:
                        got = "EXC:" + type(e).__name__
                    ftp3["cases"] += 1
                    total += 1
                    if not same(got, expect, dom):
                        why = ftp_explain("ftp", c, s, got, dom)
                        if why is None:
                            bad.append(("ftp handle vs io.FileIO", (c, s), got, expect))
                        else:
                            ftp3["explained_by_known_rules"] += 1
                            for r in why:
                                report.ftp_rules.setdefault(r, ["ftp", c.decode("latin-1"), steps_json(s), got, expect])
            finally:
                for o in cache.values():
                    o.close()
        # systematic seek-boundary block, every kind of file object
        b_bad, b_cov, b_total = boundary_block(report, d)
        bad += b_bad
        total += b_total
        n_iter = temp_handle_iteration(report, d) if forced is None else 0
        total += n_iter
    finally:
        shutil.rmtree(d, ignore_errors=True)
    seen = set()
    pending_seen = []
    # what the FTPFS kinds got "wrong" in exactly the way one of the FTP_RULES says: one finding per rule
    for rule, (kind, c, sj, a, b) in sorted(getattr(report, "ftp_rules", {}).items()):
        sig = ftp_signature(rule)
        known = report.known_match(sig)
        if known:
            report.known_finding(known, dict(kind=kind, content=c, steps=sj, observed=a, expected=b))
        elif sig in PENDING_FINDINGS:
            pending_seen.append(sig)
        else:
            report.violation(dict(kind="file-object-differs", comparison=sig, content=c, steps=sj, observed=a, expected=b,
                                  boundary_kind=kind, theorem="Props/C16.v"))
    for what, i, a, b in bad:
        c, s = cases[i] if isinstance(i, int) else i
        sig = "%s %s" % (what, s[0][1])
        known = report.known_match(what)
        if known:
            report.known_finding(known)
            continue
        if what in PENDING_FINDINGS:
            if what not in pending_seen:
                pending_seen.append(what)
            continue
        if sig in seen or len(seen) >= 8:
            continue
        seen.add(sig)
        payload = dict(kind="file-object-differs", comparison=what, content=c.decode("latin-1"),
                       steps=steps_json(s), observed=a, expected=b, theorem="Props/C16.v")
        if what.endswith("(seek boundary block)") or "(buffer-type block)" in what or what.endswith("(chunk-size block)") \
                or what.endswith("(append block)"):
            payload["boundary_kind"] = what.split()[0]
        report.violation(payload)
    if vm_mism and not bad:
        report.violation(dict(kind="correspondence-broken", vm=vm_mism, theorem="Props/C16.v"), no_input=True)
    cov = dict(evaluations=total, distinct_nontrivial=len(nontrivial),
               rule="call sequences of length <= 2 (quick, sampled 35%%) / 3 (thorough, all) over 22 calls x 6 modes x 3 "
                    "contents + random sequences (<= 12/25 calls, up to 3 handles on one file); results after every "
                    "call, final bytes and final positions compared; non-trivial = distinct model observations",
               samples=[dict(content=cases[k][0].decode("latin-1"), steps=steps_json(cases[k][1]), observed=mem[k])
                        for k in (0, len(cases) // 2, len(cases) - 1)],
               disagreements_checked=len(bad), other_backend_cases=others, vm_compute_crosschecked=n_vm,
               seek_boundary_block=dict(
                   rule="per kind: (way of reaching the current position: start / seek to middle / seek to EOF / "
                        "seek past EOF / read(2) / readline / 2x readline / read-to-EOF / write / truncate below "
                        "the position) x whence 0,1,2 x target in {0, 1, pos-1, pos, pos+1, EOF-1, EOF, EOF+1, "
                        "EOF+3} (negative targets, and targets past EOF for archive members, excluded), each "
                        "followed by tell, read(2), tell, readline, tell (writable modes also: write, tell, "
                        "seek(0), read()); the same after interleaved calls on a second handle (read / "
                        "seek-to-end / overwrite / append) and after fs.getsize / fs.getinfo (quick: 1 of the "
                        "interleavings per position class, drawn from the seed; thorough: all); every mode "
                        "r,w,a,r+,w+,a+ (archive members: r); oracle = CPython io object of the same layer "
                        "(FileIO / Buffered*(3) / TextIOWrapper) on a temp file",
                   sequences=b_total, kinds=b_cov),
               buffer_type_block=dict(
                   rule="per binary kind (%d kinds; text handles have no buffer-taking methods beyond str): {readinto, "
                        "readinto1, write, writelines} x buffer object in {%s} (items of 1, 2, 4, 8 bytes; read-only "
                        "ones included) x sizes 0/5/8/24 bytes x position {start, offset 3, 3 before EOF, EOF, after "
                        "read(2)} x modes (quick: r, r+, a+, w; thorough: all six; archive members: r), each followed "
                        "by tell, read(), tell; quick: the largest buffer at 2 positions + 1 drawn (position, size) per "
                        "(mode, method, buffer kind); oracle = io object of the same layer (count, buffer bytes "
                        "afterwards, position, next read, final file bytes); readinto1 on raw layers (io.FileIO has "
                        "none): may be absent, equal readinto, or return a non-empty prefix of it"
                        % (len([k for k in B_KINDS if k[1] != "text"]), ", ".join(k for k, _i, _w in BUF_KINDS)),
                   sequences=sum(v.get("buffer_sequences", 0) for v in b_cov.values()),
                   wide_item_buffer_sequences=sum(v.get("wide_item_buffers", 0) for v in b_cov.values())),
               temp_handle_iterations=n_iter,
               ftpfs_file_objects=dict(
                   server="in-process pyftpdlib on 127.0.0.1 (harness/ftpserver.py), one per kind and worker",
                   available=report.ftp_available[0], unavailable_because=report.ftp_available[1],
                   kinds=[k for k, _l, _a in B_FTP_KINDS] if report.ftp_available[0] else [],
                   rule="kinds ftp / ftplist (server without MLST/MLSD) / ftpbuf / ftptext run the seek-boundary block "
                        "(all six modes; the class 'seek whose target is the current position' complete for the first "
                        "content, the rest sampled to the per-kind budget), kind ftp also the buffer-type block "
                        "(sampled) and the random call sequences of the three-way comparison; oracle = the io object "
                        "of the same layer; stored bytes read from the server's directory with os.* once every "
                        "transfer has ended.  A disagreement with io is a known finding only if the model of the "
                        "%d written-down deviations of FTPFile (FTP_RULES) reproduces it exactly (two of them: "
                        "timing-dependent, compared up to that call)" % len(FTP_RULES),
                   three_way=ftp3,
                   boundary=dict((k, v) for k, v in b_cov.items() if k.startswith("ftp")),
                   rules_seen=sorted(getattr(report, "ftp_rules", {})),
                   rule_examples=dict((r, dict(kind=e[0], content=e[1], steps=e[2], observed=e[3], io_gives=e[4]))
                                      for r, e in getattr(report, "ftp_rules", {}).items()),
                   pending_findings_seen=pending_seen),
               traces_validated_against_impl=total - len(bad))
    return report.finish(proof, cov, assumptions=[
        "seeks to a negative target are outside the compared domain (BytesIO clamps, io.FileIO rejects)",
        "rejections are compared as a verdict, not by exception class",
        "text mode / buffering layers are CPython's io (exercised in C02)"])


def in_domain(steps, model_out):
    """Index of the first step that leaves the compared domain (a seek the model rejects
    although whence is valid and the offset is not negative for whence 0), or None."""
    res = model_out.split("#")[0][1:-1].split(";")
    modes = [x[1] for x in steps if x[0] == "open"]
    for idx, s in enumerate(steps):
        # RawIOBase.readline(0) returns b'' without ever checking that the handle is readable
        if s[0] == "call" and s[2][0] == "readline" and len(s[2]) > 1 and s[2][1] == 0 \
                and not ("r" in modes[s[1]] or "+" in modes[s[1]]):
            return idx
        # a zero-length write through an append-mode handle: io.FileIO leaves the offset alone,
        # the reference (and _MemoryFile) report the end of file; nothing is written either way
        if s[0] == "call" and s[2][0] in ("write", "writelines") and "a" in modes[s[1]] \
                and (s[2][1] == b"" or (s[2][0] == "writelines" and b"" in s[2][1:])):
            return idx
        if s[0] == "call" and s[2][0] == "seek" and idx < len(res) and res[idx] == "rejected":
            off, wh = s[2][1], s[2][2]
            if wh in (1, 2) and off < 0:
                return idx
    return None


def same(a, b, dom):
    if dom is None:
        return a == b
    ra = a.split("#")[0][1:-1].split(";")[:dom]
    rb = b.split("#")[0][1:-1].split(";")[:dom]
    return ra == rb


def steps_json(s):
    out = []
    for x in s:
        if x[0] in ("open", "fs"):
            out.append([x[0], x[1]])
        else:
            out.append(["call", x[1]] + [y.decode("latin-1") if isinstance(y, bytes) else y for y in x[2]])
    return out


def replay(report, path):
    with open(path) as fh:
        d = json.load(fh)
    steps = []
    for x in d["steps"]:
        if x[0] in ("open", "fs"):
            steps.append((x[0], x[1]))
        else:
            c = tuple(y.encode("latin-1") if isinstance(y, str) and (x[2] in ("write", "writelines") and k >= 1 or
                                                                   x[2] in ("writebuf", "writelinesbuf") and k >= 2) else y
                      for k, y in enumerate(x[2:]))
            steps.append(("call", x[1], c))
    content = d["content"].encode("latin-1")
    t = tempfile.mkdtemp(prefix="pyfs2verif_")
    try:
        if d.get("boundary_kind"):
            kind = d["boundary_kind"]
            layer = dict((k, l) for k, l, _a in B_KINDS + B_FTP_KINDS)[kind]
            cache = {}
            a, b = b_real_case(kind, content, steps, t, cache), b_ref_case(layer, content, steps, t)
            for o in cache.values():
                o.close()
            print("%-9s:" % kind, a)
            print("io (%s):" % layer, b)
            if kind.startswith("ftp") and not buf_same(a, b):
                m, fired, cut = ftp_model_case(kind, content, steps)
                print("FTPFile with its known deviations (rules %s; comparable up to step %s):" % (fired, cut), m)
                return 0 if ftp_explain(kind, content, steps, a) is not None else 1
            return 0 if buf_same(a, b) else 1
        a, b = mem_case(content, steps), fileio_case(content, steps, t)
    finally:
        shutil.rmtree(t, ignore_errors=True)
    print("MemoryFS :", a)
    print("io.FileIO:", b)
    return 0 if a == b else 1
