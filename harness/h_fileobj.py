"""C16 — file objects behave like Python io files.

Three-way: the real _MemoryFile handles (MemoryFS.openbin) vs the extracted model
(IO/MemFile.v mem_frun, proved to refine the reference ref_frun), the reference vs a real
io.FileIO on a temp file (validates the reference itself), and real handles of other
backends (OSFS, SubFS, archive members) vs io.FileIO."""
from __future__ import print_function

import array
import ctypes
import io
import itertools
import json
import mmap
import os
import random
import shutil
import tempfile

import common
from common import r_bytes, r_int, r_list, tokb, tok

MODES = ["r", "w", "a", "r+", "w+", "a+"]
CONTENTS = [b"", b"x", b"abc\ndef"]
CALLS = [("read", None), ("read", 0), ("read", 1), ("read", 2), ("readline",), ("readline", 0), ("readline", 2),
         ("readlines", 0), ("write", b"ab"), ("write", b""),
         ("writelines", b"Z", b"\n"), ("seek", 0, 0), ("seek", 1, 0), ("seek", 9, 0), ("seek", 1, 1), ("seek", 0, 2),
         ("seek", -1, 2), ("seek", -1, 0), ("seek", 2, 2), ("tell",), ("truncate", None), ("truncate", 0),
         ("truncate", 2), ("truncate", 9), ("flush",)]


def enc_call(i, c):
    n = c[0]
    if n == "read":
        return ["2", str(i), "1", "-" if c[1] is None else str(c[1])]
    if n == "readline":
        return ["2", str(i), "2"] if len(c) == 1 else ["2", str(i), "1", str(c[1])]   # sized: modelled via read on one line below
    if n == "readlines":
        return ["2", str(i), "6"]
    if n == "write":
        return ["2", str(i), "3", tokb(c[1])]
    if n == "writelines":
        return ["2", str(i), "4", tokb(c[1]), tokb(c[2])]
    if n == "seek":
        return ["2", str(i), "5", str(abs(c[1])), "1" if c[1] < 0 else "0", str(c[2])]
    if n == "tell":
        return ["2", str(i), "6"]
    if n == "truncate":
        return ["2", str(i), "7", "-" if c[1] is None else str(c[1])]
    if n == "flush":
        return ["2", str(i), "8"]
    raise ValueError(n)


def enc_steps(content, steps):
    t = [tokb(content)]
    for s in steps:
        if s[0] == "open":
            t += ["1", tok(s[1] + "b")]
        else:
            t += enc_call(s[1], s[2])
    return t


def _rb(x):
    """Returned data of binary and of text handles (text: its utf-8 bytes) in one encoding."""
    return r_bytes(x.encode("utf-8") if isinstance(x, str) else x)


# ------------------------------------------------------------------------------------------
# Buffer objects handed to readinto / readinto1 / write / writelines: every kind of object
# that exports the buffer protocol, also those whose items are wider than one byte (for
# which len() is not the number of bytes).

class _Rec(ctypes.Structure):
    _fields_ = [("magic", ctypes.c_uint32), ("size", ctypes.c_uint16)]      # 8 bytes with padding


# kind -> (item size in bytes, writable)
BUF_KINDS = [("bytes", 1, False), ("bytearray", 1, True), ("mv", 1, True), ("mvro", 1, False),
             ("mvH", 2, True), ("mvI", 4, True), ("arrB", 1, True), ("arrH", array.array("H").itemsize, True),
             ("arrI", array.array("I").itemsize, True), ("ctarrH", 2, True), ("ctstruct", ctypes.sizeof(_Rec), True),
             ("mmap", 1, True)]
BUF_ITEM = dict((k, i) for k, i, _w in BUF_KINDS)
BUF_FILL = 0xAA


def make_buf(kind, initial):
    """(the object to hand to the file method, thunk giving its bytes afterwards, cleanup)."""
    initial = bytes(initial)
    nothing = lambda: None
    if kind == "bytes":
        return initial, (lambda: initial), nothing
    if kind == "mvro":
        return memoryview(initial), (lambda: initial), nothing
    if kind == "bytearray":
        b = bytearray(initial)
        return b, (lambda: bytes(b)), nothing
    if kind in ("mv", "mvH", "mvI"):
        b = bytearray(initial)
        m = memoryview(b)
        if kind != "mv":
            m = m.cast(kind[2])
        return m, (lambda: bytes(b)), m.release
    if kind in ("arrB", "arrH", "arrI"):
        a = array.array(kind[3])
        a.frombytes(initial)
        return a, a.tobytes, nothing
    if kind == "ctarrH":
        a = (ctypes.c_uint16 * (len(initial) // 2)).from_buffer_copy(initial)
        return a, (lambda: bytes(bytearray(a))), nothing
    if kind == "ctstruct":
        n = len(initial) // ctypes.sizeof(_Rec)
        a = _Rec.from_buffer_copy(initial) if n == 1 else (_Rec * n).from_buffer_copy(initial)
        return a, (lambda: bytes(bytearray(a))), nothing
    if kind == "mmap":
        m = mmap.mmap(-1, len(initial))
        m[:] = initial
        return m, (lambda: m[:]), m.close
    raise ValueError(kind)


def do_call(f, c):
    n = c[0]
    text = isinstance(f, io.TextIOBase)
    try:
        if n in ("readinto", "readinto1"):
            # c = (method, buffer kind, size in bytes); result: count / bytes of the buffer afterwards.
            # An io object without readinto1 (raw files): readinto is used instead and the result marked '~'.
            obj, dump, done = make_buf(c[1], bytes(bytearray([BUF_FILL])) * c[2])
            try:
                m, mark = getattr(f, n, None), ""
                if m is None and n == "readinto1":
                    m, mark = f.readinto, "~"
                try:
                    k = m(obj)
                except AttributeError:
                    if n == "readinto1":
                        return "absent"
                    raise
                return mark + r_int(k) + "/" + r_bytes(dump())
            finally:
                done()
        if n == "writebuf":
            obj, dump, done = make_buf(c[1], c[2])
            try:
                return r_int(f.write(obj))
            finally:
                done()
        if n == "writelinesbuf":
            bufs = [make_buf(c[1], x) for x in c[2:]]
            try:
                f.writelines([b[0] for b in bufs])
                return "U"
            finally:
                for b in bufs:
                    b[2]()
        if n == "read":
            r = f.read() if c[1] is None else f.read(c[1])
            return "b" + _rb(r)
        if n == "readline":
            return "b" + _rb(f.readline() if len(c) == 1 else f.readline(c[1]))
        if n == "readlines":
            return "[" + ",".join(_rb(x) for x in f.readlines(c[1])) + "]"
        if n == "write":
            return r_int(f.write(c[1].decode("utf-8") if text else c[1]))
        if n == "writelines":
            f.writelines([x.decode("utf-8") if text else x for x in (c[1], c[2])])
            return "U"
        if n == "seek":
            return r_int(f.seek(c[1], c[2]))
        if n == "tell":
            return r_int(f.tell())
        if n == "truncate":
            return r_int(f.truncate() if c[1] is None else f.truncate(c[1]))
        if n == "flush":
            f.flush()
            return "U"
    except Exception:
        return "rejected"
    raise ValueError(n)


def run_real(open_fn, read_back, steps, fs_fn=None):
    handles = []
    res = []
    for s in steps:
        if s[0] == "fs":
            # a call on the filesystem itself (getsize / getinfo) between file-object calls
            try:
                res.append(r_int(fs_fn(s[1])))
            except Exception:
                res.append("rejected")
        elif s[0] == "open":
            try:
                handles.append(open_fn(s[1] + "b"))
                res.append("U")
            except Exception:
                handles.append(None)
                res.append("rejected")
        else:
            h = handles[s[1]] if s[1] < len(handles) else None
            res.append("rejected" if h is None else do_call(h, s[2]))
    pos = []
    for h in handles:
        try:
            pos.append(h.tell())
        except Exception:
            pos.append(-1)
    for h in handles:
        try:
            h.close()
        except Exception:
            pass
    return "[" + ";".join(res) + "]#" + r_bytes(read_back()) + "#" + r_list(r_int, pos)


def mem_case(content, steps):
    from fs.memoryfs import MemoryFS
    m = MemoryFS()
    m.writebytes("f", content)
    return run_real(lambda mode: m.openbin("f", mode), lambda: m.readbytes("f"), steps)


def fileio_case(content, steps, d):
    p = os.path.join(d, "f")
    with open(p, "wb") as fh:
        fh.write(content)

    def rb():
        with open(p, "rb") as fh:
            return fh.read()
    return run_real(lambda mode: io.open(p, mode, buffering=0), rb, steps)


def backend_case(kind, content, steps, d):
    from fs.memoryfs import MemoryFS
    from fs.osfs import OSFS
    if kind == "osfs":
        root = os.path.join(d, "os")
        os.makedirs(root, exist_ok=True)
        o = OSFS(root)
        o.writebytes("f", content)
        return run_real(lambda mode: o.openbin("f", mode, buffering=0), lambda: o.readbytes("f"), steps)
    if kind == "memopen":
        m = MemoryFS()
        m.writebytes("f", content)
        return run_real(lambda mode: m.open("f", mode, buffering=-1), lambda: m.readbytes("f"), steps)
    if kind == "submem":
        m = MemoryFS()
        s = m.makedir("d")
        s.writebytes("f", content)
        return run_real(lambda mode: s.openbin("f", mode), lambda: m.readbytes("d/f"), steps)
    if kind in ("zip", "tar"):
        from fs.zipfs import ZipFS
        from fs.tarfs import TarFS
        src = MemoryFS()
        src.writebytes("f", content)
        buf = io.BytesIO()
        w = (ZipFS if kind == "zip" else TarFS)(buf, write=True)
        w.writebytes("f", content)
        w.close()
        buf.seek(0)
        r = (ZipFS if kind == "zip" else TarFS)(buf)
        return run_real(lambda mode: r.openbin("f", mode), lambda: r.readbytes("f"), steps)
    raise ValueError(kind)


def cut_out_of_domain(model, other):
    """Seeks to a negative target are outside the compared domain (BytesIO clamps, FileIO
    rejects): compare only the results before the first such step."""
    m = model.split("#")[0][1:-1].split(";")
    o = other.split("#")[0][1:-1].split(";")
    return m, o


# ------------------------------------------------------------------------------------------
# Systematic seek-boundary block: (position class) x (whence) x (target class) for every
# file-object kind, also after interleaved calls on a second handle / on the filesystem.
# Oracle: the io object CPython itself gives for the same mode on a temp file holding the
# same initial content (never the library).

# kind -> (reference io layer, archive member?)
B_KINDS = [
    ("mem", "raw", False),        # MemoryFS.openbin -> _MemoryFile
    ("submem", "raw", False),     # SubFS(MemoryFS).openbin
    ("memraw", "raw", False),     # MemoryFS.open('..b', buffering=-1) -> RawWrapper(_MemoryFile)
    ("membuf", "buf", False),     # MemoryFS.open('..b', buffering=3) -> Buffered*(RawWrapper(_MemoryFile))
    ("memtext", "text", False),   # MemoryFS.open('..') -> TextIOWrapper(RawWrapper(_MemoryFile))
    ("osfs", "raw", False),       # OSFS.openbin(buffering=0)
    ("osfsbuf", "buf", False),    # OSFS.openbin(buffering=3)
    ("osfstext", "text", False),  # OSFS.open('..')
    ("zipw", "bufdef", False),    # ZipFS(write=True).openbin (files of the archive being written; WrapFS.openbin
                                  # does not forward `buffering`, so the reference is default-buffered io.open)
    ("zip", "raw", True),         # ZipFS.openbin -> _ZipExtFile
    ("zipraw", "raw", True),      # ZipFS.open('rb') -> RawWrapper(_ZipExtFile)
    ("zipbuf", "buf", True),      # ZipFS.open('rb', buffering=3) -> BufferedReader(RawWrapper(_ZipExtFile))
    ("ziptext", "text", True),    # ZipFS.open('r') -> TextIOWrapper(RawWrapper(_ZipExtFile))
    ("tar", "raw", True),         # TarFS.openbin -> RawWrapper(tarfile member)
    ("tarraw", "raw", True),
    ("tarbuf", "buf", True),
    ("tartext", "text", True),
]
B_BUF = 3
B_WHENCE = (0, 1, 2)
_ARCHIVES = {}


def b_ref_open(layer, p):
    if layer == "raw":
        return lambda mode: io.open(p, mode, buffering=0)
    if layer == "buf":
        return lambda mode: io.open(p, mode, buffering=B_BUF)
    if layer == "bufdef":
        return lambda mode: io.open(p, mode)
    return lambda mode: io.open(p, mode.replace("b", ""), encoding="utf-8", newline="")


def b_ref_case(layer, content, steps, d):
    p = os.path.join(d, "bref")
    with open(p, "wb") as fh:
        fh.write(content)

    def rb():
        with open(p, "rb") as fh:
            return fh.read()
    return run_real(b_ref_open(layer, p), rb, steps, fs_fn=lambda which: os.stat(p).st_size)


def b_fs_fn(fsobj, path):
    def call(which):
        if which == "getsize":
            return fsobj.getsize(path)
        return fsobj.getinfo(path, namespaces=["details"]).size
    return call


def b_archive(kind, content):
    key = (kind[:3], content)
    if key not in _ARCHIVES:
        from fs.zipfs import ZipFS
        from fs.tarfs import TarFS
        buf = io.BytesIO()
        w = (ZipFS if key[0] == "zip" else TarFS)(buf, write=True)
        w.writebytes("f", content)
        w.close()
        _ARCHIVES[key] = buf.getvalue()
    return _ARCHIVES[key]


def b_real_case(kind, content, steps, d, cache):
    """Run the steps on the real file objects of one kind."""
    from fs.memoryfs import MemoryFS
    from fs.osfs import OSFS
    text = lambda mode: mode.replace("b", "")
    if kind.startswith("mem") or kind == "submem":
        m = MemoryFS()
        if kind == "submem":
            s = m.makedir("d")
            s.writebytes("f", content)
            return run_real(lambda mode: s.openbin("f", mode), lambda: m.readbytes("d/f"), steps, b_fs_fn(s, "f"))
        m.writebytes("f", content)
        opener = {"mem": lambda mode: m.openbin("f", mode),
                  "memraw": lambda mode: m.open("f", mode, buffering=-1),
                  "membuf": lambda mode: m.open("f", mode, buffering=B_BUF),
                  "memtext": lambda mode: m.open("f", text(mode))}[kind]
        return run_real(opener, lambda: m.readbytes("f"), steps, b_fs_fn(m, "f"))
    if kind.startswith("osfs") or kind == "zipw":
        if kind not in cache:
            if kind == "zipw":
                from fs.zipfs import ZipFS
                cache[kind] = ZipFS(io.BytesIO(), write=True)
            else:
                root = os.path.join(d, "b_" + kind)
                os.makedirs(root, exist_ok=True)
                cache[kind] = OSFS(root)
        o = cache[kind]
        o.writebytes("f", content)
        opener = {"osfs": lambda mode: o.openbin("f", mode, buffering=0),
                  "zipw": lambda mode: o.openbin("f", mode),
                  "osfsbuf": lambda mode: o.openbin("f", mode, buffering=B_BUF),
                  "osfstext": lambda mode: o.open("f", text(mode))}[kind]
        return run_real(opener, lambda: o.readbytes("f"), steps, b_fs_fn(o, "f"))
    from fs.zipfs import ZipFS
    from fs.tarfs import TarFS
    r = (ZipFS if kind.startswith("zip") else TarFS)(io.BytesIO(b_archive(kind, content)))
    sub = kind[3:]
    opener = {"": lambda mode: r.openbin("f", mode),
              "raw": lambda mode: r.open("f", mode),
              "buf": lambda mode: r.open("f", mode, buffering=B_BUF),
              "text": lambda mode: r.open("f", text(mode))}[sub]
    try:
        return run_real(opener, lambda: r.readbytes("f"), steps, b_fs_fn(r, "f"))
    finally:
        r.close()


def b_prefixes(mode, size0, archive):
    """Ways of reaching each class of current position (0, middle, EOF, past EOF; by seek,
    by a short read, by readline, by read-to-EOF, by write, by truncate below the position)."""
    readable = "r" in mode or "+" in mode
    writable = mode != "r"
    out = [("start", []), ("end_seek", [("seek", 0, 2)])]
    if size0 >= 2:
        out.append(("mid_seek", [("seek", size0 // 2, 0)]))
    if not archive:
        out.append(("past_eof", [("seek", size0 + 2, 0)]))
    if readable:
        out += [("short_read", [("read", 2)]), ("readline", [("readline",)]),
                ("readline2", [("readline",), ("readline",)]), ("eof_read", [("read", None)])]
    if writable:
        out += [("after_write", [("write", b"ab")]), ("after_truncate", [("seek", 3, 0), ("truncate", 1)])]
    return out


def b_inters(mode, archive, layer):
    """Calls interleaved between reaching the position and the boundary seek: on a second
    handle of the same file, and on the filesystem (getsize/getinfo move shared cursors)."""
    out = [("h2_read", [("open", "r"), ("call", 1, ("read", 2))]),
           ("h2_seek_end", [("open", "r"), ("call", 1, ("seek", 0, 2)), ("call", 1, ("tell",))]),
           ("getsize", [("fs", "getsize")]),
           ("getinfo", [("fs", "getinfo")]),
           ("h2_read_getsize", [("open", "r"), ("call", 1, ("readline",)), ("fs", "getsize")])]
    if not archive:
        out += [("h2_overwrite", [("open", "r+"), ("call", 1, ("seek", 1, 0)), ("call", 1, ("write", b"ZZ")),
                                  ("call", 1, ("flush",))]),
                ("h2_append", [("open", "a"), ("call", 1, ("write", b"TT")), ("call", 1, ("flush",))])]
    return out


def b_probe_state(layer, content, head, d, memo):
    """(position of handle 0, file size) the io reference is in after `head`."""
    key = (layer, content, repr(head))
    if key not in memo:
        p = os.path.join(d, "bprobe")
        with open(p, "wb") as fh:
            fh.write(content)
        opener = b_ref_open(layer, p)
        handles = []
        try:
            for s in head:
                if s[0] == "open":
                    try:
                        handles.append(opener(s[1] + "b"))
                    except Exception:
                        handles.append(None)
                elif s[0] == "call" and handles[s[1]] is not None:
                    do_call(handles[s[1]], s[2])
            if handles[0] is None:
                memo[key] = None
            else:
                pos = handles[0].tell()
                handles[0].flush()
                memo[key] = (pos, os.stat(p).st_size)
        except Exception:
            memo[key] = None
        finally:
            for h in handles:
                try:
                    h.close()
                except Exception:
                    pass
    return memo[key]


def b_targets(pos, size, archive):
    """Boundary targets: exactly 0 / the current position / EOF and one before/after each
    (plus well past EOF); negative targets, and for archive members targets past EOF, are
    outside the compared domain (DESIGN 9.6)."""
    t = {0, 1, pos - 1, pos, pos + 1, size - 1, size, size + 1, size + 3}
    return sorted(x for x in t if x >= 0 and not (archive and x > size))


def boundary_cases(kind, layer, archive, tier, seed, d, memo):
    """Step sequences of the boundary block for one kind (generated against the io reference
    state, so that the offsets hit the boundaries exactly)."""
    rnd = random.Random("%s-%d-bound" % (kind, seed))
    thorough = tier == "thorough"
    big = (b"0123456789abcde\n" * 600)[:9001]   # larger than the zip / io buffer sizes (thorough only)
    contents = [b"abc\ndef", b"l1\nl2\n\nl4", b""] + ([b"x", b"0123456789", big] if thorough else [])
    probe = [("tell",), ("read", 2), ("tell",), ("readline",), ("tell",)]
    wprobe = [("write", b"Q"), ("tell",), ("seek", 0, 0), ("read", None)]
    out = []
    stats = dict(combos=0, interleaved=0)
    for content in contents:
        for mode in (["r"] if archive else ["r", "r+"] if content is big else
                     ["r", "r+", "a+"] if not thorough and content == b"l1\nl2\n\nl4" else MODES):
            size0 = 0 if "w" in mode else len(content)
            inters = b_inters(mode, archive, layer)
            for pname, prefix in b_prefixes(mode, size0, archive):
                base = [("open", mode)] + [("call", 0, c) for c in prefix]
                variants = [("none", [])]
                if thorough:
                    variants += inters
                else:
                    variants += rnd.sample(inters, 1)
                for iname, inter in variants:
                    head = base + inter
                    st = b_probe_state(layer, content, head, d, memo)
                    if st is None:
                        continue
                    pos, size = st
                    for whence in B_WHENCE:
                        origin = (0, pos, size)[whence]
                        for target in b_targets(pos, size, archive):
                            off = target - origin
                            tail = [("seek", off, whence)] + probe
                            if mode != "r" and (thorough or iname == "none"):
                                out.append((content, head + [("call", 0, c) for c in [("seek", off, whence)] + wprobe]))
                            out.append((content, head + [("call", 0, c) for c in tail]))
                            stats["combos"] += 1
                            stats["interleaved"] += iname != "none"
    return out, stats


# ------------------------------------------------------------------------------------------
# Buffer-type block: every binary file-object kind x every buffer-taking method (readinto,
# readinto1, write, writelines) x every kind of buffer object, at several positions (start,
# middle, after a read, less data left than room in the buffer, EOF), followed by tell, read()
# and tell.  Oracle: the io object of the same layer on a temp file (count returned, bytes of
# the buffer afterwards, position, what the next read returns, final file bytes).

BUF_CONTENT = bytes(bytearray(range(1, 41)))       # 40 distinct bytes, a newline among them
BUF_METHODS = ["readinto", "readinto1", "writebuf", "writelinesbuf"]


def buf_payload(nbytes, salt):
    return bytes(bytearray((0x41 + (i * 7 + salt) % 26) for i in range(nbytes)))


def buffer_cases(kind, layer, archive, tier, seed):
    rnd = random.Random("%s-%d-buffers" % (kind, seed))
    thorough = tier == "thorough"
    contents = [BUF_CONTENT] + ([b"abc\ndef", b""] if thorough else [])
    modes = ["r"] if archive else (MODES if thorough else ["r", "r+", "a+", "w"])
    out = []
    stats = dict(buffer_sequences=0, wide_item_buffers=0)
    for content in contents:
        for mode in modes:
            size0 = 0 if "w" in mode else len(content)
            readable = "r" in mode or "+" in mode
            prefixes = [[], [("seek", min(3, size0), 0)], [("seek", max(0, size0 - 3), 0)], [("seek", size0, 0)]]
            if readable:
                prefixes.append([("read", 2)])
            for method, (bk, item, _w) in itertools.product(BUF_METHODS, BUF_KINDS):
                sizes = [n for n in (0, 5, 8, 24) if n % item == 0 and not (n == 0 and bk == "mmap")]
                if method.startswith("write") and "a" in mode:
                    sizes = [n for n in sizes if n]      # zero-length append: outside the compared domain (see in_domain)
                if thorough:
                    combos = list(itertools.product(prefixes, sizes))
                else:
                    # always the largest buffer, at two positions; plus one more (position, size) drawn from the seed
                    combos = [(p, sizes[-1]) for p in rnd.sample(prefixes, 2)] + [(rnd.choice(prefixes), rnd.choice(sizes))]
                for prefix, nbytes in combos:
                    if method in ("readinto", "readinto1"):
                        call = (method, bk, nbytes)
                    elif method == "writebuf":
                        call = (method, bk, buf_payload(nbytes, 1))
                    else:
                        call = (method, bk, buf_payload(nbytes, 2), buf_payload(nbytes, 3))
                    steps = [("open", mode)] + [("call", 0, c) for c in prefix + [call, ("tell",), ("read", None), ("tell",)]]
                    out.append((content, steps))
                    stats["buffer_sequences"] += 1
                    stats["wide_item_buffers"] += item > 1
    return out, stats


def _count_and_bytes(res):
    k, _, b = res.partition("/")
    return int(k[1:]), ([int(x) for x in b[1:].split(",")] if len(b) > 1 else [])


def buf_same(got, exp):
    """Equality of the observations, except for readinto1 where the io reference object has no such
    method (raw files; marked '~', it ran readinto): there the file object may lack it as well,
    or return what readinto returns, or - being allowed a single raw read - a non-empty prefix of it
    (what follows is then not comparable)."""
    if got == exp:
        return True
    if got.startswith("EXC:"):
        return False
    g, e = got.split("#"), exp.split("#")
    gs, es = g[0][1:-1].split(";"), e[0][1:-1].split(";")
    if len(gs) != len(es):
        return False
    for x, y in zip(gs, es):
        if x == y:
            continue
        if x == "absent" and y == "rejected":
            continue            # neither side did anything
        if y.startswith("~") and not x.startswith("~"):
            if x == "absent":
                return True
            if x == y[1:]:
                continue
            try:
                kx, bx = _count_and_bytes(x)
                ky, by = _count_and_bytes(y[1:])
            except ValueError:
                return False
            return 0 < kx < ky and len(bx) == len(by) and bx[:kx] == by[:kx] and all(v == BUF_FILL for v in bx[kx:])
        return False
    return g[1:] == e[1:]


def boundary_kind(args):
    """The boundary block of one kind (runs in a forked worker: own scratch directory)."""
    kind, layer, archive, tier, seed, d = args
    d = os.path.join(d, "bk_" + kind)
    os.makedirs(d, exist_ok=True)
    bad = []
    memo = {}
    cache = {}
    cases, stats = boundary_cases(kind, layer, archive, tier, seed, d, memo)
    for content, steps in cases:
        expect = b_ref_case(layer, content, steps, d)
        try:
            got = b_real_case(kind, content, steps, d, cache)
        except Exception as e:
            got = "EXC:" + type(e).__name__
        if got != expect:
            bad.append(("%s handle vs io (seek boundary block)" % kind, (content, steps), got, expect))
    if layer != "text":
        bcases, bstats = buffer_cases(kind, layer, archive, tier, seed)
        stats.update(bstats)
        for content, steps in bcases:
            expect = b_ref_case(layer, content, steps, d)
            try:
                got = b_real_case(kind, content, steps, d, cache)
            except Exception as e:
                got = "EXC:" + type(e).__name__
            if not buf_same(got, expect):
                call = steps[-4][2]
                bad.append(("%s handle vs io (buffer-type block): %s with a %s buffer" % (kind, call[0], call[1]),
                            (content, steps), got, expect))
        cases = cases + bcases
    for o in cache.values():
        try:
            o.close()
        except Exception:
            pass
    return kind, bad[:50], len(bad), dict(sequences=len(cases), **stats)


def boundary_block(report, d):
    import multiprocessing
    jobs = [(kind, layer, archive, report.tier, report.seed, d) for kind, layer, archive in B_KINDS]
    try:
        pool = multiprocessing.get_context("fork").Pool(min(len(jobs), max(2, (os.cpu_count() or 2) // 2)))
    except Exception:
        pool = None
    if pool is None:
        results = [boundary_kind(j) for j in jobs]
    else:
        try:
            results = pool.map(boundary_kind, jobs, chunksize=1)
        finally:
            pool.terminate()
    bad, cov, total = [], {}, 0
    for kind, b, nbad, stats in results:
        bad += b
        stats["disagreements"] = nbad
        cov[kind] = stats
        total += stats["sequences"]
    return bad, cov, total


def explore(tier, seed):
    rnd = random.Random(seed + 16)
    cases = []
    n = 3 if tier == "thorough" else 2
    for content in CONTENTS:
        for mode in MODES:
            for combo in itertools.product(CALLS, repeat=n):
                if tier != "thorough" and rnd.random() > 0.35:
                    continue
                cases.append((content, [("open", mode)] + [("call", 0, c) for c in combo]))
    for _ in range(6000 if tier == "thorough" else 800):
        content = rnd.choice(CONTENTS + [b"0123456789", b"l1\nl2\n\nl4"])
        steps = [("open", rnd.choice(MODES))]
        nh = 1
        for _k in range(rnd.randint(1, 25 if tier == "thorough" else 12)):
            if rnd.random() < 0.12 and nh < 3:
                steps.append(("open", rnd.choice(["r", "r+", "a", "a+", "r", "w"])))
                nh += 1
            else:
                steps.append(("call", rnd.randrange(nh), rnd.choice(CALLS)))
        cases.append((content, steps))
    return cases


def seek_is_negative(case):
    # a model 'rejected' on a seek marks the out-of-domain point
    return None


def temp_handle_iteration(report, d):
    """io files can be iterated without keeping a reference to the handle (`for line in open(p)`): the iterator
    must keep the file alive.  Every filesystem kind x open/openbin x binary/text, expected = the lines of the
    content (io.BytesIO / io.StringIO as the oracle)."""
    import fs.zipfs, fs.tarfs
    from fs.memoryfs import MemoryFS
    from fs.osfs import OSFS
    from fs.mountfs import MountFS
    from fs.wrap import read_only, cache_directory
    n = 0
    contents = [b"", b"one", b"l\nm\n\nlast", b"a\r\nb\rc\n", b"x" * 9001 + b"\ny\n"]
    kinds = []

    def add(name, make):
        kinds.append((name, make))
    add("MemoryFS", lambda: (MemoryFS(), None))
    add("OSFS", lambda: (OSFS(tempfile.mkdtemp(prefix="it_", dir=d)), None))
    add("SubFS(MemoryFS)", lambda: (MemoryFS().makedir("s"), None))
    add("read_only(MemoryFS)", lambda: (MemoryFS(), read_only))
    add("cache_directory(MemoryFS)", lambda: (MemoryFS(), cache_directory))
    add("MountFS", lambda: (MemoryFS(), "mount"))
    add("WriteZipFS", lambda: (fs.zipfs.ZipFS(io.BytesIO(), write=True), None))
    add("WriteTarFS", lambda: (fs.tarfs.TarFS(io.BytesIO(), write=True), None))
    add("ReadZipFS", lambda: ("zip", None))
    add("ReadTarFS", lambda: ("tar", None))
    for name, make in kinds:
        for ci, data in enumerate(contents):
            base, wrap = make()
            try:
                if base in ("zip", "tar"):
                    buf = io.BytesIO()
                    w = (fs.zipfs.ZipFS if base == "zip" else fs.tarfs.TarFS)(buf, write=True)
                    w.writebytes("f.txt", data)
                    w.close()
                    buf.seek(0)
                    fsx = (fs.zipfs.ZipFS if base == "zip" else fs.tarfs.TarFS)(buf)
                else:
                    base.writebytes("f.txt", data)
                    if wrap == "mount":
                        fsx = MountFS()
                        fsx.mount("m", base)
                        fsx = fsx.opendir("m")
                    else:
                        fsx = wrap(base) if wrap else base
                exp_b = list(io.BytesIO(data))
                exp_t = list(io.StringIO(data.decode("latin-1"), newline=""))     # FS.open defaults to newline=""
                for label, opener, exp in (
                        ("for line in open(p,'rb')", lambda: fsx.open("f.txt", "rb"), exp_b),
                        ("for line in openbin(p)", lambda: fsx.openbin("f.txt"), exp_b),
                        ("for line in open(p,'r')", lambda: fsx.open("f.txt", "r", encoding="latin-1"), exp_t)):
                    n += 1
                    try:
                        got = [line for line in opener()]
                    except Exception as e:  # noqa
                        got = "raises %s: %s" % (type(e).__name__, e)
                    if got != exp:
                        sig = "%s handle: iteration without a kept reference" % name
                        known = report.known_match(sig)
                        if known:
                            report.known_finding(known)
                        else:
                            report.violation(dict(kind="file-object-differs", comparison=sig, how=label,
                                                  content=data[:40].decode("latin-1"), observed=repr(got)[:200],
                                                  expected=repr(exp)[:200], theorem="Props/C16.v"))
                        break
            finally:
                try:
                    (fsx if "fsx" in dir() else base).close()
                except Exception:
                    pass
    return n


def run(report, forced=None):
    proof = common.preflight(report)
    cases = forced if forced is not None else explore(report.tier, report.seed)
    d = tempfile.mkdtemp(prefix="pyfs2verif_")
    bad = []
    total = 0
    nontrivial = set()
    try:
        mem = [mem_case(c, s) for c, s in cases]
        fio = [fileio_case(c, s, d) for c, s in cases]
        lines_m = ["file mem " + " ".join(enc_steps(c, s)) for c, s in cases]
        lines_r = ["file ref " + " ".join(enc_steps(c, s)) for c, s in cases]
        model = common.run_model_parallel(lines_m, chunk=3000)
        ref = common.run_model_parallel(lines_r, chunk=3000)
        n_vm, vm_mism = common.vm_crosscheck(lines_m[:200], model[:200], "C16", limit=60)
        for i, (c, s) in enumerate(cases):
            total += 1
            nontrivial.add(model[i])
            dom = in_domain(s, model[i])
            unmodelled = any(x[0] == "call" and ((x[2][0] == "readline" and len(x[2]) > 1) or x[2][0] == "readlines")
                             for x in s)
            # (a) real _MemoryFile vs its proved model
            if not unmodelled and not same(mem[i], model[i], dom):
                bad.append(("MemoryFS handle vs IO/MemFile.v model", i, mem[i], model[i]))
            # (b) the reference vs a real io.FileIO (validates the reference)
            if not unmodelled and not same(fio[i], ref[i], dom):
                bad.append(("reference IO/MemFile.v ref_frun vs io.FileIO", i, fio[i], ref[i]))
            # (c) the property itself: real MemoryFS handle vs real io.FileIO
            if not same(mem[i], fio[i], dom):
                bad.append(("MemoryFS handle vs io.FileIO", i, mem[i], fio[i]))
        # other backends against io.FileIO
        rnd = random.Random(report.seed + 161)
        others = 0
        for kind in ("osfs", "submem", "memopen", "zip", "tar"):
            sample = rnd.sample(range(len(cases)), min(len(cases), 400 if report.tier == "thorough" else 120))
            for i in sample:
                c, s = cases[i]
                if kind in ("zip", "tar"):
                    s = [x for x in s if x[0] == "open" and x[1] == "r" or
                         (x[0] == "call" and x[2][0] in ("read", "readline", "readlines", "seek", "tell"))]
                    # zipfile/tarfile members clamp seeks at EOF (as CPython's own ZipExtFile does)
                    s = [("open", "r")] + [("call", 0, x[2]) for x in s if x[0] == "call"
                                           and not (x[2][0] == "seek" and (x[2][1] != 0 or x[2][2] == 1))]
                    expect = fileio_case(c, s, d)
                    mdl = common.run_model(["file ref " + " ".join(enc_steps(c, s))])[0]
                else:
                    expect, mdl = fio[i], ref[i]
                try:
                    got = backend_case(kind, c, s, d)
                except Exception as e:
                    got = "EXC:" + type(e).__name__
                others += 1
                total += 1
                if not same(got, expect, in_domain(s, mdl)):
                    bad.append(("%s handle vs io.FileIO" % kind, (c, s), got, expect))
        # systematic seek-boundary block, every kind of file object
        b_bad, b_cov, b_total = boundary_block(report, d)
        bad += b_bad
        total += b_total
        n_iter = temp_handle_iteration(report, d) if forced is None else 0
        total += n_iter
    finally:
        shutil.rmtree(d, ignore_errors=True)
    seen = set()
    for what, i, a, b in bad:
        c, s = cases[i] if isinstance(i, int) else i
        sig = "%s %s" % (what, s[0][1])
        known = report.known_match(what)
        if known:
            report.known_finding(known)
            continue
        if sig in seen or len(seen) >= 8:
            continue
        seen.add(sig)
        payload = dict(kind="file-object-differs", comparison=what, content=c.decode("latin-1"),
                       steps=steps_json(s), observed=a, expected=b, theorem="Props/C16.v")
        if what.endswith("(seek boundary block)") or "(buffer-type block)" in what:
            payload["boundary_kind"] = what.split()[0]
        report.violation(payload)
    if vm_mism and not bad:
        report.violation(dict(kind="correspondence-broken", vm=vm_mism, theorem="Props/C16.v"), no_input=True)
    cov = dict(evaluations=total, distinct_nontrivial=len(nontrivial),
               rule="call sequences of length <= 2 (quick, sampled 35%%) / 3 (thorough, all) over 22 calls x 6 modes x 3 "
                    "contents + random sequences (<= 12/25 calls, up to 3 handles on one file); results after every "
                    "call, final bytes and final positions compared; non-trivial = distinct model observations",
               samples=[dict(content=cases[k][0].decode("latin-1"), steps=steps_json(cases[k][1]), observed=mem[k])
                        for k in (0, len(cases) // 2, len(cases) - 1)],
               disagreements_checked=len(bad), other_backend_cases=others, vm_compute_crosschecked=n_vm,
               seek_boundary_block=dict(
                   rule="per kind: (way of reaching the current position: start / seek to middle / seek to EOF / "
                        "seek past EOF / read(2) / readline / 2x readline / read-to-EOF / write / truncate below "
                        "the position) x whence 0,1,2 x target in {0, 1, pos-1, pos, pos+1, EOF-1, EOF, EOF+1, "
                        "EOF+3} (negative targets, and targets past EOF for archive members, excluded), each "
                        "followed by tell, read(2), tell, readline, tell (writable modes also: write, tell, "
                        "seek(0), read()); the same after interleaved calls on a second handle (read / "
                        "seek-to-end / overwrite / append) and after fs.getsize / fs.getinfo (quick: 1 of the "
                        "interleavings per position class, drawn from the seed; thorough: all); every mode "
                        "r,w,a,r+,w+,a+ (archive members: r); oracle = CPython io object of the same layer "
                        "(FileIO / Buffered*(3) / TextIOWrapper) on a temp file",
                   sequences=b_total, kinds=b_cov),
               buffer_type_block=dict(
                   rule="per binary kind (%d kinds; text handles have no buffer-taking methods beyond str): {readinto, "
                        "readinto1, write, writelines} x buffer object in {%s} (items of 1, 2, 4, 8 bytes; read-only "
                        "ones included) x sizes 0/5/8/24 bytes x position {start, offset 3, 3 before EOF, EOF, after "
                        "read(2)} x modes (quick: r, r+, a+, w; thorough: all six; archive members: r), each followed "
                        "by tell, read(), tell; quick: the largest buffer at 2 positions + 1 drawn (position, size) per "
                        "(mode, method, buffer kind); oracle = io object of the same layer (count, buffer bytes "
                        "afterwards, position, next read, final file bytes); readinto1 on raw layers (io.FileIO has "
                        "none): may be absent, equal readinto, or return a non-empty prefix of it"
                        % (len([k for k in B_KINDS if k[1] != "text"]), ", ".join(k for k, _i, _w in BUF_KINDS)),
                   sequences=sum(v.get("buffer_sequences", 0) for v in b_cov.values()),
                   wide_item_buffer_sequences=sum(v.get("wide_item_buffers", 0) for v in b_cov.values())),
               temp_handle_iterations=n_iter,
               traces_validated_against_impl=total - len(bad))
    return report.finish(proof, cov, assumptions=[
        "seeks to a negative target are outside the compared domain (BytesIO clamps, io.FileIO rejects)",
        "rejections are compared as a verdict, not by exception class",
        "text mode / buffering layers are CPython's io (exercised in C02)"])


def in_domain(steps, model_out):
    """Index of the first step that leaves the compared domain (a seek the model rejects
    although whence is valid and the offset is not negative for whence 0), or None."""
    res = model_out.split("#")[0][1:-1].split(";")
    modes = [x[1] for x in steps if x[0] == "open"]
    for idx, s in enumerate(steps):
        # RawIOBase.readline(0) returns b'' without ever checking that the handle is readable
        if s[0] == "call" and s[2][0] == "readline" and len(s[2]) > 1 and s[2][1] == 0 \
                and not ("r" in modes[s[1]] or "+" in modes[s[1]]):
            return idx
        # a zero-length write through an append-mode handle: io.FileIO leaves the offset alone,
        # the reference (and _MemoryFile) report the end of file; nothing is written either way
        if s[0] == "call" and s[2][0] in ("write", "writelines") and "a" in modes[s[1]] \
                and (s[2][1] == b"" or (s[2][0] == "writelines" and b"" in s[2][1:])):
            return idx
        if s[0] == "call" and s[2][0] == "seek" and idx < len(res) and res[idx] == "rejected":
            off, wh = s[2][1], s[2][2]
            if wh in (1, 2) and off < 0:
                return idx
    return None


def same(a, b, dom):
    if dom is None:
        return a == b
    ra = a.split("#")[0][1:-1].split(";")[:dom]
    rb = b.split("#")[0][1:-1].split(";")[:dom]
    return ra == rb


def steps_json(s):
    out = []
    for x in s:
        if x[0] in ("open", "fs"):
            out.append([x[0], x[1]])
        else:
            out.append(["call", x[1]] + [y.decode("latin-1") if isinstance(y, bytes) else y for y in x[2]])
    return out


def replay(report, path):
    with open(path) as fh:
        d = json.load(fh)
    steps = []
    for x in d["steps"]:
        if x[0] in ("open", "fs"):
            steps.append((x[0], x[1]))
        else:
            c = tuple(y.encode("latin-1") if isinstance(y, str) and (x[2] in ("write", "writelines") and k >= 1 or
                                                                   x[2] in ("writebuf", "writelinesbuf") and k >= 2) else y
                      for k, y in enumerate(x[2:]))
            steps.append(("call", x[1], c))
    content = d["content"].encode("latin-1")
    t = tempfile.mkdtemp(prefix="pyfs2verif_")
    try:
        if d.get("boundary_kind"):
            kind = d["boundary_kind"]
            layer = dict((k, l) for k, l, _a in B_KINDS)[kind]
            cache = {}
            a, b = b_real_case(kind, content, steps, t, cache), b_ref_case(layer, content, steps, t)
            for o in cache.values():
                o.close()
            print("%-9s:" % kind, a)
            print("io (%s):" % layer, b)
            return 0 if buf_same(a, b) else 1
        a, b = mem_case(content, steps), fileio_case(content, steps, t)
    finally:
        shutil.rmtree(t, ignore_errors=True)
    print("MemoryFS :", a)
    print("io.FileIO:", b)
    return 0 if a == b else 1
