"""C03 — no path argument escapes a filesystem's root.

Every public method of FS (by reflection) x every path-argument position x a '..'-heavy
path stream is run on: OSFS / TempFS with `os`, `io`, `shutil`, `scandir` replaced inside
fs.osfs by logging proxies (every system path is recorded) and a canary tree around the
root; SubFS at depth 1-3 over a recording parent; MountFS over recording members; crafted
zip/tar archives. The system path / delegated path predicted by the model (Sandbox/
Sandbox.v, extracted) is compared on a sample.

Round 3: (a) every object RETURNED by a call is itself put through a containment battery: sub-filesystems obtained
through every API that returns one (found by reflection: opendir / makedir / makedirs, their factory= / recreate= keyword
variants, the same APIs applied again to a result, `open_fs('<url>!<sub-path>')`) with every spelling class of the
directory path, on every backend kind; the oracle is a ground-truth tree where every directory holds a marker naming its
true location and where the same names exist at every ancestor level (decoys), the delegated-path / system-call logs,
and a whole-world snapshot; (b) the constructor keywords of OSFS / TempFS / the osfs:// opener (by inspect.signature)
x relative, '~' and '$VAR' root spellings, with the working directory, HOME and the variables changed between
construction and use: every system call must stay below the directory the root denoted at construction time."""
from __future__ import print_function

import inspect
import io
import itertools
import json
import os
import random
import shutil
import tempfile

import common
from common import tok

# TODO(main): signatures of misbehaviours of the UNCHANGED library exposed by this module that still wait for an entry in
# known_findings.json; while listed here they are reported as PENDING-FINDING lines and do not fail the check.
PENDING_FINDINGS = []

COMPONENTS = ["..", ".", "", "a", "a.b", "d"]
PATH_PARAMS = ("path", "src_path", "dst_path", "dir_path")


def path_stream(rnd, n):
    out = ["..", "../x", "a/../..", "/..", "../../etc/passwd", "d/../../canary", "a/./../../x", "//..//", "....",
           "..a", "a..", "d/..", "d/../a", "./..", "../root/a", "/", "", "a", "d/e"]
    while len(out) < n:
        k = rnd.randint(1, 5)
        body = "/".join(rnd.choice(COMPONENTS) for _ in range(k))
        out.append(rnd.choice(["", "/"]) + body + rnd.choice(["", "/"]))
    return out[:n]


def public_methods():
    from fs.base import FS
    out = []
    for n in sorted(dir(FS)):
        if n.startswith("_") or isinstance(inspect.getattr_static(FS, n), property):
            continue
        f = getattr(FS, n, None)
        if not callable(f):
            continue
        try:
            params = [p.name for p in inspect.signature(f).parameters.values()]
        except (TypeError, ValueError):
            continue
        pos = [i for i, p in enumerate(params[1:]) if p in PATH_PARAMS]
        if pos:
            out.append((n, params[1:], pos))
    return out + bound_methods()


_BOUND = []


def bound_methods():
    """Path-taking methods of the objects bound to a filesystem through a property (fs.walk.files, fs.glob, ...),
    by reflection; named 'prop.method' (or 'prop' when the bound object itself is callable)."""
    if _BOUND:
        return list(_BOUND)
    from fs.base import FS
    from fs.memoryfs import MemoryFS
    probe = MemoryFS()
    for n in sorted(dir(FS)):
        if n.startswith("_") or not isinstance(inspect.getattr_static(FS, n), property):
            continue
        try:
            v = getattr(probe, n)
        except Exception:
            continue
        if isinstance(v, (str, bytes, int, float, bool, dict, list, tuple)) or v is None:
            continue
        cands = [(n, v)] if callable(v) else []
        cands += [(n + "." + a, getattr(v, a)) for a in sorted(dir(v))
                  if not a.startswith("_") and callable(getattr(v, a, None))]
        for name, f in cands:
            try:
                params = [p.name for p in inspect.signature(f).parameters.values()]
            except (TypeError, ValueError):
                continue
            pos = [i for i, p in enumerate(params) if p in PATH_PARAMS]
            if pos:
                _BOUND.append((name, params, pos))
    probe.close()
    return list(_BOUND)


def resolve(fsx, name):
    obj = fsx
    for part in name.split("."):
        obj = getattr(obj, part)
    return obj


def is_fs_error(e):
    return any(k.__module__ in ("fs.errors", "fs.opener.errors") for k in type(e).__mro__)


def consume(r, exercise=True):
    """Use what a call returned the way a caller would: iterate iterables, close files, and - a returned
    filesystem is a path-carrying object too - list / write / delete through it (under the caller's oracle)."""
    from fs.base import FS
    if isinstance(r, FS):
        if exercise:
            for op, a in (("listdir", ("/",)), ("exists", ("a",)), ("writebytes", ("ret-probe", b"R")),
                          ("remove", ("ret-probe",)), ("getsyspath", ("/",))):
                try:
                    getattr(r, op)(*a)
                except Exception:  # noqa
                    pass
        return r
    if r is None or isinstance(r, (str, bytes, dict, tuple, list, set, int, float)):
        return r
    if hasattr(r, "read") and hasattr(r, "close"):
        r.close()
        return r
    if inspect.isgenerator(r) or hasattr(r, "__next__") or hasattr(r, "__iter__"):
        return list(r)
    return r


def build_args(params, positions, which, path, safe="a"):
    args = []
    for i, p in enumerate(params):
        if i in positions:
            args.append(path if i == which else safe)
        elif p in ("data", "contents"):
            args.append(b"D")
        elif p == "text":
            args.append(u"T")
        elif p == "file":
            args.append(io.BytesIO(b"F"))
        elif p == "info":
            args.append({"details": {"modified": 1500000000}})
        elif p == "mode":
            args.append("w")
        elif p == "name":
            args.append("md5")
        elif p == "pattern":
            args.append("*")
        elif p in ("create", "overwrite", "recreate", "wipe"):
            args.append(True)
        else:
            break
    return args


PURE_PATH_FUNCS = ("join", "split", "basename", "dirname", "normpath", "splitext", "commonprefix")
TWO_PATH_FUNCS = ("rename", "renames", "replace", "link", "symlink", "copy", "copy2", "copyfile", "copystat", "copymode",
                  "copytree", "move", "samefile")
_PATH_FUNCS = set()


def path_funcs():
    """Names of the os / os.path / io / shutil / tempfile functions whose leading argument is a file-system path."""
    if not _PATH_FUNCS:
        _PATH_FUNCS.update((
            "listdir", "mkdir", "makedirs", "remove", "unlink", "rmdir", "removedirs", "open", "scandir", "walk", "stat",
            "lstat", "chmod", "chown", "lchown", "utime", "readlink", "access", "truncate", "exists", "lexists", "isdir",
            "isfile", "islink", "getsize", "getmtime", "getatime", "getctime", "ismount", "realpath", "rmtree", "chdir",
            "statvfs", "disk_usage", "mkfifo", "mknod", "listxattr", "getxattr", "setxattr", "removexattr", "fwalk"))
        _PATH_FUNCS.update(TWO_PATH_FUNCS)
        for group in ("supports_fd", "supports_dir_fd", "supports_follow_symlinks", "supports_effective_ids"):
            _PATH_FUNCS.update(getattr(f, "__name__", "") for f in getattr(os, group, ()))
        _PATH_FUNCS.discard("")
    return _PATH_FUNCS


def _text(x):
    # bytes -> text the way the interpreter does it for file names (undecodable bytes come back as the lone surrogates
    # they were spelled with), so that a logged system path can be compared code point for code point
    return x if isinstance(x, str) else os.fsdecode(x)


class Logger(object):
    """Module proxy: records the path-like arguments of every function called through it. A relative path given to
    a path-taking function is recorded as what the kernel resolves it to: joined to the working directory of the
    moment of the call."""
    def __init__(self, real, log, name):
        self.__dict__["_real"] = real
        self.__dict__["_log"] = log
        self.__dict__["_name"] = name

    def __getattr__(self, attr):
        v = getattr(self._real, attr)
        if callable(v) and not isinstance(v, type):
            log, name = self._log, self._name

            def f(*a, **kw):
                for i, x in enumerate(list(a) + list(kw.values())):
                    if not isinstance(x, (str, bytes)):
                        if hasattr(x, "__fspath__") and attr in path_funcs():
                            x = os.fspath(x)
                        else:
                            continue
                    t = _text(x)
                    if t.startswith(os.sep):
                        if attr not in PURE_PATH_FUNCS:
                            log.append(("%s.%s" % (name, attr), t))
                    elif attr in path_funcs() and (i == 0 or (i == 1 and attr in TWO_PATH_FUNCS)):
                        log.append(("%s.%s" % (name, attr), os.path.abspath(t)))
                return v(*a, **kw)
            return f
        if inspect.ismodule(v):
            return Logger(v, self._log, self._name + "." + attr)
        return v


def canary_snapshot(base, root):
    out = []
    for r, dirs, files in os.walk(base):
        if os.path.abspath(r).startswith(os.path.abspath(root)):
            dirs[:] = []
            continue
        for f in files:
            p = os.path.join(r, f)
            with open(p, "rb") as fh:
                out.append((p, fh.read()))
        for d in dirs:
            out.append((os.path.join(r, d), None))
    return sorted(out, key=lambda x: x[0])


def run_osfs(rnd, paths, temp=False):
    import fs.osfs as mod
    from fs.osfs import OSFS
    results, bad = [], []
    base = tempfile.mkdtemp(prefix="pyfs2verif_")
    log = []
    saved = {}
    try:
        os.makedirs(os.path.join(base, "outer", "root", "d", "e"))
        root = os.path.join(base, "outer", "root")
        with open(os.path.join(root, "a"), "wb") as fh:
            fh.write(b"inside")
        with open(os.path.join(base, "outer", "canary"), "wb") as fh:
            fh.write(b"canary")
        with open(os.path.join(base, "x"), "wb") as fh:
            fh.write(b"outside")
        os.makedirs(os.path.join(base, "outer", "sibling"))
        os.makedirs(os.path.join(base, "outer", "root-private"))
        with open(os.path.join(base, "outer", "root-private", "secret"), "wb") as fh:
            fh.write(b"outside")
        paths = list(paths) + ["../root-private/secret", "../root-private", "a/../../root-private/secret"]
        fsx = OSFS(root)
        for name in ("os", "io", "shutil"):
            saved[name] = getattr(mod, name)
            setattr(mod, name, Logger(saved[name], log, name))
        import fs.base as bmod                # (FS.move renames with os.rename on the two system paths itself)
        saved_base_os = bmod.os
        bmod.os = Logger(saved_base_os, log, "os")
        if getattr(mod, "scandir", None) is not None:
            saved["scandir"] = mod.scandir
            real_scandir = mod.scandir

            def scandir_logged(p):
                log.append(("scandir", _text(p)))
                return real_scandir(p)
            mod.scandir = scandir_logged
        before = canary_snapshot(base, root)
        real_root = os.path.realpath(root)
        for (m, params, positions) in public_methods():
            for which in positions:
                for p in paths:
                    del log[:]
                    args = build_args(params, positions, which, p)
                    try:
                        r = resolve(fsx, m)(*args)
                        name = getattr(r, "name", None) if hasattr(r, "read") else None
                        r = consume(r)
                        verdict = "ok"
                        disclosed = None
                        if isinstance(r, str) and base in r:      # a system path (possibly inside a URL)
                            disclosed = r[r.index(base):]
                        elif isinstance(name, (str, bytes)) and base in _text(name):   # the name of a returned file object
                            disclosed = _text(name)[_text(name).index(base):]
                    except Exception as e:  # noqa
                        verdict = type(e).__name__
                        disclosed = None
                    outside = [(fn, sp) for fn, sp in log
                               if not (os.path.normpath(sp) == real_root or os.path.normpath(sp).startswith(real_root + os.sep)
                                       or os.path.normpath(sp) == os.path.normpath(root)
                                       or os.path.normpath(sp).startswith(os.path.normpath(root) + os.sep))]
                    if disclosed is not None:
                        dn = os.path.normpath(disclosed)
                        if not (dn == os.path.normpath(root) or dn.startswith(os.path.normpath(root) + os.sep)):
                            outside.append(("returned", disclosed))
                    results.append((m, which, p, verdict, len(log)))
                    if outside:
                        bad.append(("OSFS call reached a system path outside the root",
                                    dict(method=m, position=which, path=p, verdict=verdict, outside=outside[:4])))
                    un = unnormal(log, (os.path.normpath(root), real_root))
                    if un:
                        bad.append(("a system path that is not lexically normal was handed to the operating system "
                                    "(the kernel resolves '..' physically, through symbolic links)",
                                    dict(fs="OSFS", method=m, position=which, path=p, verdict=verdict, system_paths=un[:4])))
            # restore the small tree in case something was removed
            for d in ("d/e",):
                os.makedirs(os.path.join(root, d), exist_ok=True)
            if not os.path.exists(os.path.join(root, "a")) or os.path.isdir(os.path.join(root, "a")):
                shutil.rmtree(os.path.join(root, "a"), ignore_errors=True)
                with open(os.path.join(root, "a"), "wb") as fh:
                    fh.write(b"inside")
        after = canary_snapshot(base, root)
        if before != after:
            bad.append(("canary tree around the OSFS root changed", dict(before=before[:6], after=after[:6])))
        fsx.close()
    finally:
        for name, v in saved.items():
            setattr(mod, name, v)
        try:
            bmod.os = saved_base_os
        except NameError:
            pass
        shutil.rmtree(base, ignore_errors=True)
    return results, bad


def make_recording(log, ident):
    from fs.wrapfs import WrapFS
    from fs.base import FS

    class Rec(WrapFS):
        pass
    for n in dir(FS):
        if n.startswith("_"):
            continue
        f = getattr(WrapFS, n, None)
        if not callable(f) or isinstance(inspect.getattr_static(WrapFS, n), property):
            continue
        try:
            params = [p.name for p in inspect.signature(f).parameters.values()][1:]
        except (TypeError, ValueError):
            continue
        pos = [i for i, p in enumerate(params) if p in PATH_PARAMS]
        if not pos:
            continue

        def mk(n=n, f=f, pos=pos):
            def g(self, *a, **kw):
                for i in pos:
                    if i < len(a) and isinstance(a[i], str):
                        log.append((ident, n, a[i]))
                return f(self, *a, **kw)
            return g
        setattr(Rec, n, mk())
    return Rec


def run_subfs(rnd, paths, depth):
    from fs.memoryfs import MemoryFS
    import fs.path as P
    results, bad = [], []
    log = []
    inner = MemoryFS()
    subs = ["s%d" % i for i in range(depth)]
    full = "/".join(subs)
    inner.makedirs(full + "/d/e")
    inner.writebytes(full + "/a", b"inside")
    inner.writebytes("canary", b"canary")
    inner.makedirs("sibling")
    inner.writebytes("sibling/x", b"outside")
    # a sibling whose name starts with the sub-directory's own name (string-prefix vs component-prefix)
    twin = "/".join(subs[:-1] + [subs[-1] + "-private"])
    inner.makedirs(twin)
    inner.writebytes(twin + "/secret", b"outside")
    paths = list(paths) + ["../%s-private/secret" % subs[-1], "../%s-private" % subs[-1],
                           "x/../../%s-private/secret" % subs[-1], "../%s-private/new" % subs[-1]]
    parent = make_recording(log, 0)(inner)
    fsx = parent
    for s in subs:
        fsx = fsx.opendir(s)
    prefix = "/" + full

    def outside_snapshot():
        return (inner.readbytes("canary"), sorted(inner.listdir("/")), inner.readbytes("sibling/x"),
                sorted(inner.listdir("sibling")), sorted(inner.listdir(twin)),
                inner.readbytes(twin + "/secret") if inner.isfile(twin + "/secret") else None)
    base = outside_snapshot()
    for (m, params, positions) in public_methods():
        for which in positions:
            for p in paths:
                del log[:]
                args = build_args(params, positions, which, p)
                try:
                    r = consume(resolve(fsx, m)(*args))
                    verdict = "ok"
                except Exception as e:  # noqa
                    verdict = type(e).__name__
                escaped = []
                for _i, meth, got in log:
                    try:
                        n = P.abspath(P.normpath(got))
                    except Exception:
                        escaped.append((meth, got))
                        continue
                    if not P.isbase(prefix, n):
                        escaped.append((meth, got))
                results.append((m, which, p, verdict, len(log)))
                if escaped:
                    bad.append(("SubFS delegated a path outside its sub-directory",
                                dict(depth=depth, method=m, position=which, path=p, verdict=verdict, received=escaped[:4])))
                if outside_snapshot() != base:
                    bad.append(("content outside the SubFS changed", dict(depth=depth, method=m, position=which, path=p)))
                    inner.makedirs(twin, recreate=True)
                    inner.writebytes(twin + "/secret", b"outside")
                    inner.writebytes("canary", b"canary")
                    inner.makedirs("sibling", recreate=True)
                    inner.writebytes("sibling/x", b"outside")
                    base = outside_snapshot()
                # keep the inside usable
                try:
                    inner.makedirs(full + "/d/e", recreate=True)
                    if not inner.isfile(full + "/a"):
                        if inner.isdir(full + "/a"):
                            inner.removetree(full + "/a")
                        inner.writebytes(full + "/a", b"inside")
                except Exception:
                    pass
    inner.close()
    return results, bad


def run_mount(rnd, paths):
    from fs.memoryfs import MemoryFS
    from fs.mountfs import MountFS
    results, bad = [], []
    log = []
    members = [MemoryFS(), MemoryFS()]
    for i, m in enumerate(members):
        m.makedirs("d/e")
        m.writebytes("a", b"m%d" % i)
    mf = MountFS()
    mf.mount("m0", make_recording(log, 0)(members[0]))
    mf.mount("m1", make_recording(log, 1)(members[1]))
    from h_route import snap
    for (m, params, positions) in public_methods():
        for which in positions:
            for p in paths:
                del log[:]
                before1 = snap(members[1])
                args = build_args(params, positions, which, "m0/" + p, safe="m0/a")
                try:
                    r = consume(resolve(mf, m)(*args))
                    verdict = "ok"
                except Exception as e:  # noqa
                    verdict = type(e).__name__
                results.append((m, which, p, verdict, len(log)))
                import fs.path as P
                try:
                    target = P.abspath(P.normpath("m0/" + p))
                except Exception:
                    target = None
                routed_to_1 = target is not None and P.isbase("/m1", target)
                whole_tree = target == "/" and m in ("removetree", "movedir", "copydir", "tree", "walk", "glob")
                if snap(members[1]) != before1 and not routed_to_1 and not whole_tree:
                    bad.append(("a path under one mount changed another mounted filesystem",
                                dict(method=m, position=which, path="m0/" + p, verdict=verdict)))
                for ident, meth, got in log:
                    if ".." in got.split("/"):
                        bad.append(("a mounted filesystem received a path with a back-reference",
                                    dict(method=m, path="m0/" + p, received=got)))
                try:
                    for i, mm in enumerate(members):
                        mm.makedirs("d/e", recreate=True)
                        if not mm.isfile("a"):
                            if mm.isdir("a"):
                                mm.removetree("a")
                            mm.writebytes("a", b"m%d" % i)
                except Exception:
                    pass
    mf.close()
    return results, bad


def run_archives():
    """Crafted archives with climbing / absolute member names inside a canary directory."""
    import zipfile
    import tarfile
    from fs.zipfs import ZipFS
    from fs.tarfs import TarFS
    import fs.errors as E
    results, bad = [], []
    names = ["../evil", "a/../../evil2", "/abs", "ok/file", "ok/../ok2", "./dot", "a/b/c"]
    base = tempfile.mkdtemp(prefix="pyfs2verif_")
    try:
        os.makedirs(os.path.join(base, "in"))
        zp = os.path.join(base, "in", "c.zip")
        with zipfile.ZipFile(zp, "w") as z:
            for n in names:
                z.writestr(n, b"data:" + n.encode())
        tp = os.path.join(base, "in", "c.tar")
        with tarfile.open(tp, "w") as t:
            for n in names:
                ti = tarfile.TarInfo(n)
                data = b"data:" + n.encode()
                ti.size = len(data)
                t.addfile(ti, io.BytesIO(data))
        before = sorted(os.listdir(base)) + sorted(os.listdir(os.path.join(base, "in")))
        for label, cls, p in (("zip", ZipFS, zp), ("tar", TarFS, tp)):
            try:
                r = cls(p)
            except Exception as e:
                results.append((label, "open", type(e).__name__))
                continue
            for q in ("walk", "listdir", "getinfo", "readbytes", "isdir", "exists"):
                try:
                    if q == "walk":
                        found = [x for x, _i in r.walk.info()]
                        for f in found:
                            if ".." in f.split("/"):
                                bad.append(("archive exposes a path with a back-reference", dict(kind=label, path=f)))
                        verdict = "ok:%d" % len(found)
                    elif q == "listdir":
                        verdict = "ok:%r" % sorted(r.listdir("/"))
                    elif q == "getinfo":
                        r.getinfo("../evil")
                        verdict = "ok"
                        bad.append(("archive answers for a path above its root", dict(kind=label)))
                    elif q == "readbytes":
                        verdict = "ok:%r" % r.readbytes("ok/file")
                    elif q == "isdir":
                        verdict = "ok:%r" % r.isdir("ok")
                    else:
                        verdict = "ok:%r" % r.exists("../evil")
                except (E.FSError, E.IllegalBackReference) as e:
                    verdict = type(e).__name__
                except Exception as e:  # noqa
                    verdict = "crash:" + type(e).__name__
                    bad.append(("archive query raised a non-fs.errors exception", dict(kind=label, query=q, exc=verdict)))
                results.append((label, q, verdict))
            try:
                r.close()
            except Exception:
                pass
        after = sorted(os.listdir(base)) + sorted(os.listdir(os.path.join(base, "in")))
        if before != after:
            bad.append(("opening a crafted archive created something outside", dict(before=before, after=after)))
    finally:
        shutil.rmtree(base, ignore_errors=True)
    return results, bad


def model_check(paths):
    """The extracted model's predicted system path / delegated path vs the real functions."""
    from fs.osfs import OSFS
    from fs.memoryfs import MemoryFS
    bad = []
    d = tempfile.mkdtemp(prefix="pyfs2verif_")
    n = 0
    try:
        o = OSFS(d)
        m = MemoryFS()
        m.makedirs("s/t")
        sub = m.opendir("s/t")
        lines1 = ["sandbox syspath %s" % tok(p) for p in paths]
        lines2 = ["sandbox subfs %s %s" % (tok("/s/t"), tok(p)) for p in paths]
        out1 = common.run_model(lines1)
        out2 = common.run_model(lines2)
        for p, e1, e2 in zip(paths, out1, out2):
            n += 2
            try:
                got = "ok:" + common.r_list(common.r_str, [c for c in os.path.relpath(o.getsyspath(p), d).split(os.sep)
                                                          if c not in (".",)])
            except Exception as e:  # noqa
                got = common.exc_name(e)
            if got != e1:
                bad.append(("OSFS.getsyspath differs from Sandbox.v osfs_syspath", dict(path=p, implementation=got, model=e1)))
            try:
                got2 = "ok:" + common.r_str(sub.delegate_path(p)[1])
            except Exception as e:  # noqa
                got2 = common.exc_name(e)
            if got2 != e2:
                bad.append(("SubFS.delegate_path differs from Sandbox.v subfs_delegate", dict(path=p, implementation=got2, model=e2)))
        o.close()
    finally:
        shutil.rmtree(d, ignore_errors=True)
    return n, bad


# --------------------------------------------------------------------------- round 3: returned objects
# Ground truth: every directory of a world holds the same small subtree, every file of it is a marker whose content
# names the directory it really lives in. The subtree is planted at EVERY ancestor level of the filesystem under test
# and in a sibling whose name extends the box's name, so a sub-filesystem rooted one level too high (or in a sibling)
# finds all the names it looks for - with the wrong markers.
SUBTREE = ("marker", "data/marker", "data/sub/marker", "data/data/marker", "sub/marker")
DECOY_NAMES = ("marker", "data", "sub", "new", "probe.bin")
EXISTING_TARGETS = ((), ("data",), ("data", "sub"))
NEW_TARGETS = (("new",), ("data", "new"))
PROBE_PATHS = ["/", "marker", "data", "nw", "..", "../marker", "x/../../marker", "/../sub", "data/../..", "//", "./data/./"]
ABSENT = "<absent>"


def subtree_entries(level):
    for rel in SUBTREE:
        comps = tuple(level) + tuple(rel.split("/"))
        yield comps, ("marker@/" + "/".join(comps[:-1])).encode()


def levels_of(box):
    out = [tuple(box[:i]) for i in range(len(box) + 1)]
    if box:
        out.append(tuple(box[:-1]) + (box[-1] + "-private",))
    return out


def spellings(comps):
    """(class, text) for every spelling class of the directory `comps` below a filesystem root."""
    comps = tuple(comps)
    if not comps:
        return [("root-empty", ""), ("root-slash", "/"), ("root-dot", "."), ("root-dot-slash", "./"),
                ("root-double-slash", "//"), ("root-slash-dot", "/."), ("inner-dotdot", "data/.."),
                ("absolute-inner-dotdot", "/data/.."), ("mixed", "/./data//../.")]
    rel = "/".join(comps)
    return [("relative", rel), ("absolute", "/" + rel), ("trailing-slash", rel + "/"),
            ("absolute-trailing-slash", "/" + rel + "/"), ("dot-prefix", "./" + rel), ("absolute-dot", "/./" + rel),
            ("double-slash", "//" + "//".join(comps) + "//"), ("inner-dot", "/".join(c + "/." for c in comps)),
            ("inner-dotdot", "zz/../" + rel), ("absolute-inner-dotdot", "/" + comps[0] + "/../" + rel),
            ("tail-dotdot", rel + "/zz/.."), ("mixed", "/./" + "//".join(comps) + "/./zz/..//")]


def model_denotations(texts):
    """What each spelling denotes below a root according to the extracted model (Sandbox.v osfs_syspath): a tuple of
    components, or None when the model rejects the path."""
    out = {}
    texts = sorted(set(texts))
    for t, line in zip(texts, common.run_model(["sandbox syspath %s" % tok(t) for t in texts])):
        if not line.startswith("ok:["):
            out[t] = None
            continue
        body = line[4:-1]
        out[t] = tuple(common.untok(x[1:]) if len(x) > 1 else "" for x in body.split(";")) if body else ()
    return out


def under(key, D):
    comps = tuple(c for c in key.split("/") if c)
    return comps[:len(D)] == tuple(D)


def diff_outside(before, after, D):
    return sorted(k for k in set(before) | set(after)
                  if before.get(k, ABSENT) != after.get(k, ABSENT) and not under(k, D))


def fast_tmp():
    """A memory-backed directory for the many small trees of the sweeps when there is one (plain temp dir otherwise)."""
    d = "/dev/shm"
    return d if os.path.isdir(d) and os.access(d, os.W_OK | os.X_OK) else None


class World(object):
    """Ground truth + filesystem under test. `fs` is the filesystem under test, rooted at directory `box` of the
    ground-truth namespace (keys 'a/b/c' -> bytes, or None for a directory); targets are spelled below `tprefix`.
    A world is reused from one returned object to the next: restore() brings the ground truth back to `pristine`."""
    os_top = None
    readonly = False
    tprefix = ()
    mount = False

    def restore(self, cur=None):
        if self.readonly:
            return
        cur = self.snapshot() if cur is None else cur
        if cur == self.pristine:
            return
        want = self.pristine
        repairs = 0
        for k in sorted((k for k in cur if k not in want or (want[k] is None) != (cur[k] is None)), key=len, reverse=True):
            self.gt_del(k, cur[k] is None)
            repairs += 1
        for k in sorted(want, key=len):
            if k not in cur or cur[k] != want[k] or (want[k] is None) != (cur.get(k, ABSENT) is None):
                self.gt_put(k, want[k])
                repairs += 1
        if repairs > 3 and self.snapshot() != self.pristine:
            raise RuntimeError("harness: could not restore the ground truth of world %r" % type(self).__name__)

    def close(self):
        pass


def mem_tree(mem, pre, out):
    """Ground-truth reader for a MemoryFS: its directory-entry tree, read directly."""
    def rec(entry, prefix):
        for name, e in list(entry._dir.items()):
            k = prefix + name
            if e.is_dir:
                out[k] = None
                rec(e, k + "/")
            else:
                out[k] = e._bytes_file.getvalue()
    rec(mem.root, pre)


class MemWorld(World):
    """SubFS chain of `depth` levels over a recording WrapFS over a MemoryFS; with mount=True the chain starts at a
    MountFS whose mount points m0 / m1 hold two recording members (box[0] is then the mount point); with
    via_mountfs_root the MountFS itself is the filesystem under test and the targets live below m0."""

    def __init__(self, env, depth, mount=False, via_mountfs_root=False):
        from fs.memoryfs import MemoryFS
        self.log = env["log"]
        self.mount = mount
        if mount:
            from fs.mountfs import MountFS
            self.members = [MemoryFS(), MemoryFS()]
            box = ("m0",) + tuple("s%d" % i for i in range(depth))
            for i, mem in enumerate(self.members):
                for lv in levels_of(box[1:]):
                    for comps, content in subtree_entries(("m%d" % i,) + lv):
                        mem.makedirs("/".join(comps[1:-1]), recreate=True)
                        mem.writebytes("/".join(comps[1:]), content)
            top = MountFS()
            top.mount("m0", env["rec"][0](self.members[0]))
            top.mount("m1", env["rec"][1](self.members[1]))
        else:
            box = tuple("s%d" % i for i in range(depth))
            self.members = [MemoryFS()]
            for lv in levels_of(box):
                for comps, content in subtree_entries(lv):
                    self.members[0].makedirs("/".join(comps[:-1]), recreate=True)
                    self.members[0].writebytes("/".join(comps), content)
            top = env["rec"][0](self.members[0])
        self.top = top
        f = top
        for sname in (() if via_mountfs_root else box):
            f = f.opendir(sname)
        self.fs = f
        self.box = () if via_mountfs_root else box
        self.tprefix = ("m0",) if via_mountfs_root else ()
        self.pristine = self.snapshot()
        del self.log[:]

    def snapshot(self):
        out = {}
        for i, mem in enumerate(self.members):
            if self.mount:
                out["m%d" % i] = None
            mem_tree(mem, "m%d/" % i if self.mount else "", out)
        return out

    def _member(self, key):
        if not self.mount:
            return self.members[0], key
        head, _sep, rest = key.partition("/")
        return self.members[int(head[1:])], rest

    def gt_del(self, key, isdir):
        mem, k = self._member(key)
        if k and mem.exists(k):
            (mem.removetree if mem.isdir(k) else mem.remove)(k)

    def gt_put(self, key, content):
        mem, k = self._member(key)
        if not k:
            return
        if content is None:
            mem.makedirs(k, recreate=True)
        else:
            mem.writebytes(k, content)

    def escaped(self, D):
        import fs.path as P
        want = "/" + "/".join(D[1:] if self.mount else D)
        out = []
        for ident, meth, got in self.log:
            if self.mount and ident != 0:
                out.append(("m%d:%s" % (ident, meth), got))
                continue
            try:
                n = P.abspath(P.normpath(got))
            except Exception:
                out.append((meth, got))
                continue
            if not P.isbase(want, n):
                out.append((meth, got))
        return out

    def close(self):
        for mem in self.members:
            mem.close()


class OSWorld(World):
    """A directory tree on the real file system with os/io/shutil/scandir of fs.osfs logged. mode 'osfs': OSFS opened on
    top/<box>; mode 'subfs': OSFS(top) then an opendir chain down to <box>; mode 'tempfs': TempFS(temp_dir=top/outer)."""

    def __init__(self, env, mode, depth):
        from fs.osfs import OSFS
        self.log = env["syslog"]
        env["n"] += 1
        self.os_top = top = os.path.join(env["base"], "w%d" % env["n"])
        os.makedirs(top)
        if mode == "tempfs":
            from fs.tempfs import TempFS
            os.makedirs(os.path.join(top, "outer"))
            self.base_fs = TempFS(temp_dir=os.path.join(top, "outer"))
            box = ("outer", os.listdir(os.path.join(top, "outer"))[0])
        else:
            box = tuple("s%d" % i for i in range(depth))
        for lv in levels_of(box):
            for comps, content in subtree_entries(lv):
                os.makedirs(os.path.join(top, *comps[:-1]), exist_ok=True)
                with open(os.path.join(top, *comps), "wb") as fh:
                    fh.write(content)
        if mode == "osfs":
            self.base_fs = self.fs = OSFS(os.path.join(top, *box))
        elif mode == "tempfs":
            self.fs = self.base_fs
        else:
            self.base_fs = f = OSFS(top)
            for sname in box:
                f = f.opendir(sname)
            self.fs = f
        self.box = box
        self.pristine = self.snapshot()
        del self.log[:]

    def snapshot(self):
        return os_snapshot(self.os_top)

    def gt_del(self, key, isdir):
        q = os.path.join(self.os_top, *key.split("/"))
        if os.path.isdir(q) and not os.path.islink(q):
            shutil.rmtree(q)
        elif os.path.lexists(q):
            os.remove(q)

    def gt_put(self, key, content):
        q = os.path.join(self.os_top, *key.split("/"))
        if content is None:
            os.makedirs(q, exist_ok=True)
        else:
            with open(q, "wb") as fh:
                fh.write(content)

    def escaped(self, D):
        return os_escaped(self.log, os.path.join(self.os_top, *D)) + unnormal(self.log)

    def url(self):
        return "osfs://" + os.path.join(self.os_top, *self.box)

    def close(self):
        try:
            self.base_fs.close()
        except Exception:  # noqa
            pass


def os_snapshot(top):
    out = {}
    n = len(top) + 1
    for r, dirs, files in os.walk(top):
        rel = r[n:].replace(os.sep, "/")
        rel = rel + "/" if rel else ""
        for d in dirs:
            out[rel + d] = None
        for f in files:
            with open(os.path.join(r, f), "rb") as fh:
                out[rel + f] = fh.read()
    return out


def os_escaped(log, allowed):
    a1, a2 = os.path.normpath(allowed), os.path.realpath(allowed)
    out = []
    for fn, sp in log:
        n = os.path.normpath(sp)
        if not (n == a1 or n.startswith(a1 + os.sep) or n == a2 or n.startswith(a2 + os.sep)):
            out.append((fn, sp))
    return out


class ArchiveWorld(World):
    """A read-only zip / tar archive holding the decoy tree (levels: archive root, s0, s0-private)."""
    readonly = True
    log = []

    def __init__(self, env, kind, depth):
        from fs.zipfs import ZipFS
        from fs.tarfs import TarFS
        self.path = env["archives"][kind]
        self.kind = kind
        self.base_fs = f = (ZipFS if kind == "zip" else TarFS)(self.path)
        box = ("s0",)[:depth]
        for sname in box:
            f = f.opendir(sname)
        self.fs, self.box = f, box
        self.pristine = env["archive_gt"]

    def snapshot(self):
        return self.pristine

    def escaped(self, D):
        return []

    def url(self):
        return "%s://%s" % (self.kind, self.path) + ("!/" + "/".join(self.box) if self.box else "")

    def close(self):
        try:
            self.base_fs.close()
        except Exception:  # noqa
            pass


def build_archives(env):
    import zipfile
    import tarfile
    entries = {}
    for lv in levels_of(("s0",)):
        for comps, content in subtree_entries(lv):
            for i in range(1, len(comps)):
                entries["/".join(comps[:i])] = None
            entries["/".join(comps)] = content
    zp, tp = os.path.join(env["base"], "tree.zip"), os.path.join(env["base"], "tree.tar")
    with zipfile.ZipFile(zp, "w") as z:
        for k in sorted(entries):
            if entries[k] is not None:
                z.writestr(k, entries[k])
    with tarfile.open(tp, "w") as t:
        for k in sorted(entries):
            ti = tarfile.TarInfo(k)
            if entries[k] is None:
                ti.type = tarfile.DIRTYPE
                t.addfile(ti)
            else:
                ti.size = len(entries[k])
                t.addfile(ti, io.BytesIO(entries[k]))
    env["archives"] = dict(zip=zp, tar=tp)
    env["archive_gt"] = entries


class logged_osfs(object):
    """Context manager: os / io / shutil / scandir of fs.osfs (and shutil / tempfile of fs.tempfs) replaced by logging
    proxies writing into `log`."""
    def __init__(self, log):
        self.log, self.saved = log, []

    def __enter__(self):
        import fs.osfs as mod
        import fs.tempfs as tmod
        import fs.base as bmod            # (FS.move renames with os.rename on the two system paths itself)
        log = self.log
        for m, names in ((mod, ("os", "io", "shutil")), (tmod, ("shutil", "tempfile")), (bmod, ("os",))):
            for name in names:
                if hasattr(m, name):
                    self.saved.append((m, name, getattr(m, name)))
                    setattr(m, name, Logger(getattr(m, name), log, name))
        if getattr(mod, "scandir", None) is not None:
            real_scandir = mod.scandir
            self.saved.append((mod, "scandir", real_scandir))

            def scandir_logged(p):
                t = _text(os.fspath(p))
                log.append(("scandir", t if t.startswith(os.sep) else os.path.abspath(t)))
                return real_scandir(p)
            mod.scandir = scandir_logged
        return self

    def __exit__(self, *exc):
        for m, name, v in reversed(self.saved):
            setattr(m, name, v)
        return False


def subfs_apis():
    """The public FS methods that hand back a filesystem object, found by calling every single-path method on a
    scratch MemoryFS (existing and new directory), with the keyword variants their signatures offer:
    (label, method, kwargs, wants) with wants in 'existing' / 'new' / 'both'."""
    from fs.base import FS
    from fs.memoryfs import MemoryFS
    from fs.subfs import SubFS, ClosingSubFS
    out = []
    for (m, params, positions) in public_methods():
        if len(positions) != 1 or "." in m:
            continue
        hit = {}
        for label, path in (("existing", "data"), ("new", "fresh")):
            scratch = MemoryFS()
            scratch.makedirs("data")
            try:
                hit[label] = isinstance(getattr(scratch, m)(*build_args(params, positions, positions[0], path)), FS)
            except Exception:  # noqa
                hit[label] = False
            scratch.close()
        if not (hit["existing"] or hit["new"]):
            continue
        base_wants = "existing" if not hit["new"] else "new"
        out.append((m, m, {}, base_wants))
        if "factory" in params:
            out.append((m + "(factory=SubFS)", m, dict(factory=SubFS), base_wants))
            out.append((m + "(factory=ClosingSubFS)", m, dict(factory=ClosingSubFS), base_wants))
        if "recreate" in params:
            out.append((m + "(recreate=True)", m, dict(recreate=True), "both"))
    return out


def check_returned(w, X, D, ctx, deep=None, gt0=None):
    """The containment battery on an object X returned by a call, which must denote directory D (components in the
    world's ground-truth namespace): everything it discloses, reads, creates, modifies or deletes lies inside D.
    Returns (findings, number of calls made, last snapshot taken or None)."""
    bad = []
    D = tuple(D)
    if gt0 is None:
        gt0 = w.snapshot()
    ncalls = [0]
    last = None

    def note(why, **kw):
        c = dict(ctx)
        c.update(kw)
        c["denotes"] = "/" + "/".join(D)
        bad.append((why, c))

    def step(name, *a):
        del w.log[:]
        ncalls[0] += 1
        try:
            res = ("ok", consume(resolve(X, name)(*a), exercise=False))
        except Exception as e:  # noqa
            res = ("exc", e)
        esc = w.escaped(D)
        if esc:
            note("an object returned by a call reached outside the directory it denotes", op=name, args=repr(a)[:80],
                 received=esc[:4])
        return res

    def key(*more):
        return "/".join(D + tuple(more))

    expected = sorted(set(k.split("/")[len(D)] for k in gt0 if under(k, D) and len(k.split("/")) > len(D)))
    st, v = step("listdir", "/")
    if st == "ok" and sorted(v) != expected:
        note("a returned filesystem lists another directory than the one its path denotes", listed=sorted(v)[:8],
             expected=expected[:8])
    st, v = step("readbytes", "marker")
    if st == "ok" and v != gt0.get(key("marker")):
        note("a returned filesystem discloses a file outside the directory its path denotes", got=repr(v),
             expected=repr(gt0.get(key("marker"))))
    for name in DECOY_NAMES:
        st, v = step("exists", name)
        if st == "ok" and v != (key(name) in gt0):
            note("a returned filesystem answers for a resource outside the directory its path denotes", name=name, got=v)
    st, v = step("getsyspath", "/")
    if st == "ok" and w.os_top is not None:
        want = os.path.realpath(os.path.join(w.os_top, *D))
        if os.path.realpath(v) != want:
            note("a returned filesystem discloses a system path outside the directory its path denotes", got=v, expected=want)
    if not w.readonly:
        wst, _v = step("writebytes", "probe.bin", b"probe")
        step("makedirs", "pd/q")
        if key("marker") in gt0:
            step("appendbytes", "marker", b"+")
        gt1 = w.snapshot()
        out = diff_outside(gt0, gt1, D)
        if out:
            note("a returned filesystem created or modified something outside the directory its path denotes", changed=out[:6])
        elif wst == "ok" and gt1.get(key("probe.bin")) != b"probe":
            note("a write through a returned filesystem did not land in the directory its path denotes",
                 found=[k for k in gt1 if k.endswith("probe.bin")][:4])
        step("remove", "probe.bin")
        step("removetree", "pd")
        step("remove", "../marker")
        step("removetree", "../data")
        if deep is None:
            last = w.snapshot()
            out = diff_outside(gt0, last, D)
            if out:
                note("a returned filesystem deleted something outside the directory its path denotes", changed=out[:6])
    if deep is not None:
        methods, paths = deep
        for (m, params, positions) in methods:
            for which in positions:
                for p in paths:
                    step(m, *build_args(params, positions, which, p, safe="marker"))
        if not w.readonly:
            last = w.snapshot()
            out = diff_outside(gt0, last, D)
            if out:
                note("the method battery on a returned filesystem changed something outside the directory it denotes",
                     changed=out[:6])
    return bad, ncalls[0], last


def world_kinds(thorough):
    """(name, factory, chained): chained = also sweep the APIs on results of opendir on it."""
    kinds = [("SubFS^1/mem", lambda env: MemWorld(env, 1), True), ("SubFS^2/mem", lambda env: MemWorld(env, 2), thorough),
             ("OSFS", lambda env: OSWorld(env, "osfs", 2), True), ("SubFS^1/OSFS", lambda env: OSWorld(env, "subfs", 1), thorough),
             ("MountFS", lambda env: MemWorld(env, 0, mount=True, via_mountfs_root=True), True),
             ("SubFS^1/MountFS", lambda env: MemWorld(env, 0, mount=True), thorough),
             ("ZipFS", lambda env: ArchiveWorld(env, "zip", 0), True),
             ("SubFS^1/TarFS", lambda env: ArchiveWorld(env, "tar", 1), thorough),
             ("TempFS", lambda env: OSWorld(env, "tempfs", 0), False)]
    if thorough:
        kinds += [("SubFS^3/mem", lambda env: MemWorld(env, 3), False), ("SubFS^2/OSFS", lambda env: OSWorld(env, "subfs", 2), False),
                  ("SubFS^2/MountFS", lambda env: MemWorld(env, 1, mount=True), False),
                  ("SubFS^1/ZipFS", lambda env: ArchiveWorld(env, "zip", 1), False),
                  ("TarFS", lambda env: ArchiveWorld(env, "tar", 0), False)]
    return kinds


def run_returned(rnd, thorough, seed):
    """Sub-filesystems obtained through every API that returns one x every spelling class x every backend kind (and the
    same again on a result of opendir), each put through check_returned."""
    import fs.opener
    results, bad = [], []
    env = dict(log=[], syslog=[], n=0, base=os.path.realpath(tempfile.mkdtemp(prefix="pyfs2verif_", dir=fast_tmp())))
    env["rec"] = [make_recording(env["log"], 0), make_recording(env["log"], 1)]
    apis = subfs_apis()
    methods = public_methods()
    all_texts = [t for tg in EXISTING_TARGETS + NEW_TARGETS for _c, t in spellings(tg)]
    denote = model_denotations(all_texts)
    model_mismatch = []
    for tg in EXISTING_TARGETS + NEW_TARGETS:
        for c, t in spellings(tg):
            if denote.get(t) != tuple(tg):
                model_mismatch.append((c, t, denote.get(t)))
    cov = dict(apis=[a[0] for a in apis] + ["opener.open(url!path)+opendir"], kinds=[],
               spelling_classes=sorted(set(c for tg in EXISTING_TARGETS + NEW_TARGETS for c, _t in spellings(tg))),
               objects_checked=0, objects_deep=0, calls_on_returned=0, raised_instead=0, url_objects=0,
               chained_objects=0, spellings_confirmed_by_model=len(all_texts) - len(model_mismatch))
    if model_mismatch:
        bad.append(("a spelling does not denote the intended directory according to Sandbox.v (harness/model disagreement)",
                    dict(examples=model_mismatch[:4])))

    def cases_for(wants, salt):
        """(target, class, text): every class for every target (thorough) or every class once, targets rotating (quick)."""
        targets = {"existing": EXISTING_TARGETS, "new": NEW_TARGETS, "both": EXISTING_TARGETS + NEW_TARGETS}[wants]
        triples = [(tg, c, t) for tg in targets for c, t in spellings(tg)]
        if thorough:
            return triples
        by_class = {}
        for tg, c, t in triples:
            by_class.setdefault(c, []).append((tg, c, t))
        return [by_class[c][(i + salt + seed) % len(by_class[c])] for i, c in enumerate(sorted(by_class))]

    def one(w, kind, label, cls, arg, D, get, via=None, deep_ok=True):
        """Obtain an object with get() and put it through the battery; the world is restored afterwards."""
        gt0 = w.pristine
        there = lambda comps: not comps or "/".join(comps) in gt0  # noqa: E731
        fresh = D[-1:] == ("new",)
        if (fresh and (there(D) or not there(D[:-1]))) or (not fresh and not there(D)):
            return
        del w.log[:]
        last = None
        try:
            try:
                X = get()
            except Exception as e:  # noqa
                cov["raised_instead"] += 1
                results.append((kind, label, cls, "exc:" + type(e).__name__, 0))
                return
            if fresh:      # the directory the call was asked to create belongs to the baseline
                gt0 = dict(gt0)
                gt0["/".join(D)] = None
            deep = None
            if deep_ok and (rnd.random() < (0.02 if thorough else 0.015)):
                deep = (methods, PROBE_PATHS if thorough else PROBE_PATHS[::2])
                cov["objects_deep"] += 1
            b, n, last = check_returned(w, X, D, dict(fs=kind, api=label, spelling_class=cls, path=arg, via=via),
                                        deep=deep, gt0=gt0)
            bad.extend(b)
            cov["objects_checked"] += 1
            cov["calls_on_returned"] += n
            results.append((kind, label, cls, "bad" if b else "ok", n))
        finally:
            w.restore(last)

    try:
        build_archives(env)
        with logged_osfs(env["syslog"]):
            for kind, factory, chained in world_kinds(thorough):
                cov["kinds"].append(kind)
                w = factory(env)
                try:
                    # the filesystem under test itself, then results of opendir on it (chained)
                    stems = [((), None)]
                    if chained:
                        for t1 in ((), ("data",)):
                            sp = spellings(t1)
                            stems += [(t1, x) for x in rnd.sample(sp, 2 if thorough else 1)]
                    def stem(ww, t1, s1):
                        F, box, pre = ww.fs, tuple(ww.box), tuple(ww.tprefix)
                        if s1 is not None:
                            F = F.opendir("/".join(pre) + "/" + s1[1] if pre else s1[1])
                            box, pre = box + pre + tuple(t1), ()
                        return F, box, pre

                    for si, (t1, s1) in enumerate(stems):
                        try:
                            F, box, pre = stem(w, t1, s1)
                        except Exception:  # noqa
                            cov["raised_instead"] += 1
                            continue
                        for ai, (label, m, kwargs, wants) in enumerate(apis):
                            cases = cases_for(wants, ai + si)
                            if s1 is not None and not thorough:
                                cases = cases[(ai + seed) % 3::3]
                            # an object that closes its parent when it is dropped gets a world of its own
                            closing = any(getattr(v, "__name__", "").startswith("Closing") for v in kwargs.values())
                            for (tg, cls, text) in cases:
                                arg = ("/".join(pre) + "/" + text) if pre else text
                                before = cov["objects_checked"]
                                ww, FF = w, F
                                if closing:
                                    ww = factory(env)
                                    FF = stem(ww, t1, s1)[0]
                                try:
                                    one(ww, kind, label, cls, arg, box + pre + tuple(tg),
                                        lambda: getattr(FF, m)(arg, **kwargs),
                                        via=None if s1 is None else "opendir(%r)" % s1[1])
                                finally:
                                    if closing:
                                        ww.close()
                                if s1 is not None:
                                    cov["chained_objects"] += cov["objects_checked"] - before
                    # a URL with a sub-path: opener.open() hands back (filesystem, path) for the caller to open
                    if hasattr(w, "url"):
                        for (tg, cls, text) in cases_for("existing", 0):
                            url = w.url() + ("!" + text if "!" not in w.url() else "/" + text)
                            opened = []

                            def get():
                                f, sub = fs.opener.open(url, writeable=not w.readonly)
                                opened.append(f)
                                return f.opendir(sub) if sub else f
                            before = cov["objects_checked"]
                            one(w, kind, "opener.open(url!path)+opendir", cls, url, tuple(w.box) + tuple(tg), get, deep_ok=False)
                            cov["url_objects"] += cov["objects_checked"] - before
                            for f in opened:
                                try:
                                    f.close()
                                except Exception:  # noqa
                                    pass
                finally:
                    w.close()
    finally:
        shutil.rmtree(env["base"], ignore_errors=True)
    return results, bad, cov


# --------------------------------------------------------------------------- round 3: constructor arguments x process state
STATE_VARS = ("HOME", "PYFS2V_ROOT", "PYFS2V_REL")
# (working directory below the side directory, root spelling); ABS/x stands for <top>/x
ROOT_CASES = [("", "jail"), ("", "./jail"), ("", "zz/../jail"), ("", "jail/"), ("", "jail//data/.."), ("jail", "."),
              ("jail", ""), ("jail", "../jail"), ("jail/data", ".."), ("", "~/jail"), ("jail", "~"),
              ("", "$PYFS2V_ROOT/jail"), ("", "${PYFS2V_ROOT}/jail"), ("", "$PYFS2V_REL"), ("", "./$PYFS2V_REL/"),
              ("", "ABS/A/jail"), ("", "ABS/B/../A/jail/")]
NEW_ROOT_CASES = [("", "newjail"), ("", "./deep/newjail/"), ("jail", "../newjail2")]
URL_CASES = [("", "osfs://jail", None), ("", "jail", None), ("", "file://./jail", None), ("", "osfs://zz/../jail/", None),
             ("jail", "osfs://.", None), ("", "osfs://~/jail", None), ("", "osfs://.", "jail"), ("", "osfs://jail", "."),
             ("", "osfs://data", "./jail"), ("", "osfs://ABS/A/jail", None), ("jail", "osfs://jail", "ABS/A"),
             ("", "osfs://jail!data", None)]
NEW_URL_CASES = [("", "osfs://newjail3", None), ("", "osfs://newjail4", "jail")]
TEMP_DIR_CASES = [("", "tmpd"), ("", "./tmpd"), ("tmpd", "."), ("", "jail/../tmpd"), ("", "ABS/A/tmpd")]


def keyword_space(f, special=()):
    """By reflection: the keyword parameters of a constructor / opener and the values to drive them with
    (booleans: both; an integer mode: the default and a stricter one); the others are returned as unvaried."""
    space, unvaried = {}, []
    params = list(inspect.signature(f).parameters.values())
    for prm in params:
        if prm.name == "self" or prm.default is inspect.Parameter.empty or prm.name in special:
            continue
        d = prm.default
        if isinstance(d, bool):
            space[prm.name] = [d, not d]
        elif isinstance(d, int) and "mode" in prm.name:
            space[prm.name] = [d, 0o700]
        else:
            unvaried.append(prm.name)
    return space, unvaried


def keyword_combos(space, thorough, salt):
    names = sorted(space)
    bools = [n for n in names if isinstance(space[n][0], bool)]
    others = [n for n in names if n not in bools]
    out = []
    for i, combo in enumerate(itertools.product(*[space[n] for n in bools])):
        kw = dict(zip(bools, combo))
        if thorough:
            for rest in itertools.product(*[space[n] for n in others]):
                k2 = dict(kw)
                k2.update(zip(others, rest))
                out.append(k2)
        else:
            for j, n in enumerate(others):
                kw[n] = space[n][(i + j + salt) % len(space[n])]
            out.append(kw)
    return out


class StateWorld(OSWorld):
    """Two mirrored working directories A and B (same names, different markers), two home directories, and the process
    state (cwd, HOME, $PYFS2V_ROOT, $PYFS2V_REL) switched between construction (side A) and use (side B)."""
    box = ()

    def __init__(self, env):
        self.log = env["syslog"]
        env["n"] += 1
        self.os_top = os.path.join(env["base"], "c%d" % env["n"])
        os.makedirs(self.os_top)
        for side in ("A", "B"):
            for comps in ((side,), (side, "jail")):
                self.plant(comps)
        self.pristine = self.snapshot()

    def prepare(self, cwd_rel, spelled):
        """Plant the decoy subtree in every directory the spelling can denote: literally / expanded, in the state of
        the construction (side A) and in the state of the use (side B)."""
        for side in ("B", "A"):
            self.state(side, cwd_rel)
            for c in self.denotations(spelled).values():
                if c is not None:
                    self.plant(c)
        self.pristine = self.snapshot()

    def plant(self, comps):
        for c, content in subtree_entries(comps):
            q = os.path.join(self.os_top, *c)
            if not os.path.exists(q):
                os.makedirs(os.path.dirname(q), exist_ok=True)
                with open(q, "wb") as fh:
                    fh.write(content)

    def state(self, side, cwd_rel):
        os.chdir(os.path.join(self.os_top, side, *[c for c in cwd_rel.split("/") if c]))
        os.environ["HOME"] = os.path.join(self.os_top, "home" + side)
        os.environ["PYFS2V_ROOT"] = os.path.join(self.os_top, side)
        os.environ["PYFS2V_REL"] = "jail" if side == "A" else "sub"

    def comps(self, abs_path):
        n = os.path.normpath(abs_path)
        if n == self.os_top:
            return ()
        if not n.startswith(self.os_top + os.sep):
            return None
        return tuple(n[len(self.os_top) + 1:].split(os.sep))

    def denotations(self, text):
        """What a root spelling denotes in the CURRENT process state, by Python's os.path (the reference):
        literally, with '~' expanded, with '~' and variables expanded."""
        return dict(literal=self.comps(os.path.abspath(text)), user=self.comps(os.path.abspath(os.path.expanduser(text))),
                    full=self.comps(os.path.abspath(os.path.expanduser(os.path.expandvars(text)))))


def run_ctor_state(rnd, thorough, seed):
    """OSFS / TempFS / osfs:// opener keyword arguments (by reflection) x relative, '~' and '$VAR' root spellings; the
    working directory, HOME and the variables change between construction and use; the containment battery then runs
    against the directory the root denoted at construction time (system-call log + whole-tree snapshot + markers)."""
    import pathlib
    import fs.opener
    from fs.osfs import OSFS
    from fs.tempfs import TempFS
    results, bad = [], []
    env = dict(syslog=[], n=0, base=os.path.realpath(tempfile.mkdtemp(prefix="pyfs2verif_", dir=fast_tmp())))
    methods = public_methods()
    saved_cwd = os.getcwd()
    saved_env = dict((k, os.environ.get(k)) for k in STATE_VARS)
    osfs_space, osfs_unvaried = keyword_space(OSFS.__init__, special=("root_path",))
    open_space, open_unvaried = keyword_space(fs.opener.registry.open_fs, special=("cwd", "default_protocol"))
    temp_space, temp_unvaried = keyword_space(TempFS.__init__, special=("temp_dir", "identifier"))
    cov = dict(osfs_keywords=sorted(osfs_space), opener_keywords=sorted(open_space) + ["cwd", "default_protocol"],
               tempfs_keywords=sorted(temp_space) + ["temp_dir", "identifier"],
               unvaried_keywords=osfs_unvaried + open_unvaried + temp_unvaried,
               root_spellings=len(ROOT_CASES) + len(NEW_ROOT_CASES), url_spellings=len(URL_CASES) + len(NEW_URL_CASES),
               constructions=0, constructions_refused=0, calls_after_state_change=0, sub_objects_checked=0,
               deep_batteries=0, tilde_expanded_although_expand_vars_false=0, root_argument_types=set())

    def absify(w, text):
        return text.replace("ABS/", w.os_top + "/")

    def note(why, **ctx):
        bad.append((why, ctx))

    def drive(w, label, cwd_rel, spelled, admissible, build, kw, subpath=(), with_sub=True):
        """build() under state A; identify the root; switch to state B; battery; restore."""
        w.state("A", cwd_rel)
        den = w.denotations(spelled)
        cands = [den[k] for k in admissible if den[k] is not None]
        ctx = dict(constructor=label, root=spelled, keywords=repr(kw), cwd_at_construction="A/" + cwd_rel)
        F = None
        try:
            del w.log[:]
            try:
                F = build()
            except Exception as e:  # noqa
                cov["constructions_refused"] += 1
                results.append((label, spelled, "exc:" + type(e).__name__, 0))
                if not is_fs_error(e):
                    results.append((label, spelled, "crash:" + type(e).__name__, 0))
                return
            cov["constructions"] += 1
            gt0 = w.snapshot()
            # (OSFS.__init__ probes case sensitivity with a NamedTemporaryFile in the system temp directory: a fixed
            # probe, not driven by any path argument - exempted here, at construction time only)
            systmp = os.path.realpath(tempfile.gettempdir())
            esc = [x for x in w.log if all(os_escaped([x], os.path.join(w.os_top, *c)) for c in cands)
                   and not any(os.path.join(w.os_top, *c).startswith(os.path.normpath(x[1]) + os.sep) for c in cands)
                   and os.path.dirname(os.path.realpath(x[1])) != systmp]
            if esc:
                note("constructing a filesystem touched system paths outside the directory its root argument denotes",
                     received=esc[:4], **ctx)
            # which directory did it open?  markers name the directory they live in
            D = None
            try:
                mk = F.readbytes("marker")
                hits = [k for k, v in gt0.items() if v == mk and k.endswith("marker")]
                D = tuple(hits[0].split("/")[:-1]) if len(hits) == 1 else None
            except Exception:  # noqa
                created = sorted(k for k in gt0 if k not in w.pristine)
                for c in cands:
                    if "/".join(c) in created:
                        D = c
            if D is not None and subpath:
                D = D[:-len(subpath)] if D[-len(subpath):] == tuple(subpath) else D
            if D is None or D not in cands:
                note("a filesystem was constructed on another directory than its root argument denotes",
                     opened=D, admissible=cands, **ctx)
                if D is None:
                    return
            if D == den.get("user") and D != den.get("literal") and "literal" in admissible and "full" not in admissible:
                cov["tilde_expanded_although_expand_vars_false"] += 1
            outside = diff_outside(w.pristine, gt0, D)
            outside = [k for k in outside if not "/".join(D).startswith(k + "/")]
            if outside:
                note("constructing a filesystem changed something outside the directory its root argument denotes",
                     changed=outside[:6], **ctx)
            # an object obtained before the state changes must stay anchored too
            Xb = None
            try:
                Xb = F.opendir("data") if not subpath else None
            except Exception:  # noqa
                pass
            w.state("B", cwd_rel)
            ctx["denoted_at_construction"] = "/" + "/".join(D)
            deep = None
            if rnd.random() < (0.2 if thorough else 0.06):
                deep = (methods, PROBE_PATHS if thorough else PROBE_PATHS[::2])
                cov["deep_batteries"] += 1
            c2 = dict(ctx, fs=label, api="constructor, then chdir / HOME / variables changed")
            b, n, last = check_returned(w, F, D + tuple(subpath), c2, deep=deep, gt0=gt0)
            b = [("after the working directory / environment changed, " + why, c) for why, c in b]
            bad.extend(b)
            cov["calls_after_state_change"] += n
            results.append((label, spelled, "bad" if b else "ok", n))
            if not subpath and with_sub:
                w.restore(last)
                for which, X in (("opendir before the change", Xb), ("opendir after the change", None)):
                    try:
                        X = X if X is not None else F.opendir("/data")
                    except Exception:  # noqa
                        continue
                    if "/".join(D + ("data",)) not in w.pristine:
                        continue
                    b, n, last = check_returned(w, X, D + ("data",), dict(c2, api=which), gt0=w.pristine)
                    bad.extend(("after the working directory / environment changed, " + why, c) for why, c in b)
                    cov["sub_objects_checked"] += 1
                    cov["calls_after_state_change"] += n
                    w.restore(last)
        finally:
            try:
                if F is not None:
                    F.close()
            except Exception:  # noqa
                pass
            w.state("A", "")
            w.restore()

    def new_world(cwd_rel, spelled):
        w = StateWorld(env)
        if "new" not in spelled:
            w.prepare(cwd_rel, spelled)
        return w

    try:
        with logged_osfs(env["syslog"]):
            # ---- OSFS(root, **keywords)
            for ci, (cwd_rel, text) in enumerate(ROOT_CASES + NEW_ROOT_CASES):
                w = new_world(cwd_rel, text)
                for ki, kw in enumerate(keyword_combos(osfs_space, thorough, ci + seed)):
                    with_sub = thorough or (ci + ki + seed) % 2 == 0
                    if "new" in text and not kw.get("create"):
                        if (ci + ki + seed) % 2:
                            continue
                    spelled = absify(w, text)
                    typ = (str, bytes, str, pathlib.Path)[(ci + ki + seed) % 4] if not thorough else None
                    for t in ([typ] if typ else [str, bytes, pathlib.Path]):
                        arg = spelled.encode() if t is bytes else (pathlib.Path(spelled) if t is pathlib.Path else spelled)
                        if t is pathlib.Path and spelled in ("", ):
                            arg = spelled
                        cov["root_argument_types"].add(t.__name__)
                        admissible = ("full",) if kw.get("expand_vars", True) else ("literal", "user")
                        drive(w, "OSFS", cwd_rel, str(arg) if t is pathlib.Path else spelled, admissible,
                              lambda: OSFS(arg, **kw), kw, with_sub=with_sub)
            # ---- open_fs(url, cwd=..., **keywords)
            for ci, (cwd_rel, url, cwd_kw) in enumerate(URL_CASES + NEW_URL_CASES):
                w = None
                for ki, kw in enumerate(keyword_combos(open_space, thorough, ci + seed)):
                    if "new" in url and not kw.get("create"):
                        continue
                    if w is None:
                        w = StateWorld(env)
                    u = absify(w, url)
                    kw2 = dict(kw)
                    if cwd_kw is not None:
                        kw2["cwd"] = absify(w, cwd_kw)
                    if "://" not in u and (ci + ki) % 2:
                        kw2["default_protocol"] = "file"
                    resource, _bang, sub = u.split("://", 1)[-1].partition("!")
                    # documented: the resource is taken relative to `cwd` (default: the process working directory)
                    # (a resource starting with '~' is expanded first and is then absolute)
                    spelled = resource if resource.startswith("~") else os.path.join(kw2.get("cwd", "."), resource)
                    subpath = tuple(c for c in sub.split("/") if c)
                    if "new" not in url and ki == 0:
                        w.prepare(cwd_rel, spelled)

                    def build():
                        f, pth = fs.opener.registry.open(u, **kw2) if subpath else (fs.opener.open_fs(u, **kw2), None)
                        return f.opendir(pth) if pth else f
                    drive(w, "open_fs", cwd_rel, spelled, ("full",), build, dict(kw2, url=u), subpath=subpath,
                          with_sub=thorough or (ci + ki + seed) % 2 == 0)
            # ---- TempFS(temp_dir=..., **keywords)
            for ci, (cwd_rel, text) in enumerate(TEMP_DIR_CASES):
                w = StateWorld(env)
                w.plant(("A", "tmpd"))
                w.plant(("B", "tmpd"))
                w.pristine = w.snapshot()
                for ki, kw in enumerate(keyword_combos(temp_space, thorough, ci + seed)):
                    spelled = absify(w, text)
                    kw2 = dict(kw, temp_dir=spelled)
                    if (ci + ki) % 2:
                        kw2["identifier"] = "id"
                    ctx = dict(constructor="TempFS", keywords=repr(kw2), cwd_at_construction="A/" + cwd_rel)
                    w.state("A", cwd_rel)
                    T = None
                    try:
                        del w.log[:]
                        try:
                            T = TempFS(**kw2)
                        except Exception as e:  # noqa
                            cov["constructions_refused"] += 1
                            results.append(("TempFS", text, "exc:" + type(e).__name__, 0))
                            continue
                        cov["constructions"] += 1
                        created = sorted((k for k in w.snapshot() if k not in w.pristine), key=len)
                        want = w.denotations(spelled)["full"]
                        if not created or tuple(created[0].split("/")[:-1]) != want:
                            note("a TempFS was created outside the temp_dir it was given", created=created[:4],
                                 temp_dir="/" + "/".join(want), **ctx)
                            continue
                        D = tuple(created[0].split("/"))
                        w.plant(D)
                        w.plant(("B",) + D[1:])       # the same relative location below the other working directory
                        gt0 = w.snapshot()
                        w.state("B", cwd_rel)
                        c2 = dict(ctx, fs="TempFS", api="constructor, then chdir / HOME / variables changed")
                        b, n, _last = check_returned(w, T, D, c2, gt0=gt0)
                        bad.extend(("after the working directory / environment changed, " + why, c) for why, c in b)
                        cov["calls_after_state_change"] += n
                        before_close = w.snapshot()
                        del w.log[:]
                        T.close()
                        esc = w.escaped(D)
                        out = diff_outside(before_close, w.snapshot(), D)
                        if esc or out:
                            note("after the working directory changed, closing a TempFS touched something outside its directory",
                                 received=esc[:4], changed=out[:6], **ctx)
                        results.append(("TempFS", text, "bad" if (b or esc or out) else "ok", n))
                    finally:
                        try:
                            if T is not None:
                                T.close()
                        except Exception:  # noqa
                            pass
                        w.state("A", "")
                        w.restore()
    finally:
        os.chdir(saved_cwd)
        for k, v in saved_env.items():
            if v is None:
                os.environ.pop(k, None)
            else:
                os.environ[k] = v
        shutil.rmtree(env["base"], ignore_errors=True)
    cov["root_argument_types"] = sorted(cov["root_argument_types"])
    return results, bad, cov


# --------------------------------------------------------------------------- round 4: the path alphabet
# (a) the oracle on system paths looks at their FORM too: what reaches os / io / shutil / scandir is lexically normal
#     (no '.', '..' or empty component - the kernel resolves those physically, through whatever a symlink points at),
#     lies below the root, and names - component for component, code point for code point - the location the extracted
#     model (Sandbox.v osfs_syspath) gives for one of the path arguments, an ancestor or a descendant of it;
# (b) the trees hold symbolic links that STAY inside the root (to '.', to a sibling, to a parent within the root, to
#     files) and every path-taking method is driven with spellings that go through them followed by '..';
# (c) every path position gets a Unicode dimension: compatibility look-alikes of '.', '..', '/', '\', NUL-like and
#     control characters, combining sequences and NFC/NFD pairs of one name, surrogates / unencodable names. What a
#     name denotes is decided by the bytes on disk: the tree holds such names for real (every file's content spells the
#     bytes of its own name), and decoys outside the root sit exactly where a folded spelling would land.
OUT = "OUTSIDE"          # token carried by the content of everything planted outside a root (and by the name of one
DECOY = "canary"         # witness file there); no argument ever spells it: the decoy the arguments name is DECOY
MTIME_NS = 1200000000 * 10 ** 9          # every planted file carries this modification time (a stable signature)

UP_ALIKES = [u"\u2025", u"\uff0e\uff0e", u"\u2024\u2024", u"\ufe52\ufe52", u".\uff0e", u"\u2024.", u"..\u200b", u"\ufeff..",
             u".\u00ad.", u"\u202e..", u"..\u0338", u"\u2026", u"%2e%2e", u". .", u"..\x00", u"\x00.."]
DOT_ALIKES = [u"\uff0e", u"\u2024", u"\ufe52", u"\u3002", u".\u200d"]
SLASH_ALIKES = [u"\uff0f", u"\u2215", u"\u2044", u"\u29f8", u"\\", u"\uff3c", u"\ufe68", u"\x00/"]
CONTROLS = [u"\x00", u"\u2400", u"\x01", u"\x7f", u"\n", u"\r", u"\t", u"\x1b", u"\x85", u"\u2028", u"\u200b", u"\ufeff"]
NORMAL_PAIRS = [(u"\u00e9.txt", u"e\u0301.txt"), (u"\u00c5", u"A\u030a"), (u"\uac00", u"\u1100\u1161")]     # (NFC, NFD)
COMPAT_NAMES = [u"\uff41", u"\ufb01", u"\u2460", u"\u00aa"]         # fold (NFKC) to 'a', 'fi', '1', 'a'
SURROGATES = [u"\udc80", u"\udcff", u"\ud800", u"\udfff", u"\udc2f", u"\udc2e\udc2e", u"\U0001f600", u"\U000e0001"]
# names of the Unicode dimension that exist for real inside the root (the directories hold a file 'm')
UNI_DIRS = [u"\u2025", u"\uff0e\uff0e", u"\uff0e", u"d/\u2025", u"\ufeff..", u"..\u0338"]
UNI_FILES = [NORMAL_PAIRS[0][0], NORMAL_PAIRS[0][1], NORMAL_PAIRS[1][0], NORMAL_PAIRS[1][1], u"\uff41", u"\udc80",
             u"..\uff0fm", u"..\\m", u"\u200b"]


def unicode_paths():
    """[(class, path)] - the Unicode dimension of a path position."""
    out = []
    for u in UP_ALIKES:
        out += [("up-alike", u), ("up-alike/name", u + "/m"), ("up-alike/name", u + "/a"),
                ("dir/up-alike/up-alike", "d/" + u + "/" + u + "/m"), ("up-alike/decoy", u + "/" + DECOY),
                ("up-alike/up-alike", u + "/" + u + "/x"), ("/up-alike/", "/" + u + "/")]
    for u in DOT_ALIKES:
        out += [("dot-alike", u), ("dot-alike x2", u + u), ("dir/dot-alike/..", "d/" + u + "/../f"),
                ("dot-alike + '.'", u + "./m"), ("dot-alike/../..", u + "/../../m")]
    for s in SLASH_ALIKES:
        out += [("..+slash-alike", ".." + s + "m"), ("name+slash-alike+..", "d" + s + ".." + s + ".." + s + "m"),
                ("slash-alike first", s + ".." + s + "m"), ("slash-alike only", s), ("name+slash-alike", "a" + s),
                ("up-alike+slash-alike", UP_ALIKES[0] + s + "m")]
    for c in CONTROLS:
        out += [("control", c), ("name+control", "a" + c), ("control+name", c + "a"), ("..+control", ".." + c + "/m"),
                ("dir/control/..", "d/" + c + "/.."), ("control/../..", c + "/../../m")]
    for nfc, nfd in NORMAL_PAIRS:
        out += [("nfc", nfc), ("nfd", nfd), ("dir/../nfc", "d/../" + nfc), ("dir/../nfd", "d/../" + nfd),
                ("nfd/..", nfd + "/.."), ("new below dir, nfd", "d/" + nfd)]
    for n in COMPAT_NAMES:
        out += [("compat-name", n), ("dir/../compat-name", "d/../" + n), ("compat-name/..", n + "/../a")]
    for s in SURROGATES:
        out += [("surrogate / non-BMP", s), ("dir/surrogate", "d/" + s), ("surrogate/..", s + "/.."),
                ("surrogate/../..", s + "/../../m"), ("..+surrogate", ".." + s)]
    seen, res = set(), []
    for c, p in out:
        if p not in seen:
            seen.add(p)
            res.append((c, p))
    return res


# (link, target): ONE link that closes a cycle per tree (with two, a breadth-first walk grows exponentially until the
# kernel's symlink limit; with one it is a chain that ends at that limit)
CYCLES = (("self", "."), ("d/up", ".."), ("d/e/up2", ".."))
PLAIN_LINKS = (("ls", "s"), ("d/ls2", "../s"), ("fl", "a"), ("d/fl2", "../a"), ("d/e/ltop", "../../s"))
LINK_PREFIXES = ("", "/", "s/../", "./")


def link_paths(cyc):
    """[(class, path)] - spellings that go THROUGH a symbolic link and then back with '..' (4 prefix spellings each)."""
    out = []
    for link in [cyc] + [l for l, _t in PLAIN_LINKS]:
        k = len(link.split("/"))
        tails = [("link", ""), ("link/..", "/.."), ("link/../name", "/../a"), ("link/..//", "/..//"), ("link/./..", "/./.."),
                 ("link/name", "/h"), ("link/../decoy", "/../" + DECOY), ("link/../..", "/../.."),
                 ("link/../../decoy", "/../../" + DECOY), ("link/link/..", "/" + cyc + "/.."),
                 ("link/../link", "/../" + link.split("/")[-1]), ("link/.. as often as the link is deep", "/.." * k),
                 ("link/name/../..", "/zz/../..")]
        for cls, tail in tails:
            for pre in LINK_PREFIXES:
                out.append((cls + (" (prefix %r)" % pre if pre else ""), pre + link + tail))
    return out


def _marker(rel):
    import binascii
    return b"inside:" + binascii.hexlify(os.fsencode(rel))


def tree_plan(cyc):
    """The tree of the alphabet sweeps, as [(relative name, 'dir' | 'file' | link target)] in creation order: plain files
    and directories and - cyc = (link, target) - symbolic links that stay inside the root (the link sweeps), or - cyc
    None - the names of the Unicode dimension and no link at all (there, an entry is what its name spells)."""
    plan = [("d", "dir"), ("d/e", "dir"), ("s", "dir")] + [(rel, "file") for rel in ("a", "d/f", "d/e/g", "s/h", "m")]
    if cyc:
        return plan + [(link, "->" + target) for link, target in PLAIN_LINKS + (cyc,)]
    for rel in UNI_DIRS:
        plan += [(rel, "dir"), (rel + "/m", "file")]
    return plan + [(rel, "file") for rel in UNI_FILES]


def plant_entry(root, rel, what):
    q = os.fsencode(os.path.join(root, *rel.split("/")))
    if what == "dir":
        os.mkdir(q)
    elif what == "file":
        with open(q, "wb") as fh:
            fh.write(_marker(rel))
        os.utime(q, ns=(MTIME_NS, MTIME_NS))
    else:
        os.symlink(what[2:], q)


def plant_tree(root, cyc):
    """Into `root` (created when missing); the content of every file spells the bytes of its own name."""
    os.makedirs(root, exist_ok=True)
    for rel, what in tree_plan(cyc):
        plant_entry(root, rel, what)


def repair_tree(root, cyc, pristine, now):
    """Bring the tree back to `pristine` by touching only what differs (whole rebuild when that does not do)."""
    root_b = os.fsencode(root)
    for k in sorted((k for k in now if now[k] != pristine.get(k)), key=len, reverse=True):
        if os.path.isdir(k) and not os.path.islink(k):
            shutil.rmtree(k)
        elif os.path.lexists(k):
            os.remove(k)
    gone = set(k for k in pristine if now.get(k) != pristine[k])
    for rel, what in tree_plan(cyc):
        q = os.fsencode(os.path.join(root, *rel.split("/")))
        if q in gone or not os.path.lexists(q):
            if os.path.lexists(q):
                shutil.rmtree(q) if os.path.isdir(q) and not os.path.islink(q) else os.remove(q)
            plant_entry(root, rel, what)
    if tree_sig(root) != pristine:
        empty_dir(root)
        plant_tree(root, cyc)
        return False
    return True


def empty_dir(top):
    top = os.fsencode(top)
    for n in os.listdir(top):
        q = os.path.join(top, n)
        if os.path.isdir(q) and not os.path.islink(q):
            shutil.rmtree(q)
        else:
            os.remove(q)


def plant_outside(outer, rootname):
    """Decoys around the root: the names a folded or physically resolved spelling would land on."""
    for rel in ("m", "a", "x", "d/f", "d/e/g", "s/h", DECOY, OUT + "-witness", rootname + "-private/secret", u"\u00e9.txt"):
        q = os.path.join(outer, *rel.split("/"))
        os.makedirs(os.path.dirname(q), exist_ok=True)
        with open(q, "wb") as fh:
            fh.write((OUT + ":" + rel).encode("utf8"))


def tree_sig(top, skip=None):
    """Cheap signature of a tree (no link followed, nothing read): {path bytes: (type, size, mtime, link target)}."""
    out = {}
    skip_b = os.fsencode(skip) if skip else None
    stack = [os.fsencode(top)]
    while stack:
        d = stack.pop()
        try:
            with os.scandir(d) as it:
                entries = list(it)
        except OSError:
            continue
        for e in entries:
            q = e.path
            if q == skip_b:
                continue
            try:
                if e.is_symlink():
                    out[q] = ("link", os.readlink(q))
                elif e.is_dir(follow_symlinks=False):
                    out[q] = ("dir",)
                    stack.append(q)
                else:
                    st = e.stat(follow_symlinks=False)
                    out[q] = ("file", st.st_mode & 0o170000, st.st_size, st.st_mtime_ns)
            except OSError:
                continue
    return out


def touches_file_system(fn):
    attr = fn.rsplit(".", 1)[-1]
    return fn == "scandir" or fn.startswith("shutil.") or attr in path_funcs()


def unnormal(log, roots=()):
    """Logged system paths, handed to a function that touches the file system, that are not lexically normal: the
    kernel resolves '..' physically (through symbolic links), so only a normal path denotes what its text says.
    (`os.path.join(root, '')` - the root with one trailing separator - is how OSFS spells its own root.)"""
    out = []
    for fn, sp in log:
        if not touches_file_system(fn) or not sp.startswith(os.sep):
            continue
        if sp.endswith(os.sep) and (sp[:-1] in roots or (not roots and os.path.normpath(sp) == sp[:-1])):
            continue
        if any(c in ("", ".", "..") for c in sp.split(os.sep)[1:]):
            phys = "..."
            if len(out) < 4:
                try:
                    phys = os.path.realpath(sp)
                except Exception:  # noqa
                    phys = "?"
            out.append((fn, sp, "the kernel resolves it to %s" % phys))
    return out


def rel_components(path, roots):
    n = os.path.normpath(path)
    for r in roots:
        if n == r:
            return ()
        if n.startswith(r + os.sep):
            return tuple(n[len(r) + 1:].split(os.sep))
    return None


def related(rel, anchors):
    """rel is one of the anchors, an ancestor or a descendant of one."""
    return any(rel[:len(a)] == a[:len(rel)] for a in anchors)


def unfaithful(log, roots, anchors):
    """Logged system paths below a root whose components are not - exactly, code point for code point - those of the
    location the model gives for one of the path arguments, of an ancestor or of a descendant of it."""
    out = []
    for fn, sp in log:
        if not touches_file_system(fn):
            continue
        rel = rel_components(sp, roots)
        if rel is not None and not related(rel, anchors):       # (outside: reported by the containment oracle)
            out.append((fn, sp))
    return out


def harvest(r, depth=0):
    """Everything a returned value discloses, as text (iterators are consumed, files read and closed; a returned
    filesystem is exercised under the caller's oracles)."""
    from fs.base import FS
    from fs.info import Info
    if isinstance(r, FS):
        consume(r)
        return ""
    if r is None or isinstance(r, (str, bytes, int, float)):
        return repr(r)
    if isinstance(r, Info):
        return repr(r.raw)
    if hasattr(r, "read") and hasattr(r, "close"):
        data = ""
        try:
            data = repr(r.read(4096))
        except Exception:  # noqa
            pass
        finally:
            r.close()
        return data + repr(getattr(r, "name", ""))
    if depth > 4:
        return repr(r)
    if isinstance(r, dict):
        return " ".join(harvest(k, depth + 1) + harvest(v, depth + 1) for k, v in list(r.items()))
    if inspect.isgenerator(r) or hasattr(r, "__next__") or hasattr(r, "__iter__"):
        return " ".join(harvest(x, depth + 1) for x in r)
    return repr(r)


class CallTimeout(BaseException):
    pass


class SweepAbandoned(Exception):
    """Three calls of one sweep did not return within the watchdog's 5 s: the rest of that sweep is skipped."""


def _on_alarm(_sig, _frm):
    raise CallTimeout()


def alphabet_kinds(thorough):
    """(kind, stride of the link sweep, stride of the Unicode sweep, factory(base, cyc) -> (filesystem, its root
    directory, the directory around it or None, closer), has link trees). A stride n > 1: every method position takes
    every n-th case, the offset rotating with the method and the seed."""
    from fs.osfs import OSFS
    from fs.tempfs import TempFS
    from fs.zipfs import ZipFS
    from fs.tarfs import TarFS

    def osfs(base, cyc):
        outer = os.path.join(base, "outer")
        root = os.path.join(outer, "root")
        plant_tree(root, cyc)
        plant_outside(outer, "root")
        f = OSFS(root)
        return f, root, outer, f.close

    def tempfs(base, cyc):
        outer = os.path.join(base, "outer")
        os.makedirs(outer)
        f = TempFS(temp_dir=outer)
        root = f.getsyspath("/").rstrip(os.sep)
        plant_tree(root, cyc)
        plant_outside(outer, os.path.basename(root))
        return f, root, outer, f.close

    def subfs(base, cyc):
        outer = os.path.join(base, "outer")
        root = os.path.join(outer, "root")
        plant_tree(root, cyc)
        plant_outside(outer, "root")
        top = OSFS(outer)
        return top.opendir("root"), root, outer, top.close

    def staging(cls):
        def make(base, cyc):
            # the staging directory of a write archive is a TempFS in the default temporary directory: for the time of
            # the construction that is a private directory, several levels below the harness' own (a library that
            # lets a path climb must find decoys there, not the machine's /tmp)
            stage = os.path.join(base, "outer", "stage")
            os.makedirs(stage)
            saved = tempfile.tempdir
            tempfile.tempdir = stage
            try:
                w = cls(os.path.join(base, "out.archive"), write=True)
            finally:
                tempfile.tempdir = saved
            root = w.delegate_fs().getsyspath("/").rstrip(os.sep)
            if os.path.dirname(root) != stage:
                w.close()
                raise RuntimeError("harness: the staging directory of a write archive is not where it was directed")
            plant_tree(root, None)
            plant_outside(stage, os.path.basename(root))

            def closer():
                empty_dir(root)
                w.close()
            return w, root, stage, closer
        return make
    q = not thorough
    return [("OSFS", 3 if q else 1, 4 if q else 1, osfs, True), ("TempFS", 6 if q else 1, 12 if q else 1, tempfs, True),
            ("SubFS^1/OSFS", 6 if q else 1, 12 if q else 1, subfs, True),
            ("WriteZipFS staging directory", 0, 16 if q else 1, staging(ZipFS), False),
            ("WriteTarFS staging directory", 0, 16 if q else 1, staging(TarFS), False)]


# functions of os / os.path / scandir that only look: a call that logged nothing else cannot have changed a tree
LOOKING = set("os." + n for n in ("stat", "lstat", "listdir", "scandir", "readlink", "access", "fsencode", "fsdecode", "fspath",
                                 "statvfs", "getcwd")) | {"scandir"}


def only_looked(calls):
    return all(fn in LOOKING or fn.startswith("os.path.") for fn, _sp in calls)


def run_alphabet(rnd, thorough, seed):
    """Symbolic links inside the root and the Unicode dimension, on every path position of every path-taking method
    (reflection), for OSFS / TempFS / SubFS over OSFS / the staging directory of write archives. Oracles: every system
    path is below the root, lexically normal, and faithful to the model's denotation of the arguments; nothing planted
    outside is disclosed; nothing outside changes; (Unicode sweep, where the tree holds no link) what is read and what
    changes on disk is - by its BYTES - the entry the argument denotes."""
    import binascii
    import re
    import signal
    results, bad = [], []
    methods = public_methods()
    uni = unicode_paths()
    cov = dict(kinds=[], unicode_paths=len(uni), unicode_classes=sorted(set(c for c, _p in uni)),
               link_trees=["%s -> %s" % c for c in CYCLES], plain_links=["%s -> %s" % c for c in PLAIN_LINKS],
               link_path_classes=len(link_paths("self")) // len(LINK_PREFIXES), link_prefix_spellings=list(LINK_PREFIXES),
               calls=0, calls_through_links=0, calls_unicode=0, accepted=0, refused_fs_error=0,
               raised_other=0, system_paths_judged=0, trees_repaired=0, trees_rebuilt=0, timeouts=0, model_denotations=0,
               content_markers_checked=0, disk_changes_checked=0, cases_thinned_for_walking_methods=0,
               sweeps_abandoned_after_timeouts=0, sweeps_cut_short_after_60_findings=0)
    base_top = os.path.realpath(tempfile.mkdtemp(prefix="pyfs2verif_", dir=fast_tmp()))
    old_handler = signal.signal(signal.SIGALRM, _on_alarm)
    n_world = [0]
    marker_re = re.compile(r"inside:([0-9a-f]+)")

    def sweep(kind, stride, factory, cyc, cases, salt):
        """cyc None: the Unicode sweep - the tree holds no link, so the entries on disk are exactly what the arguments
        denote (content and on-disk oracles apply)."""
        literal = cyc is None
        n_world[0] += 1
        base = os.path.join(base_top, "k%d" % n_world[0], "pad", "pad")   # (every root: five private levels deep)
        os.makedirs(base)
        log = []
        timeouts = 0
        bad0 = len(bad)
        denote = model_denotations([p for _c, p in cases] + ["a"])
        cov["model_denotations"] += len(denote)
        with logged_osfs(log):
            fsx, root, outer, closer = factory(base, cyc)
            roots = sorted(set([os.path.normpath(root), os.path.realpath(root)]))
            below = tuple(r + os.sep for r in roots)
            pristine = tree_sig(root)
            outside0 = tree_sig(outer, skip=root) if outer else None
            try:
                for mi, (m, params, positions) in enumerate(methods):
                    for which in positions:
                        mine = cases if stride == 1 else cases[(mi + which + salt) % stride::stride]
                        heavy = False
                        for ci, (cls, p) in enumerate(mine):
                            last = ci == len(mine) - 1
                            if heavy and not thorough and ci % 3 and not last:
                                cov["cases_thinned_for_walking_methods"] += 1
                                continue
                            del log[:]
                            args = build_args(params, positions, which, p)
                            blob, verdict = "", "ok"
                            try:
                                signal.setitimer(signal.ITIMER_REAL, 5.0)
                                try:
                                    blob = harvest(resolve(fsx, m)(*args))
                                finally:
                                    signal.setitimer(signal.ITIMER_REAL, 0)
                                cov["accepted"] += 1
                            except CallTimeout:
                                verdict = "timeout"
                                cov["timeouts"] += 1
                                timeouts += 1
                                if timeouts >= 3:
                                    cov["sweeps_abandoned_after_timeouts"] += 1
                                    raise SweepAbandoned()
                            except Exception as e:  # noqa
                                verdict = type(e).__name__
                                cov["refused_fs_error" if is_fs_error(e) else "raised_other"] += 1
                            calls = list(log)
                            heavy = heavy or len(calls) > 150
                            cov["calls"] += 1
                            cov["system_paths_judged"] += len(calls)
                            ctx = dict(fs=kind, tree_link="%s -> %s" % cyc if cyc else None, method=m, position=which,
                                       path=p, path_class=cls, verdict=verdict)
                            anchors = [a for a in (denote.get(p), denote.get("a")) if a is not None]
                            ctx["denotes"] = ["/" + "/".join(a) for a in anchors[:-1]] or "nothing (the model rejects it)"
                            esc = [(fn, sp) for fn, sp in calls
                                   if not ((os.path.normpath(sp) + os.sep).startswith(below))]
                            if esc:
                                bad.append(("a call reached a system path outside the root", dict(ctx, outside=esc[:4])))
                            un = unnormal(calls, roots)
                            if un:
                                bad.append(("a system path that is not lexically normal was handed to the operating system "
                                            "(the kernel resolves '..' physically, through symbolic links)",
                                            dict(ctx, system_paths=un[:4])))
                            uf = unfaithful(calls, roots, anchors)
                            if uf and not esc:
                                bad.append(("a call touched a location below the root that is not the one its path argument "
                                            "denotes (components compared with Sandbox.v osfs_syspath)",
                                            dict(ctx, system_paths=uf[:4])))
                            if OUT in blob:
                                i = blob.index(OUT)
                                bad.append(("a call disclosed a name or content planted outside the root",
                                            dict(ctx, disclosed=blob[max(0, i - 60): i + 40])))
                            if literal:
                                for hx in marker_re.findall(blob):
                                    cov["content_markers_checked"] += 1
                                    owner = tuple(os.fsdecode(binascii.unhexlify(hx)).split("/"))
                                    if not any(owner[:len(a)] == a for a in anchors):
                                        bad.append(("a call disclosed the content of another entry than the one whose bytes on "
                                                    "disk spell its path argument", dict(ctx, content_of="/".join(owner))))
                            results.append((kind, m, which, p, verdict, len(calls)))
                            if len(bad) - bad0 >= 60:          # (a broken sandbox: more of the same adds nothing)
                                cov["sweeps_cut_short_after_60_findings"] += 1
                                raise SweepAbandoned()
                            if only_looked(calls) and not last and not esc and not un:
                                continue          # (the signatures are taken at the end of every method position anyway)
                            if outer:
                                now = tree_sig(outer, skip=root)
                                if now != outside0:
                                    bad.append(("a call changed something outside the root",
                                                dict(ctx, changed=sorted(os.fsdecode(k) for k in set(now) | set(outside0)
                                                                         if now.get(k) != outside0.get(k))[:4])))
                                    for n in os.listdir(outer):
                                        q = os.path.join(outer, n)
                                        if q != root:
                                            shutil.rmtree(q) if os.path.isdir(q) and not os.path.islink(q) else os.remove(q)
                                    plant_outside(outer, os.path.basename(root))
                                    outside0 = tree_sig(outer, skip=root)
                            now = tree_sig(root)
                            if now != pristine:
                                if literal:
                                    for k in set(now) | set(pristine):
                                        if now.get(k) != pristine.get(k):
                                            cov["disk_changes_checked"] += 1
                                            rel = rel_components(os.fsdecode(k), roots)
                                            if rel is not None and not related(rel, anchors):
                                                bad.append(("a call created, changed or deleted another entry than the one whose "
                                                            "bytes on disk spell its path argument",
                                                            dict(ctx, entry="/".join(rel))))
                                if repair_tree(root, cyc, pristine, now):
                                    cov["trees_repaired"] += 1
                                else:
                                    cov["trees_rebuilt"] += 1
                                    pristine = tree_sig(root)
            except SweepAbandoned:
                pass
            finally:
                try:
                    closer()
                except Exception:  # noqa
                    pass
        shutil.rmtree(os.path.join(base_top, "k%d" % n_world[0]), ignore_errors=True)

    try:
        for ki, (kind, lstride, ustride, factory, with_links) in enumerate(alphabet_kinds(thorough)):
            cov["kinds"].append(kind)
            if with_links:
                for ci, cyc in enumerate(CYCLES):
                    if not thorough and kind != "OSFS" and ci != (seed + ki) % len(CYCLES):
                        continue
                    lp = link_paths(cyc[0])
                    if not thorough:       # every (link, tail) class, one prefix spelling each (rotating)
                        n = len(LINK_PREFIXES)
                        lp = [lp[i + (i // n + seed + ci) % n] for i in range(0, len(lp), n)]
                    before = cov["calls"]
                    sweep(kind, lstride, factory, cyc, lp, seed + ci)
                    cov["calls_through_links"] += cov["calls"] - before
            before = cov["calls"]
            sweep(kind, ustride, factory, None, uni, seed + ki)
            cov["calls_unicode"] += cov["calls"] - before
    finally:
        signal.setitimer(signal.ITIMER_REAL, 0)
        signal.signal(signal.SIGALRM, old_handler)
        shutil.rmtree(base_top, ignore_errors=True)
    return results, bad, cov


def run(report):
    proof = common.preflight(report)
    rnd = random.Random(report.seed + 3)
    thorough = report.tier == "thorough"
    paths = path_stream(rnd, 120 if thorough else 45)
    results, bad = [], []
    r, b = run_osfs(rnd, paths)
    results += [("OSFS",) + x for x in r]
    bad += b
    # the Unicode dimension of the path alphabet on the backends that are not the operating system's, too
    uni = [p for _c, p in unicode_paths()]
    uni = uni if thorough else uni[report.seed % 16::16]
    for depth in ((1, 2, 3) if thorough else (1, 2)):
        r, b = run_subfs(rnd, (paths if thorough else paths[:30]) + uni, depth)
        results += [("SubFS^%d" % depth,) + x for x in r]
        bad += b
    r, b = run_mount(rnd, paths[:40] + uni)
    results += [("MountFS",) + x for x in r]
    bad += b
    ar, b = run_archives()
    bad += b
    n_model, b = model_check(paths)
    model_bad = b
    rr, b, returned_cov = run_returned(rnd, thorough, report.seed)
    results += [(x[0], x[1], x[2], x[3], x[4]) for x in rr]
    bad += b
    cr, b, ctor_cov = run_ctor_state(rnd, thorough, report.seed)
    results += [(x[0], "constructor", x[1], x[2], x[3]) for x in cr]
    bad += b
    ar4, b, alphabet_cov = run_alphabet(rnd, thorough, report.seed)
    results += [(x[0], x[1], x[2], x[3], x[4]) for x in ar4]
    bad += b
    seen = set()
    pending_seen = set()
    for why, ctx in bad:
        sig = why + " " + str(ctx.get("method", ctx.get("kind", ctx.get("api", ""))))
        known = report.known_match(why)
        if known:
            report.known_finding(known)
            continue
        if why in PENDING_FINDINGS:
            if why not in pending_seen:
                pending_seen.add(why)
                print("PENDING-FINDING property=C03 signature=%r (waiting for an entry in known_findings.json)" % why)
            continue
        if sig in seen or len(seen) >= 10:
            continue
        seen.add(sig)
        report.violation(dict(kind="escapes-root", why=why, case=json.loads(json.dumps(ctx, default=repr)),
                              theorem="Props/C03.v"))
    if model_bad and not bad:
        report.violation(dict(kind="correspondence-broken", examples=model_bad[:5], theorem="Props/C03.v"), no_input=True)
    nontrivial = set((x[0], x[1], x[4]) for x in results)
    cov = dict(evaluations=len(results) + n_model, distinct_nontrivial=len(nontrivial),
               rule="every public FS method with a path parameter (reflection) x each path position x a '..'-heavy path "
                    "stream, on OSFS with os/io/shutil/scandir logged and a canary tree, SubFS depth 1-3 over a recording "
                    "parent, MountFS over recording members; crafted zip/tar archives; model vs real getsyspath / "
                    "delegate_path; non-trivial = distinct (kind, method, verdict)",
               samples=[dict(kind=x[0], method=x[1], position=x[2], path=x[3], verdict=x[4]) for x in results[:: max(1, len(results) // 6)][:6]],
               archive_queries=[list(x) for x in ar], disagreements_checked=len(bad) + len(model_bad),
               model_comparisons=n_model, traces_validated_against_impl=max(0, len(results) - len(bad)),
               bound_object_methods=[m for m, _p, _q in bound_methods()],
               returned_objects=returned_cov, constructor_state=ctor_cov, path_alphabet=alphabet_cov,
               unicode_paths_on_subfs_and_mountfs=len(uni))
    return report.finish(proof, cov, assumptions=[
        "the tree below the root contains no symbolic link leaving the root (the kernel, not a path string, would follow it)",
        "system paths are observed at the boundary of fs.osfs (os, io, shutil, scandir module attributes), fs.tempfs "
        "(shutil, tempfile) and fs.base (os); a relative system path is resolved against the working directory of the moment of the call",
        "the NamedTemporaryFile with which OSFS.__init__ probes case sensitivity in the system temp directory is a fixed "
        "probe independent of every path argument; it is exempted at construction time only",
        "with expand_vars=False the root may denote either the literal directory (documentation) or the one with '~' "
        "expanded (what OSFS does); whichever it opened at construction is the root it must stay in"])


def replay(report, path):
    with open(path) as fh:
        print(fh.read()[:3000])
    return 1
