"""C03 — no path argument escapes a filesystem's root.

Every public method of FS (by reflection) x every path-argument position x a '..'-heavy
path stream is run on: OSFS / TempFS with `os`, `io`, `shutil`, `scandir` replaced inside
fs.osfs by logging proxies (every system path is recorded) and a canary tree around the
root; SubFS at depth 1-3 over a recording parent; MountFS over recording members; crafted
zip/tar archives. The system path / delegated path predicted by the model (Sandbox/
Sandbox.v, extracted) is compared on a sample."""
from __future__ import print_function

import inspect
import io
import itertools
import json
import os
import random
import shutil
import tempfile

import common
from common import tok

COMPONENTS = ["..", ".", "", "a", "a.b", "d"]


def path_stream(rnd, n):
    out = ["..", "../x", "a/../..", "/..", "../../etc/passwd", "d/../../canary", "a/./../../x", "//..//", "....",
           "..a", "a..", "d/..", "d/../a", "./..", "../root/a", "/", "", "a", "d/e"]
    while len(out) < n:
        k = rnd.randint(1, 5)
        body = "/".join(rnd.choice(COMPONENTS) for _ in range(k))
        out.append(rnd.choice(["", "/"]) + body + rnd.choice(["", "/"]))
    return out[:n]


def public_methods():
    from fs.base import FS
    out = []
    for n in sorted(dir(FS)):
        if n.startswith("_") or isinstance(inspect.getattr_static(FS, n), property):
            continue
        f = getattr(FS, n, None)
        if not callable(f):
            continue
        try:
            params = [p.name for p in inspect.signature(f).parameters.values()]
        except (TypeError, ValueError):
            continue
        pos = [i for i, p in enumerate(params[1:]) if p in ("path", "src_path", "dst_path", "dir_path")]
        if pos:
            out.append((n, params[1:], pos))
    return out


def build_args(params, positions, which, path, safe="a"):
    args = []
    for i, p in enumerate(params):
        if i in positions:
            args.append(path if i == which else safe)
        elif p in ("data", "contents"):
            args.append(b"D")
        elif p == "text":
            args.append(u"T")
        elif p == "file":
            args.append(io.BytesIO(b"F"))
        elif p == "info":
            args.append({"details": {"modified": 1500000000}})
        elif p == "mode":
            args.append("w")
        elif p == "name":
            args.append("md5")
        elif p in ("create", "overwrite", "recreate", "wipe"):
            args.append(True)
        else:
            break
    return args


class Logger(object):
    """Module proxy: records the path-like arguments of every function called through it."""
    def __init__(self, real, log, name):
        self.__dict__["_real"] = real
        self.__dict__["_log"] = log
        self.__dict__["_name"] = name

    def __getattr__(self, attr):
        v = getattr(self._real, attr)
        if callable(v) and not isinstance(v, type):
            log, name = self._log, self._name

            def f(*a, **kw):
                for x in list(a) + list(kw.values()):
                    if isinstance(x, (str, bytes)) and (x if isinstance(x, str) else x.decode("utf8", "replace")).startswith(os.sep) \
                            and attr not in ("join", "split", "basename", "dirname", "normpath", "splitext", "commonprefix"):
                        log.append(("%s.%s" % (name, attr), x if isinstance(x, str) else x.decode("utf8", "replace")))
                return v(*a, **kw)
            return f
        if inspect.ismodule(v):
            return Logger(v, self._log, self._name + "." + attr)
        return v


def canary_snapshot(base, root):
    out = []
    for r, dirs, files in os.walk(base):
        if os.path.abspath(r).startswith(os.path.abspath(root)):
            dirs[:] = []
            continue
        for f in files:
            p = os.path.join(r, f)
            with open(p, "rb") as fh:
                out.append((p, fh.read()))
        for d in dirs:
            out.append((os.path.join(r, d), None))
    return sorted(out, key=lambda x: x[0])


def run_osfs(rnd, paths, temp=False):
    import fs.osfs as mod
    from fs.osfs import OSFS
    results, bad = [], []
    base = tempfile.mkdtemp(prefix="pyfs2verif_")
    log = []
    saved = {}
    try:
        os.makedirs(os.path.join(base, "outer", "root", "d", "e"))
        root = os.path.join(base, "outer", "root")
        with open(os.path.join(root, "a"), "wb") as fh:
            fh.write(b"inside")
        with open(os.path.join(base, "outer", "canary"), "wb") as fh:
            fh.write(b"canary")
        with open(os.path.join(base, "x"), "wb") as fh:
            fh.write(b"outside")
        os.makedirs(os.path.join(base, "outer", "sibling"))
        os.makedirs(os.path.join(base, "outer", "root-private"))
        with open(os.path.join(base, "outer", "root-private", "secret"), "wb") as fh:
            fh.write(b"outside")
        paths = list(paths) + ["../root-private/secret", "../root-private", "a/../../root-private/secret"]
        fsx = OSFS(root)
        for name in ("os", "io", "shutil"):
            saved[name] = getattr(mod, name)
            setattr(mod, name, Logger(saved[name], log, name))
        if getattr(mod, "scandir", None) is not None:
            saved["scandir"] = mod.scandir
            real_scandir = mod.scandir

            def scandir_logged(p):
                log.append(("scandir", p if isinstance(p, str) else p.decode("utf8", "replace")))
                return real_scandir(p)
            mod.scandir = scandir_logged
        before = canary_snapshot(base, root)
        real_root = os.path.realpath(root)
        for (m, params, positions) in public_methods():
            for which in positions:
                for p in paths:
                    del log[:]
                    args = build_args(params, positions, which, p)
                    try:
                        r = getattr(fsx, m)(*args)
                        if inspect.isgenerator(r) or hasattr(r, "__next__"):
                            r = list(r)
                        if hasattr(r, "close") and hasattr(r, "read"):
                            r.close()
                        verdict = "ok"
                        disclosed = None
                        if isinstance(r, str) and base in r:      # a system path (possibly inside a URL)
                            disclosed = r[r.index(base):]
                    except Exception as e:  # noqa
                        verdict = type(e).__name__
                        disclosed = None
                    outside = [(fn, sp) for fn, sp in log
                               if not (os.path.normpath(sp) == real_root or os.path.normpath(sp).startswith(real_root + os.sep)
                                       or os.path.normpath(sp) == os.path.normpath(root)
                                       or os.path.normpath(sp).startswith(os.path.normpath(root) + os.sep))]
                    if disclosed is not None:
                        dn = os.path.normpath(disclosed)
                        if not (dn == os.path.normpath(root) or dn.startswith(os.path.normpath(root) + os.sep)):
                            outside.append(("returned", disclosed))
                    results.append((m, which, p, verdict, len(log)))
                    if outside:
                        bad.append(("OSFS call reached a system path outside the root",
                                    dict(method=m, position=which, path=p, verdict=verdict, outside=outside[:4])))
            # restore the small tree in case something was removed
            for d in ("d/e",):
                os.makedirs(os.path.join(root, d), exist_ok=True)
            if not os.path.exists(os.path.join(root, "a")) or os.path.isdir(os.path.join(root, "a")):
                shutil.rmtree(os.path.join(root, "a"), ignore_errors=True)
                with open(os.path.join(root, "a"), "wb") as fh:
                    fh.write(b"inside")
        after = canary_snapshot(base, root)
        if before != after:
            bad.append(("canary tree around the OSFS root changed", dict(before=before[:6], after=after[:6])))
        fsx.close()
    finally:
        for name, v in saved.items():
            setattr(mod, name, v)
        shutil.rmtree(base, ignore_errors=True)
    return results, bad


def make_recording(log, ident):
    from fs.wrapfs import WrapFS
    from fs.base import FS

    class Rec(WrapFS):
        pass
    for n in dir(FS):
        if n.startswith("_"):
            continue
        f = getattr(WrapFS, n, None)
        if not callable(f) or isinstance(inspect.getattr_static(WrapFS, n), property):
            continue
        try:
            params = [p.name for p in inspect.signature(f).parameters.values()][1:]
        except (TypeError, ValueError):
            continue
        pos = [i for i, p in enumerate(params) if p in ("path", "src_path", "dst_path", "dir_path")]
        if not pos:
            continue

        def mk(n=n, f=f, pos=pos):
            def g(self, *a, **kw):
                for i in pos:
                    if i < len(a) and isinstance(a[i], str):
                        log.append((ident, n, a[i]))
                return f(self, *a, **kw)
            return g
        setattr(Rec, n, mk())
    return Rec


def run_subfs(rnd, paths, depth):
    from fs.memoryfs import MemoryFS
    import fs.path as P
    results, bad = [], []
    log = []
    inner = MemoryFS()
    subs = ["s%d" % i for i in range(depth)]
    full = "/".join(subs)
    inner.makedirs(full + "/d/e")
    inner.writebytes(full + "/a", b"inside")
    inner.writebytes("canary", b"canary")
    inner.makedirs("sibling")
    inner.writebytes("sibling/x", b"outside")
    # a sibling whose name starts with the sub-directory's own name (string-prefix vs component-prefix)
    twin = "/".join(subs[:-1] + [subs[-1] + "-private"])
    inner.makedirs(twin)
    inner.writebytes(twin + "/secret", b"outside")
    paths = list(paths) + ["../%s-private/secret" % subs[-1], "../%s-private" % subs[-1],
                           "x/../../%s-private/secret" % subs[-1], "../%s-private/new" % subs[-1]]
    parent = make_recording(log, 0)(inner)
    fsx = parent
    for s in subs:
        fsx = fsx.opendir(s)
    prefix = "/" + full

    def outside_snapshot():
        return (inner.readbytes("canary"), sorted(inner.listdir("/")), inner.readbytes("sibling/x"),
                sorted(inner.listdir("sibling")), sorted(inner.listdir(twin)),
                inner.readbytes(twin + "/secret") if inner.isfile(twin + "/secret") else None)
    base = outside_snapshot()
    for (m, params, positions) in public_methods():
        for which in positions:
            for p in paths:
                del log[:]
                args = build_args(params, positions, which, p)
                try:
                    r = getattr(fsx, m)(*args)
                    if inspect.isgenerator(r) or hasattr(r, "__next__"):
                        r = list(r)
                    if hasattr(r, "close") and hasattr(r, "read"):
                        r.close()
                    verdict = "ok"
                except Exception as e:  # noqa
                    verdict = type(e).__name__
                escaped = []
                for _i, meth, got in log:
                    try:
                        n = P.abspath(P.normpath(got))
                    except Exception:
                        escaped.append((meth, got))
                        continue
                    if not P.isbase(prefix, n):
                        escaped.append((meth, got))
                results.append((m, which, p, verdict, len(log)))
                if escaped:
                    bad.append(("SubFS delegated a path outside its sub-directory",
                                dict(depth=depth, method=m, position=which, path=p, verdict=verdict, received=escaped[:4])))
                if outside_snapshot() != base:
                    bad.append(("content outside the SubFS changed", dict(depth=depth, method=m, position=which, path=p)))
                    inner.makedirs(twin, recreate=True)
                    inner.writebytes(twin + "/secret", b"outside")
                    inner.writebytes("canary", b"canary")
                    inner.makedirs("sibling", recreate=True)
                    inner.writebytes("sibling/x", b"outside")
                    base = outside_snapshot()
                # keep the inside usable
                try:
                    inner.makedirs(full + "/d/e", recreate=True)
                    if not inner.isfile(full + "/a"):
                        if inner.isdir(full + "/a"):
                            inner.removetree(full + "/a")
                        inner.writebytes(full + "/a", b"inside")
                except Exception:
                    pass
    inner.close()
    return results, bad


def run_mount(rnd, paths):
    from fs.memoryfs import MemoryFS
    from fs.mountfs import MountFS
    results, bad = [], []
    log = []
    members = [MemoryFS(), MemoryFS()]
    for i, m in enumerate(members):
        m.makedirs("d/e")
        m.writebytes("a", b"m%d" % i)
    mf = MountFS()
    mf.mount("m0", make_recording(log, 0)(members[0]))
    mf.mount("m1", make_recording(log, 1)(members[1]))
    from h_route import snap
    for (m, params, positions) in public_methods():
        for which in positions:
            for p in paths[:40]:
                del log[:]
                before1 = snap(members[1])
                args = build_args(params, positions, which, "m0/" + p, safe="m0/a")
                try:
                    r = getattr(mf, m)(*args)
                    if inspect.isgenerator(r) or hasattr(r, "__next__"):
                        r = list(r)
                    if hasattr(r, "close") and hasattr(r, "read"):
                        r.close()
                    verdict = "ok"
                except Exception as e:  # noqa
                    verdict = type(e).__name__
                results.append((m, which, p, verdict, len(log)))
                import fs.path as P
                try:
                    target = P.abspath(P.normpath("m0/" + p))
                except Exception:
                    target = None
                routed_to_1 = target is not None and P.isbase("/m1", target)
                whole_tree = target == "/" and m in ("removetree", "movedir", "copydir", "tree", "walk", "glob")
                if snap(members[1]) != before1 and not routed_to_1 and not whole_tree:
                    bad.append(("a path under one mount changed another mounted filesystem",
                                dict(method=m, position=which, path="m0/" + p, verdict=verdict)))
                for ident, meth, got in log:
                    if ".." in got.split("/"):
                        bad.append(("a mounted filesystem received a path with a back-reference",
                                    dict(method=m, path="m0/" + p, received=got)))
                try:
                    for i, mm in enumerate(members):
                        mm.makedirs("d/e", recreate=True)
                        if not mm.isfile("a"):
                            if mm.isdir("a"):
                                mm.removetree("a")
                            mm.writebytes("a", b"m%d" % i)
                except Exception:
                    pass
    mf.close()
    return results, bad


def run_archives():
    """Crafted archives with climbing / absolute member names inside a canary directory."""
    import zipfile
    import tarfile
    from fs.zipfs import ZipFS
    from fs.tarfs import TarFS
    import fs.errors as E
    results, bad = [], []
    names = ["../evil", "a/../../evil2", "/abs", "ok/file", "ok/../ok2", "./dot", "a/b/c"]
    base = tempfile.mkdtemp(prefix="pyfs2verif_")
    try:
        os.makedirs(os.path.join(base, "in"))
        zp = os.path.join(base, "in", "c.zip")
        with zipfile.ZipFile(zp, "w") as z:
            for n in names:
                z.writestr(n, b"data:" + n.encode())
        tp = os.path.join(base, "in", "c.tar")
        with tarfile.open(tp, "w") as t:
            for n in names:
                ti = tarfile.TarInfo(n)
                data = b"data:" + n.encode()
                ti.size = len(data)
                t.addfile(ti, io.BytesIO(data))
        before = sorted(os.listdir(base)) + sorted(os.listdir(os.path.join(base, "in")))
        for label, cls, p in (("zip", ZipFS, zp), ("tar", TarFS, tp)):
            try:
                r = cls(p)
            except Exception as e:
                results.append((label, "open", type(e).__name__))
                continue
            for q in ("walk", "listdir", "getinfo", "readbytes", "isdir", "exists"):
                try:
                    if q == "walk":
                        found = [x for x, _i in r.walk.info()]
                        for f in found:
                            if ".." in f.split("/"):
                                bad.append(("archive exposes a path with a back-reference", dict(kind=label, path=f)))
                        verdict = "ok:%d" % len(found)
                    elif q == "listdir":
                        verdict = "ok:%r" % sorted(r.listdir("/"))
                    elif q == "getinfo":
                        r.getinfo("../evil")
                        verdict = "ok"
                        bad.append(("archive answers for a path above its root", dict(kind=label)))
                    elif q == "readbytes":
                        verdict = "ok:%r" % r.readbytes("ok/file")
                    elif q == "isdir":
                        verdict = "ok:%r" % r.isdir("ok")
                    else:
                        verdict = "ok:%r" % r.exists("../evil")
                except (E.FSError, E.IllegalBackReference) as e:
                    verdict = type(e).__name__
                except Exception as e:  # noqa
                    verdict = "crash:" + type(e).__name__
                    bad.append(("archive query raised a non-fs.errors exception", dict(kind=label, query=q, exc=verdict)))
                results.append((label, q, verdict))
            try:
                r.close()
            except Exception:
                pass
        after = sorted(os.listdir(base)) + sorted(os.listdir(os.path.join(base, "in")))
        if before != after:
            bad.append(("opening a crafted archive created something outside", dict(before=before, after=after)))
    finally:
        shutil.rmtree(base, ignore_errors=True)
    return results, bad


def model_check(paths):
    """The extracted model's predicted system path / delegated path vs the real functions."""
    from fs.osfs import OSFS
    from fs.memoryfs import MemoryFS
    bad = []
    d = tempfile.mkdtemp(prefix="pyfs2verif_")
    n = 0
    try:
        o = OSFS(d)
        m = MemoryFS()
        m.makedirs("s/t")
        sub = m.opendir("s/t")
        lines1 = ["sandbox syspath %s" % tok(p) for p in paths]
        lines2 = ["sandbox subfs %s %s" % (tok("/s/t"), tok(p)) for p in paths]
        out1 = common.run_model(lines1)
        out2 = common.run_model(lines2)
        for p, e1, e2 in zip(paths, out1, out2):
            n += 2
            try:
                got = "ok:" + common.r_list(common.r_str, [c for c in os.path.relpath(o.getsyspath(p), d).split(os.sep)
                                                          if c not in (".",)])
            except Exception as e:  # noqa
                got = common.exc_name(e)
            if got != e1:
                bad.append(("OSFS.getsyspath differs from Sandbox.v osfs_syspath", dict(path=p, implementation=got, model=e1)))
            try:
                got2 = "ok:" + common.r_str(sub.delegate_path(p)[1])
            except Exception as e:  # noqa
                got2 = common.exc_name(e)
            if got2 != e2:
                bad.append(("SubFS.delegate_path differs from Sandbox.v subfs_delegate", dict(path=p, implementation=got2, model=e2)))
        o.close()
    finally:
        shutil.rmtree(d, ignore_errors=True)
    return n, bad


def run(report):
    proof = common.preflight(report)
    rnd = random.Random(report.seed + 3)
    thorough = report.tier == "thorough"
    paths = path_stream(rnd, 120 if thorough else 45)
    results, bad = [], []
    r, b = run_osfs(rnd, paths)
    results += [("OSFS",) + x for x in r]
    bad += b
    for depth in ((1, 2, 3) if thorough else (1, 2)):
        r, b = run_subfs(rnd, paths if thorough else paths[:30], depth)
        results += [("SubFS^%d" % depth,) + x for x in r]
        bad += b
    r, b = run_mount(rnd, paths)
    results += [("MountFS",) + x for x in r]
    bad += b
    ar, b = run_archives()
    bad += b
    n_model, b = model_check(paths)
    model_bad = b
    seen = set()
    for why, ctx in bad:
        sig = why + " " + str(ctx.get("method", ctx.get("kind", "")))
        known = report.known_match(why)
        if known:
            report.known_finding(known)
            continue
        if sig in seen or len(seen) >= 10:
            continue
        seen.add(sig)
        report.violation(dict(kind="escapes-root", why=why, case=json.loads(json.dumps(ctx, default=repr)),
                              theorem="Props/C03.v"))
    if model_bad and not bad:
        report.violation(dict(kind="correspondence-broken", examples=model_bad[:5], theorem="Props/C03.v"), no_input=True)
    nontrivial = set((x[0], x[1], x[4]) for x in results)
    cov = dict(evaluations=len(results) + n_model, distinct_nontrivial=len(nontrivial),
               rule="every public FS method with a path parameter (reflection) x each path position x a '..'-heavy path "
                    "stream, on OSFS with os/io/shutil/scandir logged and a canary tree, SubFS depth 1-3 over a recording "
                    "parent, MountFS over recording members; crafted zip/tar archives; model vs real getsyspath / "
                    "delegate_path; non-trivial = distinct (kind, method, verdict)",
               samples=[dict(kind=x[0], method=x[1], position=x[2], path=x[3], verdict=x[4]) for x in results[:: max(1, len(results) // 6)][:6]],
               archive_queries=[list(x) for x in ar], disagreements_checked=len(bad) + len(model_bad),
               model_comparisons=n_model, traces_validated_against_impl=len(results) - len(bad))
    return report.finish(proof, cov, assumptions=[
        "the tree below the root contains no symbolic link leaving the root (the kernel, not a path string, would follow it)",
        "system paths are observed at the boundary of fs.osfs (os, io, shutil, scandir module attributes)"])


def replay(report, path):
    with open(path) as fh:
        print(fh.read()[:3000])
    return 1
