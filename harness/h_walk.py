"""C13 — walking visits every resource exactly once and filters exactly.

The real Walker (fs/walk.py) on MemoryFS / OSFS / SubFS / MountFS is compared with the
extracted walker model (Walk/WalkModel.v with Walk/WalkOpts.v): exact emitted sequence
for walk/files/dirs/info in both search orders; and with the recursive listing reference
on unfiltered / depth-limited walks from every start directory (every resource exactly once, depth counted
from the start directory).  The objects walked include the fs.wrap wrappers (cache_directory, read_only), WrapFS
and SubFS compositions, fresh and after a preceding partially (or fully) consumed scandir/walk on the same object.
(6) every start directory is also reached through every class of redundant spelling of its path ('a//b', 'a/./b', './a/b',
'a/b/.', 'a/x/../b', 'a/b/c/..', the root as '', '.', '/.', 'a/..', ...) x max_depth x both orders x 4 methods.
(7) SESSIONS - several walks that share state are judged walk by walk against the model of each walk run alone:
ONE Walker object (every option set) shared by walks that are in progress at the same time (nested, round-robin interleaved
generators, lock-step threads; start paths of different depth, different filesystems, different methods), and cache histories
(the same pattern strings walked on a filesystem that declares case_insensitive and then on a case-sensitive one, and the
reverse, over a tree whose names differ only by case)."""
from __future__ import print_function

import itertools
import json
import random

import common
import fsops
from common import r_str, r_bool, r_list, r_pair, tok
from h_fs import tree_tokens

NAMES = ["a", "b", "c", ".d", "e.txt", "F.TXT", "a*b", "[x]", "g"]
NAME_PATS = ["*", "*.txt", "a*", "?", "[ab]", "[!a]*", ".*", "*.TXT", "g", "a[*]b", "e.???"]
# '**' only as the leading component: elsewhere fs.glob's regex lets it cross component boundaries
# (recorded finding of C14), which would only re-report that finding here
GLOB_PATS = ["*", "*/*", "**", "a/*", "**/*.txt", "*/b/*", "a/b", "**/g", "a/b/", "*/", "[ab]/*", "a/?", "**/b/*"]


def all_trees(names, max_nodes):
    """All trees with at most max_nodes nodes below the root (ordered entries, names distinct per dir)."""
    def gen(budget, depth):
        # yields (list of (name, sub)) using at most `budget` nodes
        yield []
        if budget == 0 or depth > 3:
            return
        for first in names:
            for kind in ("F", "D"):
                if kind == "F":
                    for rest in gen(budget - 1, depth):
                        if all(n != first for n, _ in rest) and (not rest or rest[0][0] > first):
                            yield [(first, None)] + rest
                else:
                    for k in range(0, budget):
                        for sub in gen(k, depth + 1):
                            used = 1 + count(sub)
                            for rest in gen(budget - used, depth):
                                if all(n != first for n, _ in rest) and (not rest or rest[0][0] > first):
                                    yield [(first, sub)] + rest
    def count(ents):
        return sum(1 + (count(s) if s is not None else 0) for _n, s in ents)
    seen = set()
    for t in gen(max_nodes, 0):
        key = repr(t)
        if key not in seen and count(t) <= max_nodes:
            seen.add(key)
            yield t


def random_tree(rnd, max_nodes, depth=0):
    ents = []
    names = rnd.sample(NAMES, rnd.randint(0, min(len(NAMES), 4)))
    for n in names:
        if max_nodes[0] <= 0:
            break
        max_nodes[0] -= 1
        if rnd.random() < 0.45 and depth < 5:
            ents.append((n, random_tree(rnd, max_nodes, depth + 1)))
        else:
            ents.append((n, None))
    return ents


def build(fs, ents, base="/"):
    for n, sub in ents:
        p = base.rstrip("/") + "/" + n
        if sub is None:
            fs.writebytes(p, b"x")
        else:
            fs.makedir(p)
            build(fs, sub, p)


def render_tree(ents):
    return "D@N{" + ";".join(r_str(n) + ":" + ("Fs120@N" if s is None else render_tree(s)) for n, s in ents) + "}"


def pats_tokens(p):
    if p is None:
        return ["-"]
    return [str(len(p))] + [tok(x) for x in p]


def opts_tokens(start, df, opts, cs=True):
    md = opts.get("max_depth")
    t = [tok(start), "1" if df else "0", "-" if md is None else str(md), "1" if cs else "0"]
    for k in ("filter", "exclude", "filter_dirs", "exclude_dirs", "filter_glob", "exclude_glob"):
        t += pats_tokens(opts.get(k))
    return t


def impl_walk(fs, what, start, df, opts):
    from fs.walk import Walker
    kw = dict(opts)
    kw["search"] = "depth" if df else "breadth"
    w = Walker(**kw)
    try:
        if what == "files":
            return r_list(r_str, list(w.files(fs, start)))
        if what == "dirs":
            return r_list(r_str, list(w.dirs(fs, start)))
        if what == "info":
            return r_list(lambda pi: r_pair(r_str, r_bool, (pi[0], pi[1].is_dir)), list(w.info(fs, start)))
        if what == "walk":
            return r_list(lambda s: r_pair(r_str, lambda dd: r_pair(
                lambda l: r_list(r_str, l), lambda l: r_list(r_str, l), dd),
                (s.path, ([i.name for i in s.dirs], [i.name for i in s.files]))), list(w.walk(fs, start)))
    except Exception as e:  # noqa
        return common.exc_name(e)
    raise ValueError(what)


def make_fs(kind, ents):
    import tempfile
    import shutil
    from fs.memoryfs import MemoryFS
    if kind == "mem":
        fs = MemoryFS()
        build(fs, ents)
        return fs, lambda: fs.close()
    if kind == "os":
        from fs.osfs import OSFS
        d = tempfile.mkdtemp(prefix="pyfs2verif_")
        fs = OSFS(d)
        build(fs, ents)
        return fs, lambda: (fs.close(), shutil.rmtree(d, ignore_errors=True))
    if kind == "sub":
        m = MemoryFS()
        m.makedirs("x/y")
        build(m, ents, "/x/y")
        fs = m.opendir("x/y")
        return fs, lambda: m.close()
    if kind == "mount":
        from fs.mountfs import MountFS
        inner = MemoryFS()
        build(inner, ents)
        mf = MountFS()
        mf.mount("m", inner)
        fs = mf.opendir("m")
        return fs, lambda: mf.close()
    if kind in WRAP_KINDS:
        from fs.wrap import cache_directory, read_only
        from fs.wrapfs import WrapFS
        # the wrapped MemoryFS is never modified by a walk: built once per tree, a NEW wrapper object per case
        key = (id(ents), kind in ("cachedsub", "subcached"))
        if key not in _BASES:
            m = MemoryFS()
            if key[1]:
                m.makedirs("x/y")
                build(m, ents, "/x/y")
            else:
                build(m, ents)
            _BASES[key] = (m, ents)     # keeps ents alive, so id(ents) stays unique
        m = _BASES[key][0]
        fs = {"cached": lambda: cache_directory(m), "ro": lambda: read_only(m), "wrap": lambda: WrapFS(m),
              "rocached": lambda: read_only(cache_directory(m)), "cachedro": lambda: cache_directory(read_only(m)),
              "cachedsub": lambda: cache_directory(m.opendir("x/y")),
              "subcached": lambda: cache_directory(m).opendir("x/y")}[kind]()
        return fs, lambda: None
    raise ValueError(kind)


_BASES = {}
WRAP_KINDS = ("cached", "ro", "wrap", "rocached", "cachedro", "cachedsub", "subcached")


def do_peek(fs, peek):
    """A preceding, partially consumed iteration on the same object: peek = [method, arg, k, namespaces];
    method 'scandir' (arg = directory) or files/dirs/info/walk (arg = search order); k entries are consumed
    (k < 0: all of them) and the iterator is dropped.  Nothing is modified."""
    method, arg, k, ns = peek
    try:
        if method == "scandir":
            it = fs.scandir(arg, namespaces=ns)
        elif method == "walk":
            it = fs.walk(search=arg, namespaces=ns)
        elif method == "info":
            it = fs.walk.info(search=arg, namespaces=ns)
        else:
            it = getattr(fs.walk, method)(search=arg)
        it = iter(it)
        n = 0
        for _x in it:
            n += 1
            if 0 <= k <= n:
                break
        del it
    except Exception as e:  # noqa  (the walk under test will show the problem)
        return common.exc_name(e)
    return None


def peek_variants(ents, ks=(1, 2)):
    out = []
    for d in ["/"] + dir_paths(ents):
        for k in ks:
            out.append(["scandir", d, k, None])
    for m in ("files", "dirs", "info", "walk"):
        for search in ("breadth", "depth"):
            for k in ks:
                out.append([m, search, k, None])
    out.append(["info", "breadth", -1, None])
    out.append(["scandir", "/", 1, ["details"]])
    return out


def explore(tier, seed):
    rnd = random.Random(seed + 13)
    thorough = tier == "thorough"
    cases = []      # (kind, ents, what, start, df, opts)
    small = list(all_trees(["a", "b", "c"], 4 if thorough else 3))
    for ents in small:
        for df in (False, True):
            for what in ("info", "walk", "files", "dirs"):
                cases.append(("mem", ents, what, "/", df, {}))
            for md in (0, 1, 2):
                cases.append(("mem", ents, "info", "/", df, {"max_depth": md}))
    # systematic blocks (random sampling starves option interactions):
    # (1) start-path spellings x max_depth x method x order on a deep tree
    deep = [("top", [("f0.txt", None), ("a", [("f1.txt", None), ("b", [("f2.txt", None), ("c", [("f3.txt", None)])])]),
                     ("empty", [])]), ("g", None)]
    for start in ("top", "top/", "/top/", "/top", "top//", "/", "top/a", "top/a/", "/top/a//"):
        for md in (None, 0, 1, 2, 3):
            for df in (False, True):
                for what in ("info", "files", "dirs", "walk"):
                    cases.append(("mem", deep, what, start, df, {} if md is None else {"max_depth": md}))
    # (2) pairs of glob patterns sharing leading components, as filter and as exclude
    tree2 = [("a", [("b", [("x.py", None)]), ("c", [("y.py", None)]), ("z.py", None)]), ("c", [("w.py", None)]),
             ("top.py", None)]
    gp = ["a/b/*.py", "a/c/*.py", "/a/b/*", "/c/*", "a/*", "**/*.py", "*/c/*", "a/*/*.py", "c/*", "a/b/x.py"]
    for p1, p2 in itertools.permutations(gp, 2):
        for key in ("filter_glob", "exclude_glob"):
            for df in (False, True):
                cases.append(("mem", tree2, "files" if df else "info", "/", df, {key: [p1, p2]}))
    # (3) every single name-filter option with every name pattern
    for key in ("filter", "exclude", "filter_dirs", "exclude_dirs"):
        for pat in NAME_PATS:
            for df in (False, True):
                cases.append(("mem", deep[0][1] + [(".d", None), ("F.TXT", None), ("a*b", [("q", None)])], "info", "/", df,
                              {key: [pat]}))
    # (4) every start directory of the tree x max_depth x both orders x 4 methods (depth is counted from the start
    #     directory, wherever it lies); also through wrappers
    tree3 = [("p", [("src", [("main.py", None), ("pkg", [("mod.py", None), ("inner", [("deep.py", None), ("core", [
        ("deeper.py", None)])])]), ("empty", [])]), ("docs", [("i.rst", None)]), ("s.py", None)]), ("r.txt", None)]
    start_trees = [deep, tree2, tree3] + [random_tree(rnd, [rnd.randint(8, 30)]) for _ in range(20 if thorough else 4)]
    for ti, ents in enumerate(start_trees):
        for start in ["/"] + dir_paths(ents):
            for md in (None, 0, 1, 2, 3):
                for df in (False, True):
                    for what in ("info", "files", "dirs", "walk"):
                        kind = "mem" if ti != 2 or thorough else ("mem", "cached", "sub", "ro")[(md or 0) % 4]
                        cases.append((kind, ents, what, start, df, {} if md is None else {"max_depth": md}))
    # (5) wrappers x preceding partially consumed scandir / walk on the same object (nothing is modified, so the
    #     expected result is that of the fresh object) x methods x orders x a few option sets
    peek_trees = [deep, tree3] + ([tree2] if thorough else [])
    optsets = [{}, {"max_depth": 2}, {"filter": ["*.txt", "*.py"]}] + ([{"exclude_dirs": ["a", "pkg"]}] if thorough else [])
    for ents in peek_trees:
        peeks = [None] + peek_variants(ents, ks=(1, 2, 3) if thorough else (1, 2))
        for kind in ("mem", "sub", "mount") + WRAP_KINDS:
            for pi, peek in enumerate(peeks):
                for oi, opts in enumerate(optsets):
                    for df in (False, True):
                        for wi, what in enumerate(("info", "walk", "files", "dirs")):
                            # quick: every (kind, peek) with every method and order, option sets rotated
                            if not thorough and (pi + wi + df) % len(optsets) != oi:
                                continue
                            start = "/" if (pi + oi) % 3 else "/" + ents[0][0]
                            cases.append((kind, ents, what, start, df, opts, peek))
    # (6) every class of redundant spelling x every start directory x max_depth x both orders x 4 methods: the walk is
    #     that of the directory, however its path is written (expected result: the model, and the listing of the
    #     tree snapshot below the CANONICAL path the spelling was derived from)
    rnd6 = random.Random(seed * 977 + 613)
    sp_trees = [deep, tree3] + ([tree2] + [random_tree(rnd6, [rnd6.randint(8, 30)]) for _ in range(6)] if thorough else [])
    sp_kinds = ("mem", "sub", "ro", "cached", "os", "mount", "wrap", "subcached")
    n6 = 0
    for ents in sp_trees:
        for si, canon in enumerate(["/"] + dir_paths(ents)):
            for ci, (cls, text) in enumerate(spellings(canon, ents)):
                for md in (None, 0, 1, 2, 3):
                    for df in (False, True):
                        for wi, what in enumerate(("info", "files", "dirs", "walk")):
                            n6 += 1
                            # quick: the method rotates with (start, spelling, depth, order) - every (spelling class,
                            # method, order, max_depth) combination still occurs for some start directory
                            if not thorough and (si + ci + (md or 0) + df) % 4 != wi:
                                continue
                            kind = sp_kinds[(si + ci + wi) % len(sp_kinds)] if (n6 % 3 == 0) else "mem"
                            cases.append((kind, ents, what, text, df, {} if md is None else {"max_depth": md}, None,
                                          dict(canonical_start=canon, spelling_class=cls)))
    n_rand = 2500 if thorough else 350
    for i in range(n_rand):
        ents = random_tree(rnd, [rnd.randint(1, 60 if thorough else 25)])
        opts = {}
        for k in ("filter", "exclude", "filter_dirs", "exclude_dirs"):
            if rnd.random() < 0.3:
                opts[k] = rnd.sample(NAME_PATS, rnd.randint(0, 2))
        for k in ("filter_glob", "exclude_glob"):
            if rnd.random() < 0.25:
                opts[k] = rnd.sample(GLOB_PATS, rnd.randint(1, 2))
        if rnd.random() < 0.4:
            opts["max_depth"] = rnd.choice([0, 1, 2, 3])
        dirs = ["/"] + dir_paths(ents)
        start = rnd.choice(dirs)
        if not (opts.get("filter_glob") or opts.get("exclude_glob")) and rnd.random() < 0.3:
            start = rnd.choice([start.lstrip("/") or "/", start + "/", start])
        kind = rnd.choice(["mem", "mem", "mem", "sub", "mount"] + list(WRAP_KINDS) + (["os"] * 3 if i % 4 == 0 else []))
        peek = None
        if rnd.random() < 0.4:
            peek = rnd.choice(peek_variants(ents, ks=(1, 2, 3)))
            if rnd.random() < 0.3:
                peek = peek[:3] + [["details"]]
        cases.append((kind, ents, rnd.choice(["info", "walk", "files", "dirs"]), start, rnd.random() < 0.5, opts, peek))
    return cases


def peek_of(case):
    return case[6] if len(case) > 6 else None


def meta_of(case):
    """{canonical_start, spelling_class} of a case of block (6), else {}"""
    return case[7] if len(case) > 7 and case[7] else {}


SPELLING_CLASSES = ("relative", "trailing-slash", "double-slash", "leading-double-slash", "leading-dot", "abs-leading-dot",
                    "inner-dot", "trailing-dot", "dotdot-sibling", "dotdot-child", "dotdot-prefix", "mixed",
                    "root-empty", "root-dot", "root-dot-slash", "root-slash-dot", "root-double-slash", "root-dir-dotdot",
                    "root-mixed")


def spellings(canon, ents):
    """Redundant spellings of the directory whose absolute normalised path is `canon`: [(class, text)].  Every text
    denotes the same directory under the documented path rules ('' and '.' components are dropped, 'x/..' cancels
    lexically, relative paths are relative to the root)."""
    comps = [c for c in canon.split("/") if c]
    if not comps:
        first = ([n for n, s in ents if s is not None] + ["zz"])[0]
        return [("root-empty", ""), ("root-dot", "."), ("root-dot-slash", "./"), ("root-slash-dot", "/."),
                ("root-double-slash", "//"), ("root-dir-dotdot", first + "/.."), ("root-dir-dotdot", "/zz/../"),
                ("root-mixed", ".//" + first + "/./../.")]
    rel = "/".join(comps)
    sub = ents
    for c in comps:
        sub = dict(sub)[c]
    child = ([n for n, s2 in sub if s2 is not None] + [n for n, s2 in sub if s2 is None] + ["zz"])[0]
    out = [("relative", rel), ("trailing-slash", canon + "/"),
           ("double-slash", "/".join(comps[:-1] + ["", comps[-1]]) if len(comps) > 1 else rel + "//"),
           ("leading-double-slash", "/" + canon), ("leading-dot", "./" + rel), ("abs-leading-dot", "/./" + rel),
           ("trailing-dot", rel + "/."), ("dotdot-sibling", "/".join(comps[:-1] + ["zz", "..", comps[-1]])),
           ("dotdot-child", canon + "/" + child + "/.."), ("dotdot-prefix", "zz/../" + rel),
           ("mixed", "./" + "//".join(comps[:-1] + [".", comps[-1]]) + "/" + child + "/../")]
    if len(comps) > 1:
        out.append(("inner-dot", "/".join(comps[:-1] + [".", comps[-1]])))
    return out


def dir_paths(ents, base=""):
    out = []
    for n, s in ents:
        if s is not None:
            out.append(base + "/" + n)
            out += dir_paths(s, base + "/" + n)
    return out


def os_order(ents):
    return ents


def evaluate(cases):
    results = []
    lines = []
    for case in cases:
        kind, ents, what, start, df, opts = case[:6]
        fs, cleanup = make_fs(kind, ents)
        try:
            if peek_of(case):
                do_peek(fs, peek_of(case))
            if kind == "os":
                # the OS decides the listing order: rebuild the model tree in scandir order
                def reorder(e, p):
                    names = fs.listdir(p)
                    d = dict(e)
                    return [(n, None if d[n] is None else reorder(d[n], p.rstrip("/") + "/" + n)) for n in names]
                ents = reorder(ents, "/")
            impl = impl_walk(fs, what, start, df, opts)
        finally:
            cleanup()
        results.append(impl)
        lines.append("walk %s %s" % (what, " ".join(tree_tokens(render_tree(ents)) + opts_tokens(start, df, opts))))
    for m, _e in _BASES.values():
        m.close()
    _BASES.clear()
    uniq = sorted(set(lines))       # the same walk on another object / after a peek has the same expected result
    um = dict(zip(uniq, common.run_model_parallel(uniq, chunk=2000)))
    model = [um[l] for l in lines]
    return results, model, lines


def known_class(case):
    kind, ents, what, start, df, opts = case[:6]
    pats = (opts.get("filter_glob") or []) + (opts.get("exclude_glob") or [])
    if any("**" in p for p in pats):
        return "walker glob filter with '**' (regex crosses component boundaries)"
    if any(p.endswith("/") for p in pats):
        return "walker glob filter ending in '/' never matches a directory"
    return None


# ================================================================================================
# (7) SESSIONS: several walks that share state.  A walk "reports every resource under the start path exactly once ...
# the options select exactly the subset their documentation defines" whatever else the process is doing with the same
# Walker object or has done with the same pattern strings: every walk of a session is compared with the model of that
# walk alone (its own tree, start path, options, order and the case flag its filesystem declares).
#
# session = dict(mode, shared, clear, walks=[walk, ...])      walk = dict(kind, tree, what, start, df, opts)
#   mode "sequential": the walks run one after the other (cache histories)
#        "nested":     walks[0] is consumed item by item; after its i-th item the inner walk walks[1 + i % (n-1)] runs to
#                      its end (the idiom `for d in walker.dirs(fs, '/'): walker.files(fs, d)`, over every start directory)
#        "roundrobin": all generators are open at once and advanced in turn, `stride[i]` items at a time
#        "threads":    as roundrobin, each generator advanced by its own thread (lock-step baton: deterministic)
#   shared: ONE Walker(**walks[0].opts, search=walks[0].df) makes every walk of the session; else one Walker per walk
#   clear:  fs.glob / fs.wildcard pattern caches are emptied first (when they exist)
# ================================================================================================
CS_KINDS = ("mem", "sub", "os", "ro", "mount", "cached")
CI_KINDS = ("tar", "cimem", "cisub", "ciro")
# names differing only by case, files and directories
CASE_TREE = [("BUILD", [("out.txt", None)]), ("Docs", [("GUIDE.TXT", None), ("guide.txt", None), ("Sub", [("d.TXT", None)])]),
             ("README.TXT", None), ("build", [("OUT.TXT", None), ("sub", [("D.txt", None)])]),
             ("docs", [("INDEX.TXT", None), ("index.txt", None)]), ("notes.txt", None), ("readme.txt", None)]
CASE_NAME_PATS = ["*.TXT", "*.txt", "readme.*", "docs", "BUILD", "[Dd]ocs", "OUT.*", "N*", "sub", "d.???"]
CASE_GLOB_PATS = ["Docs/*.TXT", "*/*.txt", "BUILD/*", "build/out.txt", "*.TXT", "docs/INDEX.*", "*/SUB/*", "BUILD"]
SHARED_OPTS = [{"max_depth": 0}, {"max_depth": 1}, {"max_depth": 2}, {"max_depth": 3}, {},
               {"max_depth": 1, "filter": ["*.py", "*.txt"]}, {"max_depth": 2, "exclude": ["*.py", "f1*"]},
               {"max_depth": 2, "exclude_dirs": ["pkg", "a"]}, {"max_depth": 2, "filter_dirs": ["[!e]*"]},
               {"max_depth": 3, "filter_glob": ["p/src/*.py", "top/a/*", "p/src/pkg/*.py"]},
               {"max_depth": 2, "exclude_glob": ["p/docs/*", "top/a/b/*"]},
               {"filter": ["*.txt", "*.py"]}, {"exclude_dirs": ["a", "pkg"]},
               {"max_depth": 2, "filter": ["*.py", "*.txt", "*.rst"], "exclude": ["d*"], "filter_dirs": ["*"],
                "exclude_dirs": ["empty"], "exclude_glob": ["p/s.py"]}]

_CI_CLASS = []


def ci_memory_class():
    """A MemoryFS whose getmeta() declares case_insensitive (what FS.match / FS.match_glob consult)."""
    if not _CI_CLASS:
        from fs.memoryfs import MemoryFS

        class CaseInsensitiveMemoryFS(MemoryFS):
            def getmeta(self, namespace="standard"):
                meta = dict(super(CaseInsensitiveMemoryFS, self).getmeta(namespace))
                if namespace == "standard":
                    meta["case_insensitive"] = True
                return meta
        _CI_CLASS.append(CaseInsensitiveMemoryFS)
    return _CI_CLASS[0]


class SessionEnv(object):
    """The filesystems of the sessions: built once per (kind, tree) - no walk modifies anything."""

    def __init__(self):
        self._fs = {}
        self._cleanup = []
        self._keep = []

    def get(self, kind, ents, slot=None):
        """-> (filesystem, tree in the listing order of that filesystem, case_sensitive flag it declares); walks with
        different `slot` get different filesystem objects"""
        key = (kind, id(ents), slot)
        if key in self._fs:
            return self._fs[key]
        import shutil
        import tempfile
        from fs.wrap import read_only
        self._keep.append(ents)
        if kind in ("cimem", "cisub", "ciro"):
            base = ci_memory_class()()
            self._cleanup.append(base.close)
            if kind == "cisub":
                base.makedirs("x/y")
                build(base, ents, "/x/y")
                f = base.opendir("x/y")
            else:
                build(base, ents)
                f = read_only(base) if kind == "ciro" else base
        elif kind == "tar":
            from fs.tarfs import TarFS
            d = tempfile.mkdtemp(prefix="pyfs2verif_c13_")
            with TarFS(d + "/t.tar", write=True) as t:
                build(t, ents)
            f = TarFS(d + "/t.tar")
            self._cleanup.append(lambda: (f.close(), shutil.rmtree(d, ignore_errors=True)))
        else:
            f, cleanup = make_fs(kind, ents)
            self._cleanup.append(cleanup)
        declared = bool(f.getmeta().get("case_insensitive", False))
        if declared != (kind in CI_KINDS):
            # a host whose OS filesystem folds case, or an archive class that stops declaring it: use the plain one
            res = self.get("cimem" if kind in CI_KINDS else "mem", ents, slot)
        else:
            order = ents
            if kind in ("os", "tar"):
                def reorder(e, p):
                    d = dict(e)
                    return [(n, None if d[n] is None else reorder(d[n], p.rstrip("/") + "/" + n)) for n in f.listdir(p)]
                order = reorder(ents, "/")
            res = (f, order, not declared)
        self._fs[key] = res
        return res

    def close(self):
        for c in self._cleanup:
            try:
                c()
            except Exception:  # noqa
                pass
        for m, _e in _BASES.values():
            m.close()
        _BASES.clear()
        self._fs, self._cleanup = {}, []


def clear_pattern_caches():
    import fs.glob
    import fs.wildcard
    for mod in (fs.glob, fs.wildcard):
        c = getattr(mod, "_PATTERN_CACHE", None)
        if c is not None and hasattr(c, "clear"):
            c.clear()


def open_walk(walker, fs, what, start):
    if what == "files":
        return iter(walker.files(fs, start))
    if what == "dirs":
        return iter(walker.dirs(fs, start))
    if what == "info":
        return iter(walker.info(fs, start))
    if what == "walk":
        return iter(walker.walk(fs, start))
    raise ValueError(what)


def render_items(what, items):
    if what in ("files", "dirs"):
        return r_list(r_str, items)
    if what == "info":
        return r_list(lambda pi: r_pair(r_str, r_bool, (pi[0], pi[1].is_dir)), items)
    return r_list(lambda s: r_pair(r_str, lambda dd: r_pair(lambda l: r_list(r_str, l), lambda l: r_list(r_str, l), dd),
                                   (s.path, ([i.name for i in s.dirs], [i.name for i in s.files]))), items)


class _Run(object):
    """One walk in progress: collects what its generator yields; an exception ends it and becomes the result."""

    def __init__(self, walker, fs, w):
        self.what = w["what"]
        self.items = []
        self.error = None
        self.done = False
        try:
            self.it = open_walk(walker, fs, w["what"], w["start"])
        except Exception as e:  # noqa
            self.error, self.done = common.exc_name(e), True

    def step(self, n=1):
        """advance by n items; -> number of items obtained"""
        got = 0
        while got < n and not self.done:
            try:
                self.items.append(next(self.it))
                got += 1
            except StopIteration:
                self.done = True
            except Exception as e:  # noqa
                self.error, self.done = common.exc_name(e), True
        return got

    def result(self):
        return self.error if self.error is not None else render_items(self.what, self.items)


def run_session(env, sess):
    """-> (per walk: list of rendered results (one per time the walk ran), per walk: model line)"""
    from fs.walk import Walker
    walks = sess["walks"]
    if sess.get("clear"):
        clear_pattern_caches()
    fss, lines = [], []
    for k, w in enumerate(walks):
        # threads: MemoryFS.scandir (a generator) keeps the filesystem lock while suspended, so two lock-step threads
        # on ONE filesystem object would block each other for ever; the object shared by the threads is the Walker
        f, order, cs = env.get(w["kind"], w["tree"], k if sess["mode"] == "threads" else None)
        fss.append(f)
        lines.append("walk %s %s" % (w["what"], " ".join(tree_tokens(render_tree(order)) +
                                                           opts_tokens(w["start"], w["df"], w["opts"], cs))))

    def mk(w):
        return Walker(search="depth" if w["df"] else "breadth", **w["opts"])
    shared = mk(walks[0]) if sess.get("shared") else None

    def walker(w):
        return shared if shared is not None else mk(w)
    results = [[] for _ in walks]
    mode = sess["mode"]
    if mode == "sequential":
        for i, w in enumerate(walks):
            r = _Run(walker(w), fss[i], w)
            r.step(1 << 30)
            results[i].append(r.result())
    elif mode == "nested":
        outer = _Run(walker(walks[0]), fss[0], walks[0])
        i = 0
        while outer.step(1):
            for _k in range(min(2, len(walks) - 1)):
                j = 1 + i % (len(walks) - 1)
                inner = _Run(walker(walks[j]), fss[j], walks[j])
                inner.step(1 << 30)
                results[j].append(inner.result())
                i += 1
        results[0].append(outer.result())
    elif mode == "roundrobin":
        runs = [_Run(walker(w), fss[i], w) for i, w in enumerate(walks)]
        stride = sess.get("stride") or [1]
        while not all(r.done for r in runs):
            for i, r in enumerate(runs):
                r.step(stride[i % len(stride)])
        for i, r in enumerate(runs):
            results[i].append(r.result())
    elif mode == "threads":
        import threading
        runs = [_Run(walker(w), fss[i], w) for i, w in enumerate(walks)]
        stride = sess.get("stride") or [1]
        first = [k for k, r in enumerate(runs) if not r.done]
        turn = [first[0] if first else -1]
        cv = threading.Condition()

        def work(i):
            while True:
                with cv:
                    while turn[0] != i and turn[0] != -1:
                        cv.wait(5)
                    if turn[0] == -1 or runs[i].done:
                        return
                    runs[i].step(stride[i % len(stride)])      # the baton is held: exactly one generator moves
                    nxt = [k for k in list(range(i + 1, len(runs))) + list(range(0, i + 1)) if not runs[k].done]
                    turn[0] = nxt[0] if nxt else -1
                    cv.notify_all()
                    if runs[i].done:
                        return
        ths = [threading.Thread(target=work, args=(i,)) for i in range(len(runs))]
        for t in ths:
            t.daemon = True
            t.start()
        for t in ths:
            t.join(20)
        for i, r in enumerate(runs):
            results[i].append(r.result() if r.done else "harness:thread-did-not-finish")
    else:
        raise ValueError(mode)
    return results, lines


def safe_pats(opts):
    """option sets of the sessions stay inside the region where no recorded finding decides (known_class)"""
    pats = (opts.get("filter_glob") or []) + (opts.get("exclude_glob") or [])
    return not any("**" in p or p.endswith("/") for p in pats)


def explore_sessions(tier, seed):
    rnd = random.Random(seed * 7907 + 131)
    thorough = tier == "thorough"
    deep = [("top", [("f0.txt", None), ("a", [("f1.txt", None), ("b", [("f2.txt", None), ("c", [("f3.txt", None)])])]),
                     ("empty", [])]), ("g", None)]
    tree2 = [("a", [("b", [("x.py", None)]), ("c", [("y.py", None)]), ("z.py", None)]), ("c", [("w.py", None)]),
             ("top.py", None)]
    tree3 = [("p", [("src", [("main.py", None), ("pkg", [("mod.py", None), ("inner", [("deep.py", None), ("core", [
        ("deeper.py", None)])])]), ("empty", [])]), ("docs", [("i.rst", None)]), ("s.py", None)]), ("r.txt", None)]
    trees = [deep, tree3, tree2]
    methods = ("info", "files", "dirs", "walk")
    kinds = ("mem", "sub", "cached", "mount", "ro", "os", "wrap", "subcached")
    sessions = []

    def W(kind, tree, what, start, df, opts):
        return dict(kind=kind, tree=tree, what=what, start=start, df=df, opts=opts)
    # (7a) ONE Walker shared by walks in progress at the same time
    for oi, opts in enumerate(SHARED_OPTS):
        assert safe_pats(opts)
        for df in (False, True):
            # nested: outer walk from the root, inner walks from every directory of the tree (and of another tree)
            for ti, tree in enumerate(trees if thorough else trees[:2]):
                for wi, outer_what in enumerate(methods):
                    if not thorough and (oi + ti + df) % 2 != wi % 2:
                        continue
                    kind = kinds[(oi + ti + wi) % len(kinds)]
                    other = trees[(ti + 1) % len(trees)]
                    inner = [W(kind, tree, methods[(k + wi + 1) % 4], d, df, opts) for k, d in enumerate(dir_paths(tree))]
                    inner += [W("mem", other, methods[(k + wi) % 4], d, df, opts) for k, d in enumerate(dir_paths(other)[:3])]
                    rnd.shuffle(inner)
                    sessions.append(dict(mode="nested", shared=True, clear=False,
                                         walks=[W(kind, tree, outer_what, "/", df, opts)] + inner))
                    # the outer walk below the root, the inner ones above and below it
                    sub = dir_paths(tree)[1 % len(dir_paths(tree))]
                    sessions.append(dict(mode="nested", shared=True, clear=False,
                                         walks=[W(kind, tree, outer_what, sub, df, opts), W(kind, tree, methods[wi - 1], "/", df, opts),
                                                W(kind, tree, methods[wi - 2], dir_paths(tree)[-1], df, opts)]))
            # interleaved generators / threads: start paths of different depth, different filesystems, different methods
            for mode in ("roundrobin", "threads"):
                for variant in range(3 if thorough else 2):
                    ws = []
                    for k in range(rnd.randint(2, 6)):
                        tree = trees[(k + variant) % len(trees)]
                        ws.append(W(kinds[(k + oi + variant) % len(kinds)], tree, methods[(k + variant + oi) % 4],
                                    rnd.choice(["/"] + dir_paths(tree)), df, opts))
                    # always: two walks on one filesystem whose start depths differ by two levels
                    d2 = [d for d in dir_paths(trees[variant % 2]) if d.count("/") >= 3]
                    ws.insert(rnd.randint(0, len(ws)), W("mem", trees[variant % 2], methods[(oi + variant) % 3], "/", df, opts))
                    ws.insert(rnd.randint(0, len(ws)), W("mem", trees[variant % 2], methods[(oi + variant + 1) % 3], d2[0], df, opts))
                    sessions.append(dict(mode=mode, shared=True, clear=False, walks=ws,
                                         stride=[rnd.choice([1, 1, 2, 3]) for _ in ws]))
    # (7b) cache histories: the same pattern strings on a filesystem that declares case_insensitive and on a case-
    #      sensitive one, both orders and alternations, from empty caches and inside long never-cleared histories
    hist_walks = []
    n = 0
    for key, pats in (("filter", CASE_NAME_PATS), ("exclude", CASE_NAME_PATS), ("filter_dirs", CASE_NAME_PATS),
                      ("exclude_dirs", CASE_NAME_PATS), ("filter_glob", CASE_GLOB_PATS), ("exclude_glob", CASE_GLOB_PATS)):
        plists = [[p] for p in pats] + [[pats[i], pats[(i + 3) % len(pats)]] for i in range(len(pats) if thorough else 3)]
        for pl in plists:
            for df in (False, True):
                n += 1
                opts = {key: pl}
                if n % 5 == 0:
                    opts["max_depth"] = 1 + n % 3
                what = methods[n % 4] if key not in ("filter", "exclude") else ("files", "info", "walk")[n % 3]
                ci = W(CI_KINDS[n % len(CI_KINDS)], CASE_TREE, what, "/", df, opts)
                cs = W(CS_KINDS[n % len(CS_KINDS)], CASE_TREE, what, "/", df, opts)
                cs2 = W(CS_KINDS[(n + 1) % len(CS_KINDS)], CASE_TREE, methods[(n + 1) % 4], "/", not df, opts)
                ci2 = W(CI_KINDS[(n + 1) % len(CI_KINDS)], CASE_TREE, methods[(n + 1) % 4], "/Docs" if n % 2 else "/", not df, opts)
                orders = [[ci, cs], [cs, ci], [ci, cs, ci2, cs2], [cs, ci, cs2, ci2]]
                for o in (orders if thorough else [orders[n % 2], orders[2 + (n // 2) % 2]]):
                    sessions.append(dict(mode="sequential", shared=False, clear=True, walks=o))
                hist_walks += [ci, cs, cs2, ci2]
    for c in range(4 if thorough else 2):
        ws = list(hist_walks)
        rnd.shuffle(ws)
        sessions.append(dict(mode="sequential", shared=False, clear=(c % 2 == 0), walks=ws))
    return sessions


def evaluate_sessions(sessions):
    """-> [(session index, walk index, [implementation results], model result)] for every walk of every session"""
    env = SessionEnv()
    out = []
    try:
        runs = [run_session(env, s) for s in sessions]
    finally:
        env.close()
    uniq = sorted(set(l for _r, ls in runs for l in ls))
    um = dict(zip(uniq, common.run_model_parallel(uniq, chunk=2000)))
    for si, (results, lines) in enumerate(runs):
        for wi, (rs, l) in enumerate(zip(results, lines)):
            out.append((si, wi, rs, um[l]))
    return out


def walk_json(w):
    return dict(backend=w["kind"], tree=w["tree"], method=w["what"], start=w["start"], depth_first=w["df"], options=w["opts"])


def session_json(s):
    d = dict(mode=s["mode"], one_shared_walker=bool(s.get("shared")), pattern_caches_emptied_first=bool(s.get("clear")),
             walks=[walk_json(w) for w in s["walks"]])
    if s.get("stride"):
        d["stride"] = s["stride"]
    return d


def session_from_json(d):
    def ents(x):
        return [(n, None if s is None else ents(s)) for n, s in x]
    trees = {}

    def tree(x):        # walks of one session that name the same tree share the filesystem, as in the run
        return trees.setdefault(json.dumps(x), ents(x))
    return dict(mode=d["mode"], shared=d["one_shared_walker"], clear=d["pattern_caches_emptied_first"], stride=d.get("stride"),
                walks=[dict(kind=w["backend"], tree=tree(w["tree"]), what=w["method"], start=w["start"], df=w["depth_first"],
                            opts=w["options"]) for w in d["walks"]])


def minimise_session(sess, wi):
    """smaller session in which walk `wi` still differs from its model: that walk with one other walk, if possible"""
    def differs(s, k):
        try:
            return any(any(r != m for r in rs) for _si, w, rs, m in evaluate_sessions([s]) if w == k)
        except Exception:  # noqa
            return False
    ws = sess["walks"]
    if sess["mode"] == "nested":
        cands = [([ws[0], ws[j]], 0 if wi == 0 else 1) for j in range(1, len(ws)) if wi in (0, j)]
    else:
        cands = [(([ws[j], ws[wi]], 1) if j < wi else ([ws[wi], ws[j]], 0)) for j in range(len(ws)) if j != wi]
    for pair, k in cands[:12]:
        s = dict(sess, walks=pair, stride=[1, 1] if sess.get("stride") else None)
        if differs(s, k):
            return s, k
    return sess, wi


def run(report, forced=None):
    proof = common.preflight(report)
    cases = forced if forced is not None else explore(report.tier, report.seed)
    impl, model, lines = evaluate(cases)
    n_vm, vm_mism = common.vm_crosscheck(lines[:300], model[:300], "C13", limit=80)
    bad = [i for i in range(len(cases)) if impl[i] != model[i]]
    # reference check on the implementation alone: unfiltered walks list every resource once
    ref_bad = []
    n_ref = 0
    for i, case in enumerate(cases):
        kind, ents, what, start, df, opts = case[:6]
        if set(opts) - {"max_depth"} or what == "walk" or not impl[i].startswith("["):
            continue
        expect = reference_listing(ents, meta_of(case).get("canonical_start", start), opts.get("max_depth"), what)
        if expect is None:
            continue
        n_ref += 1
        if normalised_report(impl[i], what) != expect:
            ref_bad.append(i)
    seen = set()
    seen_ref = set()
    for i in ref_bad:
        sig = (cases[i][0], (peek_of(cases[i]) or [None])[0], cases[i][4], cases[i][3] == "/", tuple(cases[i][5]),
               bool(meta_of(cases[i])))
        if sig in seen_ref or len(seen_ref) >= 6:
            continue
        seen_ref.add(sig)
        c = cases[i]
        report.violation(dict(kind="walk-does-not-list-every-resource-once", case=case_json(cases[i]),
                              implementation=impl[i],
                              expected_from_tree=reference_listing(c[1], meta_of(c).get("canonical_start", c[3]),
                                                                   c[5].get("max_depth"), c[2]),
                              theorem="Props/C13.v C13_bfs_reports_listing"))
    for i in bad:
        if i in ref_bad:
            continue
        kc = known_class(cases[i])
        known = report.known_match(kc) if kc else None
        if known:
            report.known_finding(known)
            continue
        sig = (cases[i][2], cases[i][4], tuple(sorted(cases[i][5])), cases[i][0] in WRAP_KINDS,
               (peek_of(cases[i]) or [None])[0], bool(meta_of(cases[i])))
        if sig in seen or len(seen) >= 8:
            continue
        seen.add(sig)
        # the model is proved equal to the recursive reference, so a sequence mismatch on a walk
        # is a wrong / missing / duplicated / misordered report at this input
        report.violation(dict(kind="walk-differs-from-proved-model", case=case_json(cases[i]),
                              implementation=impl[i], model=model[i], theorem="Props/C13.v"))
    if vm_mism and not bad:
        report.violation(dict(kind="correspondence-broken", vm=vm_mism, theorem="Props/C13.v"), no_input=True)
    # (7) sessions: walks sharing a Walker object / the process-wide pattern caches, each judged against its own model
    import time as _time
    t_s = _time.time()
    sessions = explore_sessions(report.tier, report.seed) if forced is None else []
    sres = evaluate_sessions(sessions) if sessions else []
    s_bad = [(si, wi, rs, m) for si, wi, rs, m in sres if any(r != m for r in rs)]
    s_seen = set()
    for si, wi, rs, m in s_bad:
        sess = sessions[si]
        w = sess["walks"][wi]
        sig = (sess["mode"], bool(sess.get("shared")), w["what"], w["df"], tuple(sorted(w["opts"])))
        if sig in s_seen or len(s_seen) >= 8:
            continue
        s_seen.add(sig)
        small, k = minimise_session(sess, wi)
        got = dict((x[1], x[2]) for x in evaluate_sessions([small])).get(k, []) if small is not sess else rs
        report.violation(dict(kind="walk-sharing-state-differs-from-its-own-model", session=session_json(small), walk_index=k,
                              implementation=[r for r in got if r != m][:2] or got[:2], model=m,
                              what="every walk of a session (one Walker object shared by walks in progress at the same "
                                   "time / the same pattern strings walked before on a filesystem of the other case mode) "
                                   "must report what the model reports for that walk alone",
                              theorem="Props/C13.v (the walk is a function of tree, start path, options and order only)"))
    s_cov = dict(sessions=len(sessions), session_walks=len(sres), session_walks_run=sum(len(rs) for _a, _b, rs, _m in sres),
                 session_disagreements=len(s_bad), sessions_by_mode={}, session_shared_walker_option_sets=len(SHARED_OPTS),
                 session_case_history_patterns=len(CASE_NAME_PATS) * 4 + len(CASE_GLOB_PATS) * 2,
                 session_filesystems=sorted(set(w["kind"] for s_ in sessions for w in s_["walks"])),
                 session_wall_s=round(_time.time() - t_s, 2),
                 session_rule="(7a) ONE Walker per option set (max_depth 0..3, none, name filters, glob filters, all options "
                              "together) x both orders shared by walks in progress at the same time: nested (outer walk of any "
                              "method from the root or a subdirectory; inner walks from every directory of the same and of "
                              "another tree), round-robin interleaved generators and lock-step threads over start paths of "
                              "different depth x filesystems x methods x strides; (7b) cache histories: each of filter / "
                              "exclude / filter_dirs / exclude_dirs / filter_glob / exclude_glob with pattern lists whose "
                              "letters differ in case from the names of a mixed-case tree, walked on a filesystem declaring "
                              "case_insensitive (read TarFS, MemoryFS subclass, SubFS / read_only over it) then on a case-"
                              "sensitive one (MemoryFS, SubFS, OSFS, read_only, MountFS, cache_directory), the reverse, and "
                              "alternations, from empty pattern caches and inside long never-cleared shuffled histories; "
                              "every walk compared (exact sequence) with the model of that walk alone, case flag = what "
                              "its filesystem declares")
    for s_ in sessions:
        k = s_["mode"] + ("/shared-walker" if s_.get("shared") else "/cache-history")
        s_cov["sessions_by_mode"][k] = s_cov["sessions_by_mode"].get(k, 0) + 1
    nontrivial = set((model[i]) for i in range(len(cases)) if len(model[i]) > 4)
    dist = {}
    by_kind, by_peek, sub_md = {}, {}, 0
    by_spelling = {}
    for c in cases:
        if meta_of(c):
            sc = meta_of(c)["spelling_class"]
            by_spelling[sc] = by_spelling.get(sc, 0) + 1
        k = "%s/%s/%s/%s" % (c[0], c[2], "dfs" if c[4] else "bfs", ",".join(sorted(c[5])) or "-")
        dist[k] = dist.get(k, 0) + 1
        by_kind[c[0]] = by_kind.get(c[0], 0) + 1
        pk = peek_of(c)
        if pk:
            by_peek[pk[0]] = by_peek.get(pk[0], 0) + 1
        if c[3].strip("/") and "max_depth" in c[5]:
            sub_md += 1
    cov = dict(evaluations=len(cases) + s_cov["session_walks_run"], distinct_nontrivial=len(nontrivial),
               rule="all trees with <= 3 (quick) / 4 (thorough) nodes over 3 names x both orders x 4 methods x "
                    "max_depth, plus random trees (<= 25/60 nodes, dot-files, metacharacter names) x random "
                    "filter options x start-path spellings x backends; exact emitted sequence compared; "
                    "non-trivial = distinct non-empty emitted sequences",
               samples=[dict(case=case_json(cases[i]), implementation=impl[i][:300]) for i in (0, len(cases) // 2, len(cases) - 1)],
               traces_validated_against_impl=len(cases) - len(bad), disagreements_checked=len(bad),
               reference_failures=len(ref_bad), vm_compute_crosschecked=n_vm,
               reference_rule="info/files/dirs without name/glob filters, any start directory, any max_depth: the "
                              "reported set = resources of the tree snapshot at most max(max_depth, 1) levels below "
                              "the start directory, each exactly once (computed from the tree, not by the library)",
               reference_listing_checked=n_ref, evaluations_per_object_kind=by_kind,
               evaluations_after_partially_consumed_iterator=by_peek,
               evaluations_max_depth_from_subdirectory=sub_md,
               evaluations_per_start_spelling_class=by_spelling,
               start_spelling_rule="every start directory of the spelling trees x every class of redundant spelling of its "
                                   "path x max_depth (none, 0..3) x both orders x 4 methods (quick: method rotated); expected "
                                   "= model on the spelled path and the tree listing below the canonical path",
               distribution=dict(sorted(dist.items(), key=lambda kv: -kv[1])[:40]), exhaustive=True, **s_cov,
               exhaustive_scope="small trees; random trees/options are sampled")
    return report.finish(proof, cov, assumptions=[
        "name filters follow Glob/ShellSpec.v wild_spec, glob filters its component-wise semantics "
        "(Python's re engine is not modelled); the backend's scandir order is taken from the backend"])


def all_paths(ents, base=""):
    out = []
    for n, s in ents:
        out.append((base + "/" + n, s is not None))
        if s is not None:
            out += all_paths(s, base + "/" + n)
    return out


def reference_listing(ents, start, max_depth, what):
    """Sorted normalised report expected from the tree snapshot alone: what lies under `start` at most
    max(max_depth, 1) levels below it (the start directory itself is always scanned); None if start is no directory."""
    from fs.path import abspath, normpath
    try:
        st = abspath(normpath(start))
    except Exception:
        return None
    if st != "/" and st not in dir_paths(ents):
        return None
    base = st.rstrip("/")
    out = []
    for p, is_dir in all_paths(ents):
        if not p.startswith(base + "/"):
            continue
        level = p[len(base) + 1:].count("/") + 1
        if max_depth is not None and level > max(max_depth, 1):
            continue
        if what == "info":
            out.append((p, is_dir))
        elif (what == "dirs") == is_dir:
            out.append(p)
    return sorted(out)


def normalised_report(rendered, what):
    """Rendered files/dirs/info result -> sorted list with the reported paths normalised."""
    from fs.path import abspath, normpath

    def path(x):
        return abspath(normpath(common.untok(x[1:] or "-")))
    items = [x for x in rendered[1:-1].split(";") if x]
    if what == "info":
        return sorted((path(x[1:-1].split("|")[0]), x[1:-1].split("|")[1] == "T") for x in items)
    return sorted(path(x) for x in items)


def case_json(c):
    d = dict(backend=c[0], tree=c[1], method=c[2], start=c[3], depth_first=c[4], options=c[5],
             preceding_partial_iteration=peek_of(c))
    d.update(meta_of(c))
    return d


def replay(report, path):
    with open(path) as fh:
        d = json.load(fh)
    if "session" in d:
        sess = session_from_json(d["session"])
        rc = 0
        for _si, wi, rs, m in evaluate_sessions([sess]):
            ok = all(r == m for r in rs)
            print("walk %d %s: %s" % (wi, json.dumps(dict(walk_json(sess["walks"][wi]), tree="...")), "agrees" if ok else "DIFFERS"))
            if not ok:
                rc = 1
                print("  implementation:", [r for r in rs if r != m][0])
                print("  model         :", m)
        return rc
    c = d["case"]

    def ents(x):
        return [(n, None if s is None else ents(s)) for n, s in x]
    case = (c["backend"], ents(c["tree"]), c["method"], c["start"], c["depth_first"], c["options"],
            c.get("preceding_partial_iteration"),
            dict(canonical_start=c["canonical_start"], spelling_class=c.get("spelling_class")) if "canonical_start" in c else None)
    impl, model, _ = evaluate([case])
    print("implementation:", impl[0])
    print("model         :", model[0])
    return 0 if impl[0] == model[0] else 1
