"""C13 — walking visits every resource exactly once and filters exactly.

The real Walker (fs/walk.py) on MemoryFS / OSFS / SubFS / MountFS is compared with the
extracted walker model (Walk/WalkModel.v with Walk/WalkOpts.v): exact emitted sequence
for walk/files/dirs/info in both search orders; and with the recursive listing reference
on unfiltered / depth-limited walks from every start directory (every resource exactly once, depth counted
from the start directory).  The objects walked include the fs.wrap wrappers (cache_directory, read_only), WrapFS
and SubFS compositions, fresh and after a preceding partially (or fully) consumed scandir/walk on the same object."""
from __future__ import print_function

import itertools
import json
import random

import common
import fsops
from common import r_str, r_bool, r_list, r_pair, tok
from h_fs import tree_tokens

NAMES = ["a", "b", "c", ".d", "e.txt", "F.TXT", "a*b", "[x]", "g"]
NAME_PATS = ["*", "*.txt", "a*", "?", "[ab]", "[!a]*", ".*", "*.TXT", "g", "a[*]b", "e.???"]
# '**' only as the leading component: elsewhere fs.glob's regex lets it cross component boundaries
# (recorded finding of C14), which would only re-report that finding here
GLOB_PATS = ["*", "*/*", "**", "a/*", "**/*.txt", "*/b/*", "a/b", "**/g", "a/b/", "*/", "[ab]/*", "a/?", "**/b/*"]


def all_trees(names, max_nodes):
    """All trees with at most max_nodes nodes below the root (ordered entries, names distinct per dir)."""
    def gen(budget, depth):
        # yields (list of (name, sub)) using at most `budget` nodes
        yield []
        if budget == 0 or depth > 3:
            return
        for first in names:
            for kind in ("F", "D"):
                if kind == "F":
                    for rest in gen(budget - 1, depth):
                        if all(n != first for n, _ in rest) and (not rest or rest[0][0] > first):
                            yield [(first, None)] + rest
                else:
                    for k in range(0, budget):
                        for sub in gen(k, depth + 1):
                            used = 1 + count(sub)
                            for rest in gen(budget - used, depth):
                                if all(n != first for n, _ in rest) and (not rest or rest[0][0] > first):
                                    yield [(first, sub)] + rest
    def count(ents):
        return sum(1 + (count(s) if s is not None else 0) for _n, s in ents)
    seen = set()
    for t in gen(max_nodes, 0):
        key = repr(t)
        if key not in seen and count(t) <= max_nodes:
            seen.add(key)
            yield t


def random_tree(rnd, max_nodes, depth=0):
    ents = []
    names = rnd.sample(NAMES, rnd.randint(0, min(len(NAMES), 4)))
    for n in names:
        if max_nodes[0] <= 0:
            break
        max_nodes[0] -= 1
        if rnd.random() < 0.45 and depth < 5:
            ents.append((n, random_tree(rnd, max_nodes, depth + 1)))
        else:
            ents.append((n, None))
    return ents


def build(fs, ents, base="/"):
    for n, sub in ents:
        p = base.rstrip("/") + "/" + n
        if sub is None:
            fs.writebytes(p, b"x")
        else:
            fs.makedir(p)
            build(fs, sub, p)


def render_tree(ents):
    return "D@N{" + ";".join(r_str(n) + ":" + ("Fs120@N" if s is None else render_tree(s)) for n, s in ents) + "}"


def pats_tokens(p):
    if p is None:
        return ["-"]
    return [str(len(p))] + [tok(x) for x in p]


def opts_tokens(start, df, opts):
    md = opts.get("max_depth")
    t = [tok(start), "1" if df else "0", "-" if md is None else str(md), "1"]
    for k in ("filter", "exclude", "filter_dirs", "exclude_dirs", "filter_glob", "exclude_glob"):
        t += pats_tokens(opts.get(k))
    return t


def impl_walk(fs, what, start, df, opts):
    from fs.walk import Walker
    kw = dict(opts)
    kw["search"] = "depth" if df else "breadth"
    w = Walker(**kw)
    try:
        if what == "files":
            return r_list(r_str, list(w.files(fs, start)))
        if what == "dirs":
            return r_list(r_str, list(w.dirs(fs, start)))
        if what == "info":
            return r_list(lambda pi: r_pair(r_str, r_bool, (pi[0], pi[1].is_dir)), list(w.info(fs, start)))
        if what == "walk":
            return r_list(lambda s: r_pair(r_str, lambda dd: r_pair(
                lambda l: r_list(r_str, l), lambda l: r_list(r_str, l), dd),
                (s.path, ([i.name for i in s.dirs], [i.name for i in s.files]))), list(w.walk(fs, start)))
    except Exception as e:  # noqa
        return common.exc_name(e)
    raise ValueError(what)


def make_fs(kind, ents):
    import tempfile
    import shutil
    from fs.memoryfs import MemoryFS
    if kind == "mem":
        fs = MemoryFS()
        build(fs, ents)
        return fs, lambda: fs.close()
    if kind == "os":
        from fs.osfs import OSFS
        d = tempfile.mkdtemp(prefix="pyfs2verif_")
        fs = OSFS(d)
        build(fs, ents)
        return fs, lambda: (fs.close(), shutil.rmtree(d, ignore_errors=True))
    if kind == "sub":
        m = MemoryFS()
        m.makedirs("x/y")
        build(m, ents, "/x/y")
        fs = m.opendir("x/y")
        return fs, lambda: m.close()
    if kind == "mount":
        from fs.mountfs import MountFS
        inner = MemoryFS()
        build(inner, ents)
        mf = MountFS()
        mf.mount("m", inner)
        fs = mf.opendir("m")
        return fs, lambda: mf.close()
    if kind in WRAP_KINDS:
        from fs.wrap import cache_directory, read_only
        from fs.wrapfs import WrapFS
        # the wrapped MemoryFS is never modified by a walk: built once per tree, a NEW wrapper object per case
        key = (id(ents), kind in ("cachedsub", "subcached"))
        if key not in _BASES:
            m = MemoryFS()
            if key[1]:
                m.makedirs("x/y")
                build(m, ents, "/x/y")
            else:
                build(m, ents)
            _BASES[key] = (m, ents)     # keeps ents alive, so id(ents) stays unique
        m = _BASES[key][0]
        fs = {"cached": lambda: cache_directory(m), "ro": lambda: read_only(m), "wrap": lambda: WrapFS(m),
              "rocached": lambda: read_only(cache_directory(m)), "cachedro": lambda: cache_directory(read_only(m)),
              "cachedsub": lambda: cache_directory(m.opendir("x/y")),
              "subcached": lambda: cache_directory(m).opendir("x/y")}[kind]()
        return fs, lambda: None
    raise ValueError(kind)


_BASES = {}
WRAP_KINDS = ("cached", "ro", "wrap", "rocached", "cachedro", "cachedsub", "subcached")


def do_peek(fs, peek):
    """A preceding, partially consumed iteration on the same object: peek = [method, arg, k, namespaces];
    method 'scandir' (arg = directory) or files/dirs/info/walk (arg = search order); k entries are consumed
    (k < 0: all of them) and the iterator is dropped.  Nothing is modified."""
    method, arg, k, ns = peek
    try:
        if method == "scandir":
            it = fs.scandir(arg, namespaces=ns)
        elif method == "walk":
            it = fs.walk(search=arg, namespaces=ns)
        elif method == "info":
            it = fs.walk.info(search=arg, namespaces=ns)
        else:
            it = getattr(fs.walk, method)(search=arg)
        it = iter(it)
        n = 0
        for _x in it:
            n += 1
            if 0 <= k <= n:
                break
        del it
    except Exception as e:  # noqa  (the walk under test will show the problem)
        return common.exc_name(e)
    return None


def peek_variants(ents, ks=(1, 2)):
    out = []
    for d in ["/"] + dir_paths(ents):
        for k in ks:
            out.append(["scandir", d, k, None])
    for m in ("files", "dirs", "info", "walk"):
        for search in ("breadth", "depth"):
            for k in ks:
                out.append([m, search, k, None])
    out.append(["info", "breadth", -1, None])
    out.append(["scandir", "/", 1, ["details"]])
    return out


def explore(tier, seed):
    rnd = random.Random(seed + 13)
    thorough = tier == "thorough"
    cases = []      # (kind, ents, what, start, df, opts)
    small = list(all_trees(["a", "b", "c"], 4 if thorough else 3))
    for ents in small:
        for df in (False, True):
            for what in ("info", "walk", "files", "dirs"):
                cases.append(("mem", ents, what, "/", df, {}))
            for md in (0, 1, 2):
                cases.append(("mem", ents, "info", "/", df, {"max_depth": md}))
    # systematic blocks (random sampling starves option interactions):
    # (1) start-path spellings x max_depth x method x order on a deep tree
    deep = [("top", [("f0.txt", None), ("a", [("f1.txt", None), ("b", [("f2.txt", None), ("c", [("f3.txt", None)])])]),
                     ("empty", [])]), ("g", None)]
    for start in ("top", "top/", "/top/", "/top", "top//", "/", "top/a", "top/a/", "/top/a//"):
        for md in (None, 0, 1, 2, 3):
            for df in (False, True):
                for what in ("info", "files", "dirs", "walk"):
                    cases.append(("mem", deep, what, start, df, {} if md is None else {"max_depth": md}))
    # (2) pairs of glob patterns sharing leading components, as filter and as exclude
    tree2 = [("a", [("b", [("x.py", None)]), ("c", [("y.py", None)]), ("z.py", None)]), ("c", [("w.py", None)]),
             ("top.py", None)]
    gp = ["a/b/*.py", "a/c/*.py", "/a/b/*", "/c/*", "a/*", "**/*.py", "*/c/*", "a/*/*.py", "c/*", "a/b/x.py"]
    for p1, p2 in itertools.permutations(gp, 2):
        for key in ("filter_glob", "exclude_glob"):
            for df in (False, True):
                cases.append(("mem", tree2, "files" if df else "info", "/", df, {key: [p1, p2]}))
    # (3) every single name-filter option with every name pattern
    for key in ("filter", "exclude", "filter_dirs", "exclude_dirs"):
        for pat in NAME_PATS:
            for df in (False, True):
                cases.append(("mem", deep[0][1] + [(".d", None), ("F.TXT", None), ("a*b", [("q", None)])], "info", "/", df,
                              {key: [pat]}))
    # (4) every start directory of the tree x max_depth x both orders x 4 methods (depth is counted from the start
    #     directory, wherever it lies); also through wrappers
    tree3 = [("p", [("src", [("main.py", None), ("pkg", [("mod.py", None), ("inner", [("deep.py", None), ("core", [
        ("deeper.py", None)])])]), ("empty", [])]), ("docs", [("i.rst", None)]), ("s.py", None)]), ("r.txt", None)]
    start_trees = [deep, tree2, tree3] + [random_tree(rnd, [rnd.randint(8, 30)]) for _ in range(20 if thorough else 4)]
    for ti, ents in enumerate(start_trees):
        for start in ["/"] + dir_paths(ents):
            for md in (None, 0, 1, 2, 3):
                for df in (False, True):
                    for what in ("info", "files", "dirs", "walk"):
                        kind = "mem" if ti != 2 or thorough else ("mem", "cached", "sub", "ro")[(md or 0) % 4]
                        cases.append((kind, ents, what, start, df, {} if md is None else {"max_depth": md}))
    # (5) wrappers x preceding partially consumed scandir / walk on the same object (nothing is modified, so the
    #     expected result is that of the fresh object) x methods x orders x a few option sets
    peek_trees = [deep, tree3] + ([tree2] if thorough else [])
    optsets = [{}, {"max_depth": 2}, {"filter": ["*.txt", "*.py"]}] + ([{"exclude_dirs": ["a", "pkg"]}] if thorough else [])
    for ents in peek_trees:
        peeks = [None] + peek_variants(ents, ks=(1, 2, 3) if thorough else (1, 2))
        for kind in ("mem", "sub", "mount") + WRAP_KINDS:
            for pi, peek in enumerate(peeks):
                for oi, opts in enumerate(optsets):
                    for df in (False, True):
                        for wi, what in enumerate(("info", "walk", "files", "dirs")):
                            # quick: every (kind, peek) with every method and order, option sets rotated
                            if not thorough and (pi + wi + df) % len(optsets) != oi:
                                continue
                            start = "/" if (pi + oi) % 3 else "/" + ents[0][0]
                            cases.append((kind, ents, what, start, df, opts, peek))
    n_rand = 2500 if thorough else 350
    for i in range(n_rand):
        ents = random_tree(rnd, [rnd.randint(1, 60 if thorough else 25)])
        opts = {}
        for k in ("filter", "exclude", "filter_dirs", "exclude_dirs"):
            if rnd.random() < 0.3:
                opts[k] = rnd.sample(NAME_PATS, rnd.randint(0, 2))
        for k in ("filter_glob", "exclude_glob"):
            if rnd.random() < 0.25:
                opts[k] = rnd.sample(GLOB_PATS, rnd.randint(1, 2))
        if rnd.random() < 0.4:
            opts["max_depth"] = rnd.choice([0, 1, 2, 3])
        dirs = ["/"] + dir_paths(ents)
        start = rnd.choice(dirs)
        if not (opts.get("filter_glob") or opts.get("exclude_glob")) and rnd.random() < 0.3:
            start = rnd.choice([start.lstrip("/") or "/", start + "/", start])
        kind = rnd.choice(["mem", "mem", "mem", "sub", "mount"] + list(WRAP_KINDS) + (["os"] * 3 if i % 4 == 0 else []))
        peek = None
        if rnd.random() < 0.4:
            peek = rnd.choice(peek_variants(ents, ks=(1, 2, 3)))
            if rnd.random() < 0.3:
                peek = peek[:3] + [["details"]]
        cases.append((kind, ents, rnd.choice(["info", "walk", "files", "dirs"]), start, rnd.random() < 0.5, opts, peek))
    return cases


def peek_of(case):
    return case[6] if len(case) > 6 else None


def dir_paths(ents, base=""):
    out = []
    for n, s in ents:
        if s is not None:
            out.append(base + "/" + n)
            out += dir_paths(s, base + "/" + n)
    return out


def os_order(ents):
    return ents


def evaluate(cases):
    results = []
    lines = []
    for case in cases:
        kind, ents, what, start, df, opts = case[:6]
        fs, cleanup = make_fs(kind, ents)
        try:
            if peek_of(case):
                do_peek(fs, peek_of(case))
            if kind == "os":
                # the OS decides the listing order: rebuild the model tree in scandir order
                def reorder(e, p):
                    names = fs.listdir(p)
                    d = dict(e)
                    return [(n, None if d[n] is None else reorder(d[n], p.rstrip("/") + "/" + n)) for n in names]
                ents = reorder(ents, "/")
            impl = impl_walk(fs, what, start, df, opts)
        finally:
            cleanup()
        results.append(impl)
        lines.append("walk %s %s" % (what, " ".join(tree_tokens(render_tree(ents)) + opts_tokens(start, df, opts))))
    for m, _e in _BASES.values():
        m.close()
    _BASES.clear()
    uniq = sorted(set(lines))       # the same walk on another object / after a peek has the same expected result
    um = dict(zip(uniq, common.run_model_parallel(uniq, chunk=2000)))
    model = [um[l] for l in lines]
    return results, model, lines


def known_class(case):
    kind, ents, what, start, df, opts = case[:6]
    pats = (opts.get("filter_glob") or []) + (opts.get("exclude_glob") or [])
    if any("**" in p for p in pats):
        return "walker glob filter with '**' (regex crosses component boundaries)"
    if any(p.endswith("/") for p in pats):
        return "walker glob filter ending in '/' never matches a directory"
    return None


def run(report, forced=None):
    proof = common.preflight(report)
    cases = forced if forced is not None else explore(report.tier, report.seed)
    impl, model, lines = evaluate(cases)
    n_vm, vm_mism = common.vm_crosscheck(lines[:300], model[:300], "C13", limit=80)
    bad = [i for i in range(len(cases)) if impl[i] != model[i]]
    # reference check on the implementation alone: unfiltered walks list every resource once
    ref_bad = []
    n_ref = 0
    for i, case in enumerate(cases):
        kind, ents, what, start, df, opts = case[:6]
        if set(opts) - {"max_depth"} or what == "walk" or not impl[i].startswith("["):
            continue
        expect = reference_listing(ents, start, opts.get("max_depth"), what)
        if expect is None:
            continue
        n_ref += 1
        if normalised_report(impl[i], what) != expect:
            ref_bad.append(i)
    seen = set()
    seen_ref = set()
    for i in ref_bad:
        sig = (cases[i][0], (peek_of(cases[i]) or [None])[0], cases[i][4], cases[i][3] == "/", tuple(cases[i][5]))
        if sig in seen_ref or len(seen_ref) >= 6:
            continue
        seen_ref.add(sig)
        c = cases[i]
        report.violation(dict(kind="walk-does-not-list-every-resource-once", case=case_json(cases[i]),
                              implementation=impl[i],
                              expected_from_tree=reference_listing(c[1], c[3], c[5].get("max_depth"), c[2]),
                              theorem="Props/C13.v C13_bfs_reports_listing"))
    for i in bad:
        if i in ref_bad:
            continue
        kc = known_class(cases[i])
        known = report.known_match(kc) if kc else None
        if known:
            report.known_finding(known)
            continue
        sig = (cases[i][2], cases[i][4], tuple(sorted(cases[i][5])), cases[i][0] in WRAP_KINDS,
               (peek_of(cases[i]) or [None])[0])
        if sig in seen or len(seen) >= 8:
            continue
        seen.add(sig)
        # the model is proved equal to the recursive reference, so a sequence mismatch on a walk
        # is a wrong / missing / duplicated / misordered report at this input
        report.violation(dict(kind="walk-differs-from-proved-model", case=case_json(cases[i]),
                              implementation=impl[i], model=model[i], theorem="Props/C13.v"))
    if vm_mism and not bad:
        report.violation(dict(kind="correspondence-broken", vm=vm_mism, theorem="Props/C13.v"), no_input=True)
    nontrivial = set((model[i]) for i in range(len(cases)) if len(model[i]) > 4)
    dist = {}
    by_kind, by_peek, sub_md = {}, {}, 0
    for c in cases:
        k = "%s/%s/%s/%s" % (c[0], c[2], "dfs" if c[4] else "bfs", ",".join(sorted(c[5])) or "-")
        dist[k] = dist.get(k, 0) + 1
        by_kind[c[0]] = by_kind.get(c[0], 0) + 1
        pk = peek_of(c)
        if pk:
            by_peek[pk[0]] = by_peek.get(pk[0], 0) + 1
        if c[3].strip("/") and "max_depth" in c[5]:
            sub_md += 1
    cov = dict(evaluations=len(cases), distinct_nontrivial=len(nontrivial),
               rule="all trees with <= 3 (quick) / 4 (thorough) nodes over 3 names x both orders x 4 methods x "
                    "max_depth, plus random trees (<= 25/60 nodes, dot-files, metacharacter names) x random "
                    "filter options x start-path spellings x backends; exact emitted sequence compared; "
                    "non-trivial = distinct non-empty emitted sequences",
               samples=[dict(case=case_json(cases[i]), implementation=impl[i][:300]) for i in (0, len(cases) // 2, len(cases) - 1)],
               traces_validated_against_impl=len(cases) - len(bad), disagreements_checked=len(bad),
               reference_failures=len(ref_bad), vm_compute_crosschecked=n_vm,
               reference_rule="info/files/dirs without name/glob filters, any start directory, any max_depth: the "
                              "reported set = resources of the tree snapshot at most max(max_depth, 1) levels below "
                              "the start directory, each exactly once (computed from the tree, not by the library)",
               reference_listing_checked=n_ref, evaluations_per_object_kind=by_kind,
               evaluations_after_partially_consumed_iterator=by_peek,
               evaluations_max_depth_from_subdirectory=sub_md,
               distribution=dict(sorted(dist.items(), key=lambda kv: -kv[1])[:40]), exhaustive=True,
               exhaustive_scope="small trees; random trees/options are sampled")
    return report.finish(proof, cov, assumptions=[
        "name filters follow Glob/ShellSpec.v wild_spec, glob filters its component-wise semantics "
        "(Python's re engine is not modelled); the backend's scandir order is taken from the backend"])


def all_paths(ents, base=""):
    out = []
    for n, s in ents:
        out.append((base + "/" + n, s is not None))
        if s is not None:
            out += all_paths(s, base + "/" + n)
    return out


def reference_listing(ents, start, max_depth, what):
    """Sorted normalised report expected from the tree snapshot alone: what lies under `start` at most
    max(max_depth, 1) levels below it (the start directory itself is always scanned); None if start is no directory."""
    from fs.path import abspath, normpath
    try:
        st = abspath(normpath(start))
    except Exception:
        return None
    if st != "/" and st not in dir_paths(ents):
        return None
    base = st.rstrip("/")
    out = []
    for p, is_dir in all_paths(ents):
        if not p.startswith(base + "/"):
            continue
        level = p[len(base) + 1:].count("/") + 1
        if max_depth is not None and level > max(max_depth, 1):
            continue
        if what == "info":
            out.append((p, is_dir))
        elif (what == "dirs") == is_dir:
            out.append(p)
    return sorted(out)


def normalised_report(rendered, what):
    """Rendered files/dirs/info result -> sorted list with the reported paths normalised."""
    from fs.path import abspath, normpath

    def path(x):
        return abspath(normpath(common.untok(x[1:] or "-")))
    items = [x for x in rendered[1:-1].split(";") if x]
    if what == "info":
        return sorted((path(x[1:-1].split("|")[0]), x[1:-1].split("|")[1] == "T") for x in items)
    return sorted(path(x) for x in items)


def case_json(c):
    return dict(backend=c[0], tree=c[1], method=c[2], start=c[3], depth_first=c[4], options=c[5],
                preceding_partial_iteration=peek_of(c))


def replay(report, path):
    with open(path) as fh:
        d = json.load(fh)
    c = d["case"]

    def ents(x):
        return [(n, None if s is None else ents(s)) for n, s in x]
    case = (c["backend"], ents(c["tree"]), c["method"], c["start"], c["depth_first"], c["options"],
            c.get("preceding_partial_iteration"))
    impl, model, _ = evaluate([case])
    print("implementation:", impl[0])
    print("model         :", model[0])
    return 0 if impl[0] == model[0] else 1
