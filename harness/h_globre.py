"""C14 — correspondence for the regex TRANSLATION of fs.wildcard / fs.glob.

Coq side: Glob/Regex.v (regex subset: AST, `render` = exact Python text, `re_match` =
semantics of re.compile(text).match), Glob/Translate.v (string-level and AST-level models of
wildcard._translate, glob._translate, glob._translate_glob), Glob/TranslateProofs.v (text =
render(AST); regex matching = the shell specification of Glob/ShellSpec.v under stated side
conditions). This module ties those models to /repo on every run:

 (a) TEXT: the model's regex text must equal, character for character, what the running
     fs.wildcard._translate / fs.glob._translate / fs.glob._translate_glob return (value,
     levels, or exception), exhaustively for every pattern up to a length over
     ALPHABET, plus random longer patterns incl. non-ASCII code points; the regex objects
     actually compiled by match/imatch (taken from the modules' caches) must have the model's
     full text and the expected IGNORECASE flag.
 (b) SEMANTICS (the trusted part of Regex.v): for generated regex ASTs and subject strings,
     re.compile(render(ast), flags).match(subject) must agree with the Coq matcher, and
     re.compile must raise exactly when the model says the text does not compile; the model
     matchers wild_match / glob_match must agree with the real match / imatch.
 (c) on any mismatch a concrete (pattern, name) is searched on which the real match / imatch
     (or, for `levels`, fs.glob on a MemoryFS) disagrees with the specification; the violation
     carries that replayable input, otherwise it is reported with no_input=True.

Entry point: run_translate_checks(report, rnd, tier) -> coverage dict."""
from __future__ import print_function

import itertools
import json
import os
import random
import re
import sys
import time
import warnings

import common
from common import tok

# '*', '?', '[', ']', '!', '^', '-', backslash, '/', '.', '$', 'a', 'B', newline
ALPHABET = ["*", "?", "[", "]", "!", "^", "-", "\\", "/", ".", "$", "a", "B", "\n"]
STRUCT = ["*", "?", "[", "]", "!", "^", "-", "\\", "/", "a"]
CORE = ["*", "[", "]", "!", "^", "-", "\\", "/"]
PROCS = 8

# witnesses of the `_refuted` examples of Glob/TranslateProofs.v: (function, pattern, subject,
# result of the running code = result of the model, what the specification says)
REFUTED_WITNESSES = [
    ("glob.match", "a", "/a\nb", True, False),          # known: '$' under (?ms)
    ("glob.match", "a/**/b", "/ab/b", True, False),     # known: '**' crosses components
    ("glob.match", "a/*", "/a/", True, False),          # known: directory + '/' convention
    ("glob.match", "a[+-a]b", "/a/b", True, False),     # range containing '/'
    ("glob.match", "[!-a]", "/0", False, True),         # [^/-a]: '/'-a read as a range
    ("glob.match", "[!-a]", "/-", True, False),
    ("glob.match", "[!]a]", "/xa]", True, False),       # [^/]a] : class cut short
    ("glob.match", "[!]a]", "/x", False, True),
    ("glob.match", "*", "/", True, False),              # the root matched by '*'
]
# the deviations among them that the main comparison of h_glob.py does not reach (its pattern alphabet has no
# such classes): reported as KNOWN-FINDING (known_findings.json) while they reproduce
WITNESS_FINDINGS = {
    ("a[+-a]b", "/a/b"): "glob: a class range spanning '/' matches the separator",
    ("[!-a]", "/0"): "glob: negated class beginning with '-' or ']' is mistranslated ('/' inserted after '^')",
    ("[!-a]", "/-"): "glob: negated class beginning with '-' or ']' is mistranslated ('/' inserted after '^')",
    ("[!]a]", "/xa]"): "glob: negated class beginning with '-' or ']' is mistranslated ('/' inserted after '^')",
    ("[!]a]", "/x"): "glob: negated class beginning with '-' or ']' is mistranslated ('/' inserted after '^')",
    ("*", "/"): "glob: '*' matches the root path",
}
# match() raising re.error (the Coq model: re_compiles = false, Example wild_bad_range_raises / glob_neg_rb_raises)
RAISING_WITNESSES = [("wildcard.match", "[z-a]", "b"), ("glob.match", "[z-a]", "/b"), ("glob.match", "[!](]", "/x"),
                     ("glob.match", "[!-!]", "/b")]
RAISING_FINDING = "wildcard/glob: a descending range or a cut-short class makes match() raise re.error"


def r_lv_text(v):
    return common.r_pair(lambda o: common.r_option(common.r_int, o), common.r_str, v)


def ascii_lower(s):
    return "".join(chr(ord(c) + 32) if "A" <= c <= "Z" else c for c in s)


def is_ascii(s):
    return all(ord(c) < 128 for c in s)


def unstr(t):
    """inverse of r_str"""
    assert t[:1] == "s", t
    return "" if t == "s" else "".join(chr(int(x)) for x in t[1:].split(","))


# --------------------------------------------------------------------------- (a) text

def text_lines(p):
    """model lines + the running code's answers (same rendering) for one pattern"""
    import fs.wildcard as W
    import fs.glob as G
    lines, real = [], []
    lines.append("globre wild_translate 1 %s" % tok(p))
    real.append(common.outcome(common.r_str, lambda: W._translate(p, True))[3:])
    if p.lower() == ascii_lower(p):     # the model lowers ASCII only
        lines.append("globre wild_translate 0 %s" % tok(p))
        real.append(common.outcome(common.r_str, lambda: W._translate(p, False))[3:])
    lines.append("globre glob_translate %s" % tok(p))
    real.append(common.outcome(common.r_str, lambda: G._translate(p)))
    lines.append("globre glob_translate_glob %s" % tok(p))
    real.append(common.outcome(r_lv_text, lambda: G._translate_glob(p)))
    return lines, real


def _text_task(pats):
    lines, real, owner = [], [], []
    for p in pats:
        l, r = text_lines(p)
        lines.extend(l)
        real.extend(r)
        owner.extend([p] * len(l))
    out = common.run_model(lines) if lines else []
    bad = []
    for l, r, o, p in zip(lines, real, out, owner):
        if r != o and len(bad) < 25:
            bad.append(dict(pattern=p, line=l, implementation=r, model=o))
    step = max(1, len(lines) // 12)
    return len(lines), bad, (lines[::step][:12], out[::step][:12])


def _prefix_task(args):
    alphabet, prefix, maxlen = args
    pats = []
    if prefix is None:      # the short patterns
        for k in range(0, min(2, maxlen + 1)):
            pats.extend("".join(c) for c in itertools.product(alphabet, repeat=k))
    else:
        for k in range(0, maxlen - len(prefix) + 1):
            pats.extend(prefix + "".join(c) for c in itertools.product(alphabet, repeat=k))
    return _text_task(pats)


def exhaustive_text(pool, alphabet, maxlen):
    tasks = [(alphabet, None, maxlen)]
    if maxlen >= 2:
        tasks += [(alphabet, a + b, maxlen) for a in alphabet for b in alphabet]
    n, bad, sample = 0, [], None
    for k, b, s in pool.imap_unordered(_prefix_task, tasks):
        n += k
        bad.extend(b)
        sample = sample or s
    return n, bad, sample


def random_patterns(rnd, count):
    pieces = ALPHABET + ["**", "[!", "[^", "[]", "[!]", "a-z", "..", "../", "//", "\\\\", "[a-c]",
                         "[!a-c]", "é", "Ж", "中", "\U0001f600", "K", "İ", "ß",
                         " ", "\t", "#", "~", "&", "|", "(", ")", "{", "}", "+", "\x00", "\x7f", "\x0b",
                         "\ud800"]
    out = []
    for _ in range(count):
        k = rnd.randint(5, 14)
        out.append("".join(rnd.choice(pieces) if rnd.random() < 0.9 else chr(rnd.randint(0, 0x2fff))
                           for _ in range(k)))
    return out


def compiled_text_check(pats):
    """the regex objects match()/imatch() really compile: text and flags, from the caches"""
    import fs.wildcard as W
    import fs.glob as G
    lines, real = [], []
    for p in pats:
        for cs in (True, False):
            if not cs and p.lower() != ascii_lower(p):
                continue
            try:
                (W.match if cs else W.imatch)(p, "")
                rp = W._PATTERN_CACHE[(p, cs)]
                lines.append("globre wild_full %s %s" % ("1" if cs else "0", tok(p)))
                real.append(common.r_str(rp.pattern) + ("" if bool(rp.flags & re.I) == (not cs) else "!flags"))
            except re.error:
                pass
            try:
                (G.match if cs else G.imatch)(p, "")
                lv, rp = G._PATTERN_CACHE[(p, cs)]
                lines.append("globre glob_full %s" % tok(p))
                real.append("ok:" + r_lv_text((lv, rp.pattern)) + ("" if bool(rp.flags & re.I) == (not cs) else "!flags"))
            except (re.error, ValueError):
                pass
    out = common.run_model_parallel(lines, procs=PROCS) if lines else []
    bad = [dict(pattern=common.untok(l.split(" ")[-1]), line=l, implementation=r, model=o)
           for l, r, o in zip(lines, real, out) if r != o]
    return len(lines), bad[:25]


# --------------------------------------------------------------------------- (b) semantics

RAW_OK = [c for c in "ab]-!/,:=<>@_\"'%; \n#~&" ]
CLASS_CHARS = ["a", "c", "B", "Z", "-", "^", "\\", "/", "!", "[", "+", "0", "z", "\n", ".", "$", "*"]
SUBJ_CHARS = ["a", "b", "c", "A", "B", "C", "Z", "z", "-", "^", "\\", "/", "!", "[", "]", "+", "0",
              "\n", ".", "$", "*", "_", "`"]


def atom_tok(a):
    return ",".join(str(x) for x in a)


def rand_class_body(rnd):
    k = rnd.randint(1, 5)
    body = [rnd.choice(CLASS_CHARS) for _ in range(k)]
    if rnd.random() < 0.15:
        body[0] = "]"
    return "".join(body)


def rand_atom(rnd):
    t = rnd.choice([0, 0, 1, 2, 3, 4, 4, 5, 6, 7, 7, 8, 8, 10, 11, 9])
    if t == 0:
        return [0, ord(rnd.choice(SUBJ_CHARS + ["é", " ", "\t", "#"]))]
    if t == 1:
        return [1, ord(rnd.choice(RAW_OK))]
    if t in (7, 8):
        return [t] + [ord(c) for c in rand_class_body(rnd)]
    return [t]


def semantic_cases(rnd, tier):
    """(ci, subject, atoms)"""
    cases = []
    # every class body of <= 3 (quick) / 4 (thorough) characters x every one-character subject
    chars = ["a", "c", "-", "^", "\\", "/", "]", "B"]
    n = 4 if tier == "thorough" else 3
    for k in range(1, n + 1):
        for combo in itertools.product(chars, repeat=k):
            if "]" in combo[1:]:
                continue
            body = [ord(c) for c in combo]
            for neg in (7, 8):
                for ci in (0, 1):
                    for s in ("a", "b", "c", "A", "B", "-", "^", "\\", "/", "]", "[", "_", "`", "\n"):
                        cases.append((ci, s, [[neg] + body, [11]]))
    # random concatenations
    for _ in range(60000 if tier == "thorough" else 15000):
        atoms = [rand_atom(rnd) for _ in range(rnd.randint(1, 6))]
        if rnd.random() < 0.5:
            atoms = [[9]] + atoms
        if rnd.random() < 0.6:
            atoms = atoms + [rnd.choice([[10], [11], [0, 47], [10]])]
        ci = rnd.randint(0, 1)
        for _k in range(4):
            s = "".join(rnd.choice(SUBJ_CHARS) for _ in range(rnd.randint(0, 6)))
            if not ci and rnd.random() < 0.1:
                s += rnd.choice(["é", "中"])
            cases.append((ci, s, atoms))
    return cases


def _sem_task(cases):
    lines = ["globre re %d %s %s" % (ci, tok(s), " ".join(atom_tok(a) for a in atoms)) for ci, s, atoms in cases]
    out = common.run_model(lines) if lines else []
    bad = []
    cache = {}
    n_err = n_match = 0
    with warnings.catch_warnings():
        warnings.simplefilter("ignore")
        for (ci, s, atoms), l, o in zip(cases, lines, out):
            parts = o.split("|")
            if len(parts) != 3:
                bad.append(dict(line=l, model=o, implementation="(undecodable model answer)"))
                continue
            text = unstr(parts[0])
            key = (text, ci)
            if key not in cache:
                try:
                    cache[key] = re.compile(text, re.I if ci else 0)
                except re.error as e:
                    cache[key] = None
            rp = cache[key]
            if rp is None:
                n_err += 1
                impl = "|F|-"
                model = "|%s|-" % parts[1]
            else:
                m = rp.match(s) is not None
                n_match += m
                impl = "|T|%s" % ("T" if m else "F")
                model = "|%s|%s" % (parts[1], parts[2])
            if impl != model and len(bad) < 25:
                bad.append(dict(regex=text, ignorecase=bool(ci), subject=s, line=l, implementation=impl, model=model))
    return len(lines), bad, n_err, n_match


def derived_names(p):
    """subjects likely to match p (so that the comparison is not dominated by trivial non-matches)"""
    out = set()
    for star, q in (("", "a"), ("aB", "B"), ("a", "/")):
        t = p.replace("*", star).replace("?", q)
        out.add(t)
        out.add(re.sub(r"\[!?\]?[^\]]*\]", "a", t))
        out.add(re.sub(r"\[!?\]?([^\]])[^\]]*\]", lambda m: m.group(1), t))
        out.add(re.sub(r"\[!?\]?[^\]]*([^\]])\]", lambda m: m.group(1), t))
    out |= set("/" + t for t in list(out))
    out |= set(t.swapcase() for t in list(out))
    return sorted(out)


def matcher_cases(rnd, tier):
    """(kind, cs, pattern, subject): the model matchers against the real match/imatch"""
    n = 4 if tier == "thorough" else 3
    names = ["", "a", "B", "b", "ab", "aB", "a/B", "/", ".", "$", "-", "^", "!", "\\", "]", "[", "a]", "xa]",
             "a\nB", "\n", "a\n", "aa", "a.B", "0", "*", "?", "a/", "/a/B", "a/a/B", "//", "a//B", "Ba", "[a",
             "a-", "^a", "\\a", "a\\", "a$"]
    out = []
    for k in range(0, n + 1):
        for combo in itertools.product(ALPHABET, repeat=k):
            p = "".join(combo)
            sub = (names if k <= 2 else rnd.sample(names, 4)) + derived_names(p)
            for s in sub:
                cs = rnd.random() < 0.5 if k > 2 else None
                for c in ((True, False) if cs is None else (cs,)):
                    out.append(("wild", c, p, s))
                    out.append(("glob", c, p, s))
    return out


def real_match(kind, cs, p, s):
    import fs.wildcard as W
    import fs.glob as G
    try:
        if kind == "wild":
            return "ok:S" + common.r_bool((W.match if cs else W.imatch)(p, s))
        return "ok:S" + common.r_bool((G.match if cs else G.imatch)(p, s))
    except re.error:
        return "ok:N"
    except Exception as e:  # noqa
        return common.exc_name(e)


def _match_task(cases):
    lines = ["globre %s_match %s %s %s" % (kind, "1" if cs else "0", tok(p), tok(s)) for kind, cs, p, s in cases]
    out = common.run_model(lines) if lines else []
    bad = []
    nontrivial = 0
    with warnings.catch_warnings():
        warnings.simplefilter("ignore")
        for (kind, cs, p, s), l, o in zip(cases, lines, out):
            impl = real_match(kind, cs, p, s)
            model = o if kind == "glob" else "ok:" + o
            nontrivial += impl == "ok:ST"
            if impl != model and len(bad) < 25:
                bad.append(dict(function="%s.%s" % (kind, "match" if cs else "imatch"), pattern=p, subject=s,
                                line=l, implementation=impl, model=model))
    return len(lines), bad, nontrivial


def chunks(l, n):
    return [l[i:i + n] for i in range(0, len(l), n)]


# --------------------------------------------------------------------------- (c) witness search

def witness_names(p):
    base = sorted(set(["a", "b", "B", "/", ".", "\n", "-", "]", "0", "\\", "^", "\x08"] + [c for c in p if c not in "*?[!"]))[:14]
    names = [""]
    for k in (1, 2, 3):
        names.extend("".join(c) for c in itertools.product(base, repeat=k))
    small = ["a", "/", "B", "."] + [c for c in p if c not in "*?[!aB/."][:2]
    for k in (4, 5):
        names.extend("".join(c) for c in itertools.product(small[:7 - k], repeat=k))
    return names


def find_witness(p, budget=9000):
    """a (function, pattern, subject) on which the running match/imatch disagrees with the
    specification matchers of Glob/ShellSpec.v (via the extracted model) AND with what the model
    of the translation predicts (so that deviations the model already reproduces — the recorded
    findings, the `_refuted` examples — are not blamed on the change at hand)"""
    import fs.wildcard as W
    import fs.glob as G
    names = witness_names(p)[:budget]
    norm = {"ST": "T", "SF": "F", "N": "raises re.error", "ok:ST": "T", "ok:SF": "F", "ok:N": "raises re.error"}
    # wildcard: names as they are
    cases = [(n, cs) for n in names for cs in (True, False) if cs or (is_ascii(p) and is_ascii(n))]
    spec = common.run_model_parallel(["glob wild %s %s %s" % ("1" if cs else "0", tok(p), tok(n)) for n, cs in cases], procs=PROCS)
    model = common.run_model_parallel(["globre wild_match %s %s %s" % ("1" if cs else "0", tok(p), tok(n)) for n, cs in cases], procs=PROCS)
    with warnings.catch_warnings():
        warnings.simplefilter("ignore")
        for (n, cs), s, m in zip(cases, spec, model):
            try:
                impl = common.r_bool((W.match if cs else W.imatch)(p, n))
            except re.error:
                impl = "raises re.error"
            except Exception as e:  # noqa
                impl = common.exc_name(e)
            if impl != s and impl != norm.get(m, m):
                return dict(function="fs.wildcard.%s" % ("match" if cs else "imatch"), pattern=p, subject=n,
                            implementation=impl, reference=s, unchanged_code_per_model=norm.get(m, m))
    # glob: the property's convention — proper paths; directories carry a trailing slash and are
    # matched by slash patterns
    if common.run_model(["glob plain %s" % tok(p)])[0] == "T":
        is_dir = p.endswith("/")
        paths = [n for n in names if n.startswith("/") and "\n" not in n
                 and all(c not in ("", ".", "..") for c in n[1:].split("/"))]
        subj = [n + ("/" if is_dir else "") for n in paths]
        spec = common.run_model_parallel(["glob glob 1 %s %s %s" % (tok(p), tok(n), "1" if is_dir else "0") for n in paths], procs=PROCS) if paths else []
        model = common.run_model_parallel(["globre glob_match 1 %s %s" % (tok(p), tok(n)) for n in subj], procs=PROCS) if paths else []
        with warnings.catch_warnings():
            warnings.simplefilter("ignore")
            for n, s, m in zip(subj, spec, model):
                if not s.startswith("S"):
                    continue
                try:
                    impl = common.r_bool(G.match(p, n))
                except re.error:
                    impl = "raises re.error"
                except Exception as e:  # noqa
                    impl = common.exc_name(e)
                if impl != s[1:] and impl != norm.get(m, m):
                    return dict(function="fs.glob.match", pattern=p, subject=n, implementation=impl, reference=s[1:],
                                unchanged_code_per_model=norm.get(m, m))
    return None


def find_levels_witness(p):
    """fs.glob(pattern) on a MemoryFS must find every file that glob.match accepts (depth pruning
    by `levels` never loses a match)"""
    import fs.glob as G
    from fs.memoryfs import MemoryFS
    comps = [c for c in p.split("/") if c not in ("", ".", "..")]
    cand = []
    for names in itertools.product(["a", "b", "B", "ab"], repeat=min(len(comps), 3) or 1):
        cand.append("/" + "/".join(names))
    with warnings.catch_warnings():
        warnings.simplefilter("ignore")
        for path in cand:
            try:
                if not G.match(p, path):
                    continue
                m = MemoryFS()
                m.makedirs(path.rsplit("/", 1)[0] or "/", recreate=True)
                m.writebytes(path, b"x")
                got = sorted(g.path for g in m.glob(p))
                m.close()
            except Exception:  # noqa
                continue
            if path not in got:
                return dict(function="MemoryFS.glob", pattern=p, subject=path, tree=[path],
                            implementation=got, reference=[path])
    return None


def report_mismatches(report, part, bad, theorem):
    """(c): turn model/implementation mismatches into violations: up to two with a replayable
    (pattern, subject) if the search finds one, otherwise ONE correspondence-broken violation
    (no_input=True) carrying a sample of the mismatches"""
    if not bad:
        return 0
    def rank(b):
        # patterns most likely to have a proper-path witness first: few odd characters, about 3-4 long
        q = b.get("pattern") or ""
        return ("\n" in q, sum(c not in "aB/*?" for c in q), abs(len(q) - 3), q)
    pats = []
    for b in sorted(bad, key=rank):
        p = b.get("pattern")
        if p is not None and p not in [q for q, _ in pats]:
            pats.append((p, b))
    found = 0
    t0 = time.time()
    for p, b in pats[:40]:
        if time.time() - t0 > 20:
            break
        w = None
        try:
            if "glob_translate_glob" in b.get("line", "") and b["implementation"].split("|")[0] != b["model"].split("|")[0]:
                w = find_levels_witness(p)
            w = w or find_witness(p)
        except Exception as e:  # noqa
            w = None
        if w:
            found += 1
            report.violation(dict(kind="does-not-follow-shell-semantics", theorem=theorem, part=part,
                                  model_mismatch=b, path=w["subject"], **w))
            break
    return found


def report_all(report, parts, theorem):
    """parts: [(name, mismatches)]. Witness-carrying violations where the search succeeds; a part
    without a witness is reported as correspondence-broken (no_input=True) only when no part at all
    produced a witness (its mismatches have the same cause in all observed cases)."""
    found = 0
    for name, bad in parts:
        found += report_mismatches(report, name, bad, theorem) or 0
    if not found:
        for name, bad in parts:
            if bad:
                report.violation(dict(kind="correspondence-broken", theorem=theorem, part=name,
                                      what="the regex translation model of Glob/Translate.v / Glob/Regex.v no "
                                           "longer describes the running code", mismatches=bad[:5], **bad[0]),
                                 no_input=True)


# --------------------------------------------------------------------------- entry

def run_translate_checks(report, rnd, tier):
    import multiprocessing
    import fs.wildcard  # noqa  (imported before the fork)
    import fs.glob  # noqa
    import fs.memoryfs  # noqa
    thorough = tier == "thorough"
    t0 = time.time()
    cov = {}
    ctx = multiprocessing.get_context("fork")
    pool = ctx.Pool(PROCS)
    try:
        # (a) text
        maxlen = 5
        n_text, bad_text, sample = exhaustive_text(pool, ALPHABET, maxlen)
        if thorough:
            for alpha, ml in ((STRUCT, 6), (CORE, 7)):
                n2, bad2, _ = exhaustive_text(pool, alpha, ml)
                n_text += n2
                bad_text += bad2
        rp = random_patterns(rnd, 40000 if thorough else 8000)
        for k, b, _s in pool.imap_unordered(_text_task, chunks(rp, 1000)):
            n_text += k
            bad_text.extend(b)
        t_a = time.time()
        short = ["".join(c) for k in range(0, 4 if thorough else 3) for c in itertools.product(ALPHABET, repeat=k)]
        n_comp, bad_comp = compiled_text_check(short + rp[:300])
        # (b) semantics
        n_sem = n_err = n_hit = 0
        bad_sem = []
        for k, b, e, h in pool.imap_unordered(_sem_task, chunks(semantic_cases(rnd, tier), 5000)):
            n_sem += k
            n_err += e
            n_hit += h
            bad_sem.extend(b)
        n_m = n_mhit = 0
        bad_m = []
        for k, b, h in pool.imap_unordered(_match_task, chunks(matcher_cases(rnd, tier), 5000)):
            n_m += k
            n_mhit += h
            bad_m.extend(b)
        t_b = time.time()
    finally:
        pool.close()
        pool.join()
    # the witnesses of the refuted statements reproduce on the running code
    n_w = 0
    for fn, p, s, impl_expected, spec_says in REFUTED_WITNESSES:
        import fs.glob as G
        with warnings.catch_warnings():
            warnings.simplefilter("ignore")
            got = G.match(p, s)
        model = common.run_model(["globre glob_match 1 %s %s" % (tok(p), tok(s))])[0]
        n_w += 1
        if got != impl_expected or model != "ok:S" + common.r_bool(impl_expected):
            bad_m.append(dict(function=fn, pattern=p, subject=s, implementation=got, model=model,
                              line="refuted witness of TranslateProofs.v: expected %r" % impl_expected))
        elif (p, s) in WITNESS_FINDINGS:
            sig = WITNESS_FINDINGS[(p, s)]
            known = report.known_match(sig)
            if known:
                report.known_finding(known, example=dict(function=fn, pattern=p, subject=s, implementation=got,
                                                         specification=spec_says))
            else:
                report.violation(dict(kind="does-not-follow-shell-semantics", part="refuted-witness", function=fn,
                                      pattern=p, subject=s, implementation=got, reference=spec_says,
                                      theorem="Glob/TranslateProofs.v (_refuted examples)"))
    import re as _re
    import fs.wildcard as W
    for fn, p, s in RAISING_WITNESSES:
        import fs.glob as G
        n_w += 1
        try:
            with warnings.catch_warnings():
                warnings.simplefilter("ignore")
                (W.match if fn.startswith("wildcard") else G.match)(p, s)
            raised = False
        except _re.error:
            raised = True
        if raised:
            known = report.known_match(RAISING_FINDING)
            if known:
                report.known_finding(known, example=dict(function=fn, pattern=p, subject=s))
            else:
                report.violation(dict(kind="does-not-follow-shell-semantics", part="refuted-witness", function=fn,
                                      pattern=p, subject=s, implementation="raises re.error",
                                      reference="a result", theorem="Glob/TranslateProofs.v (*_raises examples)"))
    # (c)
    thm = "Glob/TranslateProofs.v (wild_translate_render, glob_translate_glob_render, wild_regex_correct, glob_regex_correct)"
    report_all(report, [("regex-text", bad_text), ("compiled-regex-text", bad_comp),
                        ("regex-semantics", bad_sem), ("model-matcher", bad_m)], thm)
    # a sample of every kind of model answer re-evaluated inside Coq
    vm_n, vm_bad = 0, []
    if sample and sample[0] and not os.environ.get("GLOBRE_DRIVER"):
        extra = ["globre wild_match 1 %s %s" % (tok("[!]a]*"), tok("xb")), "globre glob_match 0 %s %s" % (tok("a/[!b]?"), tok("A/cd")),
                 "globre re 1 %s 9 0,97 4 7,97,45,99 10" % tok("Axb\nq"), "globre glob_full %s" % tok("a/**/b/")]
        ls = list(sample[0]) + extra
        vm_n, vm_bad = common.vm_crosscheck(ls, common.run_model(ls), "C14re", limit=50)
        for msg in vm_bad:
            report.violation(dict(kind="extraction-mismatch", what=msg, theorem=thm), no_input=True)
    cov.update(dict(
        translate_text_comparisons=n_text, translate_text_mismatches=len(bad_text),
        compiled_regex_comparisons=n_comp, compiled_regex_mismatches=len(bad_comp),
        regex_semantics_cases=n_sem, regex_semantics_mismatches=len(bad_sem),
        regex_semantics_compile_errors_agreed=n_err, regex_semantics_matching=n_hit,
        model_matcher_cases=n_m, model_matcher_mismatches=len(bad_m), model_matcher_matching=n_mhit,
        refuted_witnesses_replayed=n_w, translate_vm_crosschecked=vm_n,
        translate_rule="regex text: every pattern of <= %d characters over %r%s, + %d random longer "
                       "patterns (non-ASCII, controls, lone surrogate) against wildcard._translate (both case modes; "
                       "case-insensitive only where str.lower() is ASCII lowering), glob._translate, glob._translate_glob "
                       "(value, levels, exception); compiled regex text+flags from the modules' caches; regex semantics: "
                       "every class body of <= %d characters x 14 subjects x negation x IGNORECASE, random atom "
                       "sequences x subjects, model matchers vs real match/imatch for every pattern of <= %d characters"
                       % (maxlen, "".join(ALPHABET),
                          (", of <= 6 over %r and of <= 7 over %r" % ("".join(STRUCT), "".join(CORE))) if thorough else "", len(rp),
                          4 if thorough else 3, 4 if thorough else 3),
        translate_wall_s=dict(text=round(t_a - t0, 1), semantics=round(t_b - t_a, 1), total=round(time.time() - t0, 1))))
    return cov


def replay_translate(d):
    """replay of a violation produced here; returns 0 when the running code agrees with the specification"""
    import fs.wildcard as W
    import fs.glob as G
    fn, p, s = d.get("function", ""), d["pattern"], d.get("subject", d.get("path", ""))
    def call(f):
        try:
            return common.r_bool(f(p, s))
        except re.error:
            return "raises re.error"
    if fn.startswith("fs.wildcard"):
        cs = fn.endswith(".match")
        impl = call(W.match if cs else W.imatch)
        spec = common.run_model(["glob wild %s %s %s" % ("1" if cs else "0", tok(p), tok(s))])[0]
    elif fn == "MemoryFS.glob":
        from fs.memoryfs import MemoryFS
        m = MemoryFS()
        m.makedirs(s.rsplit("/", 1)[0] or "/", recreate=True)
        m.writebytes(s, b"x")
        impl, spec = sorted(g.path for g in m.glob(p)), [s]
        print("%s(%r) on a tree holding %r =" % (fn, p, s), impl, "must contain:", spec)
        return 0 if s in impl else 1
    else:
        is_dir = p.endswith("/")
        impl = call(G.match)
        spec = common.run_model(["glob glob 1 %s %s %s" % (tok(p), tok(s.rstrip("/") or "/"), "1" if is_dir else "0")])[0][1:]
    print("%s(%r, %r) =" % (fn, p, s), impl, "reference:", spec)
    return 0 if impl == spec else 1


if __name__ == "__main__":
    # standalone driver: PYTHONPATH=/repo:/verif/harness /venv/bin/python -W ignore h_globre.py [seed] [tier]
    seed = int(sys.argv[1]) if len(sys.argv) > 1 else common.seed_from_env()
    tier_ = sys.argv[2] if len(sys.argv) > 2 else "quick"
    if os.environ.get("GLOBRE_DRIVER"):
        common.DRIVER = os.environ["GLOBRE_DRIVER"]
    rep = common.Report("C14", tier_, seed)
    c = run_translate_checks(rep, random.Random(seed + 1400), tier_)
    print(json.dumps(c, indent=1, sort_keys=True))
    for path, no_input in rep.violations:
        print("VIOLATION property=C14 replay=%s%s" % (path, " no-failing-input-found" if no_input else ""))
    sys.exit(1 if rep.violations else 0)
