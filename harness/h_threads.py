"""C08 -- individual FS methods are linearizable under concurrent use.

The REAL filesystem code of /repo runs on real threads, serialised by a "baton": only the
thread that holds the baton executes.  ``sys.settrace`` installs a local tracer on every
frame whose code lives in the fs package; on each 'line' event of such a frame the running
thread may hand the baton to another thread (the schedule decides).  Every lock created by
the package (``FS._lock`` through ``fs.base.threading.RLock``, ``_DirEntry.lock`` through
``fs.memoryfs.RLock``) is a ``PLock`` proxy: a thread that finds the lock owned by another
thread gives the baton away and becomes runnable again when the lock is free, so a blocked
thread never holds the baton.  No runnable thread while some thread is unfinished is a
DEADLOCK (reported, never hangs); a step limit and a wall clock watchdog bound every run.

A schedule is a list of ints, one per *choice point* (a yield point at which more than one
thread is runnable): the candidates are [running thread if still runnable] + [the other
runnable threads by thread id]; the choice is taken modulo the number of candidates;
a missing entry means 0 (= keep running).  So a run replays exactly.

Oracle: every order of the same calls (respecting the program order of each thread) is
executed sequentially on a fresh instance; the outcome (per call result or exception class,
final tree (path, type, bytes) + internal-state flags) of every explored schedule has to be
one of these sequential outcomes, and no call may end in a non fs.errors exception, a
deadlock or a timeout.

Model side: coq/Conc/Atomic.v + AtomicProofs.v (atomic_linearizable: one atomic block per
thread is linearizable for every schedule; two_block_not_linearizable: check-then-act is
not), re-checked through coq/Props/C08.v by common.preflight.
"""
from __future__ import print_function

import collections
import itertools
import json
import os
import random
import re
import shutil
import signal
import sys
import tempfile
import threading
import time

import common  # noqa: F401  (puts /repo on sys.path)

import fs  # noqa: E402
import fs.base  # noqa: E402
import fs.errors  # noqa: E402
import fs.glob  # noqa: E402
import fs.lrucache  # noqa: E402
import fs.memoryfs  # noqa: E402
import fs.mountfs  # noqa: E402
import fs.multifs  # noqa: E402
import fs.osfs  # noqa: E402
import fs.path  # noqa: E402
import fs.subfs  # noqa: E402
import fs.walk  # noqa: E402
import fs.wildcard  # noqa: E402
import fs.wrapfs  # noqa: E402

FS_DIR = os.path.dirname(os.path.abspath(fs.__file__)) + os.sep
THEOREM = "Props/C08.v (atomic_linearizable / two_block_not_linearizable on Conc/Atomic.v)"
LOCAL_KNOWN = os.path.join(os.path.dirname(os.path.abspath(__file__)), "c08_known_local.json")

WATCHDOG_S = 10.0
MAX_STEPS = 40000

# TODO: misbehaviours of the UNCHANGED library exposed by the coverage of this module that are not in
# known_findings.json / c08_known_local.json yet (exact signature strings, as printed in the evidence under
# coverage['pending_findings']).  They are looked up through report.known_match first; while a signature is listed
# here and not yet known it is recorded in the evidence instead of failing the check.
PENDING_FINDINGS = []
# (round 4: "fs.lrucache.LRUCache [corrupt:pattern-cache-over-capacity]" and the OSFS scandir / filterdir || remove / move
#  parent/child crashes were genuine defects, repaired in /repo (c46bb4e, 49fa85e): violations again if they return)

# modules of the package without shared mutable state: their lines are not yield points
# at grain "shared" (a switch before one of their lines is equivalent to a switch before
# the next line of a module that can touch shared state).  Grain "all" traces them too.
PURE_MODULES = frozenset([
    "path.py", "mode.py", "errors.py", "info.py", "permissions.py", "enums.py", "time.py",
    "_typing.py", "_fscompat.py", "_repr.py", "_url_tools.py", "constants.py",
    "error_tools.py", "iotools.py", "_pathcompat.py", "_tzcompat.py", "filesize.py",
])


class Abort(BaseException):
    """Unwinds every controlled thread after a deadlock / timeout."""


class CaseTimeout(BaseException):
    """SIGALRM watchdog of a whole case (sequential oracle included)."""


# --------------------------------------------------------------------------- lock proxy

_RealRLock = threading.RLock
CUR = None          # scheduler of the run in progress (None: no concurrency, real locks)


class PLock(object):
    """Re-entrant lock.  Outside a scheduled run: a plain threading.RLock.  Inside: pure
    bookkeeping under the baton (owner/count), blocking = giving the baton away."""

    __slots__ = ("real", "owner", "count")

    def __init__(self):
        self.real = _RealRLock()
        self.owner = None
        self.count = 0

    def acquire(self, blocking=True, timeout=-1):
        s = CUR
        if s is None:
            return self.real.acquire(blocking, timeout)
        return s.lock_acquire(self, blocking)

    def release(self):
        s = CUR
        if s is None:
            return self.real.release()
        return s.lock_release(self)

    __enter__ = acquire

    def __exit__(self, *exc):
        self.release()


class _ThreadingShim(object):
    """What fs.base sees as the ``threading`` module."""
    RLock = PLock

    def __getattr__(self, name):
        return getattr(threading, name)


def install_lock_proxies():
    fs.base.threading = _ThreadingShim()
    fs.memoryfs.RLock = PLock
    # the process-wide pattern caches (fs.lrucache.LRUCache) guard their updates with a lock of their own since
    # /repo c46bb4e: locks created from now on, and the ones of the caches that exist already (made at import time
    # of fs.wildcard / fs.glob), are proxies too.  Nothing is assumed: a tree without that lock has nothing to replace.
    if hasattr(fs.lrucache, "threading"):
        fs.lrucache.threading = _ThreadingShim()
    for mod in list(sys.modules.values()):
        if getattr(mod, "__name__", "").split(".")[0] != "fs":
            continue
        for obj in list(vars(mod).values()):
            if isinstance(obj, fs.lrucache.LRUCache):
                for attr, val in list(vars(obj).items()):
                    if type(val) is type(_RealRLock()):
                        setattr(obj, attr, PLock())


install_lock_proxies()


# --------------------------------------------------------------------------- tracer

# the process-wide pattern caches live here; a choice point whose running thread is at a
# line of one of these files is "inside the cache code"
CACHE_FILES = frozenset(["lrucache.py", "wildcard.py", "glob.py"])
CACHE_PURE_FUNCS = frozenset(["_translate", "_translate_glob", "_split_pattern_by_sep"])  # pattern -> regex text
_INCACHE = {}

# "effect lines": lines of library code that touch state shared between threads (the operating
# system, locks, the process-wide caches, the mutable fields of the filesystem objects).  A single
# preemption right before such a line is ALWAYS explored; the other lines (thread-local work such as
# path arithmetic) are sampled under the cap.
import linecache
EFFECT_RE = re.compile(
    r"\b(os|io|shutil|stat|tempfile|platform|errno|sendfile)\.\w+\(|\bscandir\(|\bopen\(|\bmkdir\(|_lock\b|\.lock\b|"
    r"_PATTERN_CACHE|_closed\b|_fs_sequence|\bmounts\b|_filesystems|write_fs|default_fs|\.root\b|_bytes_io|"
    r"_dir_entry|\.get_entry\(|\.set_entry\(|\.remove_entry\(|_open_files|\._dir\b|\.pos\b|_cache\b|"
    r"\bself\.\w+\s*(=|\+=)[^=]")
_EFFECT = {}


def effect_line(frame):
    code = frame.f_code
    k = (code, frame.f_lineno)
    e = _EFFECT.get(k)
    if e is None:
        e = _EFFECT[k] = bool(EFFECT_RE.search(linecache.getline(code.co_filename, frame.f_lineno)))
    return e

_TRACED = {"shared": {}, "all": {}}
_TRACED_CUR = _TRACED["shared"]
_GRAIN_ALL = False


def _global_tracer(frame, event, arg):
    code = frame.f_code
    t = _TRACED_CUR.get(code)
    if t is None:
        fn = code.co_filename
        t = fn.startswith(FS_DIR)
        if t and not _GRAIN_ALL and os.path.basename(fn) in PURE_MODULES:
            t = False
        if t and fn[len(FS_DIR):].startswith("opener"):
            t = False
        _TRACED_CUR[code] = t
    return _local_tracer if t else None


def _local_tracer(frame, event, arg):
    if event == "line":
        s = CUR
        if s is not None:
            s.yield_(None, frame)
    return _local_tracer


# --------------------------------------------------------------------------- scheduler

class TCtl(object):
    __slots__ = ("tid", "lock", "guard", "what", "finished", "job", "results", "pool", "held")

    def __init__(self, tid):
        self.tid = tid
        self.lock = threading.Lock()
        self.lock.acquire()
        self.guard = None
        self.what = "start"
        self.finished = False
        self.job = None
        self.results = []
        self.pool = None
        self.held = 0               # locks currently owned (outermost acquisitions)


class Sched(object):
    def __init__(self, nthreads, choices=(), policy=None, rnd=None):
        self.prefix = list(choices)
        self.pos = 0
        self.policy = policy        # None | ("p", prob of preempting at a choice point)
        self.rnd = rnd
        self.trace = []             # (choice, n candidates, stay, locks held, in cache code)
        self.incache = False
        self.eff = False
        self.threads = [TCtl(i) for i in range(nthreads)]
        self.cur = None
        self.aborted = False
        self.deadlock = None
        self.timeout = None
        self.steps = 0
        self.done = threading.Lock()
        self.done.acquire()
        self.lock_blocks = 0        # how often a thread had to wait for a lock
        self.switches = 0

    # -- choice
    def _choose(self, n, stay, held):
        if self.pos < len(self.prefix):
            c = self.prefix[self.pos] % n
        elif self.policy is None:
            c = 0
        else:
            r = self.rnd
            if stay:
                c = r.randrange(1, n) if r.random() < self.policy[1] else 0
            else:
                c = r.randrange(n)
        self.pos += 1
        self.trace.append((c, n, stay, held, self.incache if stay else False, self.eff if stay else False))
        return c

    def _pick(self, me):
        cands = []
        stay = False
        if me is not None and not me.finished:
            g = me.guard
            if g is None or g():
                cands.append(me)
                stay = True
        for t in self.threads:
            if t is not me and not t.finished:
                g = t.guard
                if g is None or g():
                    cands.append(t)
        if not cands:
            return None
        if len(cands) == 1:
            return cands[0]
        return cands[self._choose(len(cands), stay, me.held if stay else 0)]

    # -- abort
    def abort_all(self):
        self.aborted = True
        for t in self.threads:
            if not t.finished:
                try:
                    t.lock.release()
                except RuntimeError:
                    pass
        try:
            self.done.release()
        except RuntimeError:
            pass

    def _dead(self):
        self.deadlock = [(t.tid, t.what) for t in self.threads if not t.finished]
        self.abort_all()

    def _wait(self, me):
        if not me.lock.acquire(timeout=WATCHDOG_S * 2):
            self.timeout = self.timeout or "baton-wait"
            self.abort_all()
            raise Abort()
        if self.aborted:
            raise Abort()

    # -- yield point
    def yield_(self, guard, frame=None):
        if self.aborted:
            raise Abort()
        me = self.cur
        self.steps += 1
        if self.steps > MAX_STEPS:
            self.timeout = "step-limit (%d traced lines): livelock" % MAX_STEPS
            self.abort_all()
            raise Abort()
        me.guard = guard
        if frame is not None:
            code = frame.f_code
            ic = _INCACHE.get(code)
            if ic is None:
                bn = os.path.basename(code.co_filename)
                # 0: not cache code, 1: fs/wildcard.py / fs/glob.py, 2: fs/lrucache.py (the cache container itself)
                ic = _INCACHE[code] = (0 if bn not in CACHE_FILES or code.co_name in CACHE_PURE_FUNCS
                                       else 2 if bn == "lrucache.py" else 1)
            self.incache = ic
            self.eff = effect_line(frame)
        else:
            self.incache = False
            self.eff = True         # a lock operation
        nxt = self._pick(me)
        if nxt is None:
            self._dead()
            raise Abort()
        if nxt is not me:
            if frame is not None:
                me.what = "%s:%d" % (os.path.basename(frame.f_code.co_filename), frame.f_lineno)
            self.switches += 1
            self.cur = nxt
            nxt.lock.release()
            self._wait(me)
        me.guard = None

    # -- locks
    def lock_acquire(self, lock, blocking=True):
        me = self.cur
        if self.aborted:
            return True             # unwinding: bookkeeping is irrelevant now
        if lock.owner is not None and lock.owner is not me:
            if not blocking:
                return False
            self.lock_blocks += 1
            me.what = "waiting for a lock held by thread %d" % lock.owner.tid
            self.yield_(lambda: lock.owner is None or lock.owner is me)
        if lock.owner is None:
            lock.owner = me
            me.held += 1
        lock.count += 1
        return True

    def lock_release(self, lock):
        if self.aborted:
            return
        if lock.owner is not self.cur:
            raise RuntimeError("cannot release un-acquired lock")
        lock.count -= 1
        if lock.count == 0:
            lock.owner = None
            self.cur.held -= 1

    # -- threads
    def _boot(self, ctl):
        ctl.lock.acquire()
        try:
            if not self.aborted:
                sys.settrace(_global_tracer)
                try:
                    ctl.job(ctl)
                finally:
                    sys.settrace(None)
        except Abort:
            pass
        except BaseException as e:  # noqa -- harness problem inside a thread
            ctl.results.append("harness-error:%r" % (e,))
        finally:
            sys.settrace(None)
            ctl.finished = True
            if not self.aborted:
                if all(t.finished for t in self.threads):
                    self.done.release()
                else:
                    nxt = self._pick(None)
                    if nxt is None:
                        self._dead()
                    else:
                        self.cur = nxt
                        nxt.lock.release()

    def run(self, jobs):
        for ctl, job in zip(self.threads, jobs):
            ctl.job = job
            ctl.pool = PoolThread.submit(self._boot, ctl)
        first = self._pick(None)
        self.cur = first
        first.lock.release()
        if not self.done.acquire(timeout=WATCHDOG_S):
            self.timeout = self.timeout or "watchdog (%.0f s wall clock)" % WATCHDOG_S
            self.abort_all()
        ok = True
        for ctl in self.threads:
            if not ctl.pool.join(2.0 if self.aborted else WATCHDOG_S):
                ok = False      # thread stuck outside traced code: abandoned (daemon)
                self.timeout = self.timeout or "thread %d did not terminate" % ctl.tid
        return ok


class PoolThread(object):
    """Re-usable OS threads (thread creation would dominate a run)."""

    idle = []
    pid = None

    def __init__(self):
        self.wake = threading.Lock()
        self.wake.acquire()
        self.done = threading.Lock()
        self.job = None
        th = threading.Thread(target=self._loop)
        th.daemon = True
        th.start()

    def _loop(self):
        while True:
            self.wake.acquire()
            fn, args = self.job
            try:
                fn(*args)
            finally:
                self.job = None
                PoolThread.idle.append(self)
                self.done.release()

    @classmethod
    def submit(cls, fn, *args):
        if cls.pid != os.getpid():
            cls.pid = os.getpid()
            cls.idle = []
        pt = cls.idle.pop() if cls.idle else cls()
        pt.done.acquire()
        pt.job = (fn, args)
        pt.wake.release()
        return pt

    def join(self, timeout):
        if self.done.acquire(timeout=timeout):
            self.done.release()
            return True
        return False


# --------------------------------------------------------------------------- filesystems

FS_KINDS = ["MemoryFS", "OSFS", "MountFS", "MultiFS", "SubFS"]

# the fixed tree every schedule starts from
TREE_DIRS = ["/d", "/d/s", "/e", "/k0", "/k1", "/k2"]
TREE_FILES = [("/d/f", b"ff"), ("/d/g", b"g"), ("/d/s/x", b"x"), ("/a", b"aa"), ("/b", b"b"),
              ("/c", b"ccc"), ("/k0/y", b"y"), ("/k1/z", b"z")]
THREAD_DATA = [b"AAAA", b"BB", b"C"]
THREAD_FILE = ["/a", "/b", "/c"]        # source of 'move>'/'copy>' per thread
THREAD_DIR = ["/k0", "/k1", "/k2"]      # source of 'movedir>'/'copydir>' per thread

_TMP_ROOT = "/dev/shm" if os.path.isdir("/dev/shm") and os.access("/dev/shm", os.W_OK) else None


class Instance(object):
    """One fresh filesystem of a kind: the object(s) the threads call, where the fixed
    tree lives, how paths are spelled, and the backing object used for build/snapshot."""

    def __init__(self, kind, nthreads):
        self.kind = kind
        self.tmp = None
        self.prefix = ""
        self.base = "/"
        if kind == "MemoryFS":
            self.back = fs.memoryfs.MemoryFS()
            self.views = [self.back] * nthreads
        elif kind == "OSFS":
            self.tmp = tempfile.mkdtemp(prefix="c08_", dir=_TMP_ROOT)
            self.back = fs.osfs.OSFS(self.tmp)
            self.views = [self.back] * nthreads
        elif kind == "MountFS":
            self.back = fs.memoryfs.MemoryFS()
            self.top = fs.mountfs.MountFS()
            self.top.mount("/m", self.back)
            self.prefix = "/m"
            self.views = [self.top] * nthreads
        elif kind == "MultiFS":
            self.back = fs.memoryfs.MemoryFS()
            self.top = fs.multifs.MultiFS()
            self.top.add_fs("w", self.back, write=True)
            self.views = [self.top] * nthreads
        elif kind == "SubFS":
            self.back = fs.memoryfs.MemoryFS()
            self.back.makedir("/r")
            self.base = "/r"
        else:
            raise ValueError(kind)
        b = self.base.rstrip("/")
        for d in TREE_DIRS:
            self.back.makedir(b + d)
        for p, data in TREE_FILES:
            self.back.writebytes(b + p, data)
        if kind == "SubFS":
            self.views = [self.back.opendir("/r") for _ in range(nthreads)]

    def path(self, p):
        return self.prefix + p

    def snapshot(self):
        return snapshot(self.back, self.base)

    def close(self):
        if self.tmp is not None:
            shutil.rmtree(self.tmp, ignore_errors=True)


def snapshot(back, base):
    """[(path, 'dir'|'file', bytes as latin-1 text)] sorted, + internal-state flags."""
    out = []
    try:
        stack = [(base, 0)]
        while stack:
            d, depth = stack.pop()
            if depth > 12 or len(out) > 400:
                out.append(("!", "snapshot-too-deep-or-cyclic", ""))
                break
            for info in back.scandir(d):
                p = d.rstrip("/") + "/" + info.name
                if info.is_dir:
                    out.append((p, "dir", ""))
                    stack.append((p, depth + 1))
                else:
                    out.append((p, "file", back.readbytes(p).decode("latin-1")))
        out.sort()
        if isinstance(back, fs.memoryfs.MemoryFS):
            out.extend(memory_invariants(back))
    except Exception as e:  # noqa
        out.append(("!", "snapshot-failed", common.exc_name(e) + " " + repr(e)[:120]))
    if base != "/":
        n = len(base)
        out = [(p[n:] if p.startswith(base) else p, k, b) for (p, k, b) in out]
    return [list(x) for x in out]


def memory_invariants(mem):
    """Internal state of a MemoryFS that the public tree does not show."""
    bad = []
    seen = set()

    def visit(entry, path, depth):
        if id(entry) in seen:
            bad.append(("!", "entry-linked-twice", path))
            return
        seen.add(id(entry))
        if entry._open_files:
            bad.append(("!", "open-file-left", path))
        lk = entry.lock
        if isinstance(lk, PLock) and (lk.owner is not None or lk.count):
            bad.append(("!", "entry-lock-left-held", path))
        if entry.is_dir and depth < 14:
            for name, child in list(entry._dir.items()):
                if child.name != name:
                    bad.append(("!", "entry-name-differs-from-key", "%s/%s!=%s" % (path, name, child.name)))
                visit(child, path + "/" + name, depth + 1)
    visit(mem.root, "", 0)
    lk = mem._lock
    if isinstance(lk, PLock) and (lk.owner is not None or lk.count):
        bad.append(("!", "fs-lock-left-held", ""))
    return bad


# --------------------------------------------------------------------------- calls

# template -> (method name, needs)
TEMPLATES = [
    "makedir", "makedir!", "makedirs", "writebytes", "appendbytes", "readbytes", "remove", "removedir",
    "removetree", "move", "move>", "copy", "copy>", "movedir", "movedir>", "copydir",
    "copydir>", "getinfo", "listdir", "exists", "isempty", "create", "touch", "setinfo",
    "glob", "walk",
]
READERS = frozenset(["readbytes", "getinfo", "listdir", "exists", "isempty", "glob", "walk"])
CACHE_USERS = frozenset(["glob", "walk"])


def method_of(tpl):
    return tpl.rstrip(">!")


def make_call(tpl, p, t):
    """Concrete call of template ``tpl`` on primary path ``p`` by thread ``t``."""
    m = method_of(tpl)
    if tpl in ("writebytes", "appendbytes"):
        args = [p, THREAD_DATA[t].decode("latin-1")]
    elif tpl in ("move", "copy"):
        args = [p, "/t%d" % t]
    elif tpl in ("move>", "copy>"):
        args = [THREAD_FILE[t], p]
    elif tpl in ("movedir", "copydir"):
        args = [p, "/u%d" % t]
    elif tpl in ("movedir>", "copydir>"):
        args = [THREAD_DIR[t], p]
    else:
        args = [p]
    return dict(m=m, tpl=tpl, p=p, args=args)


# the namespace dimension of the info-returning calls (getinfo / scandir / filterdir / walk.info)
NS_ALL = ["basic", "details", "access", "stat", "lstat", "link"]
NS_CHOICES = collections.OrderedDict([
    ("none", None), ("details", ["details"]), ("access", ["access"]), ("stat", ["stat"]), ("lstat", ["lstat"]),
    ("link", ["link"]), ("all", NS_ALL)])
NS_READERS = ["getinfo", "scandir", "filterdir", "walkinfo"]
NS_METHOD = {"getinfo": "getinfo", "scandir": "scandir", "filterdir": "filterdir", "walkinfo": "walk"}


def make_ns_call(reader, ns, p):
    """Info-returning call ``reader`` on path ``p`` asking for the namespaces NS_CHOICES[ns]."""
    return dict(m=NS_METHOD[reader], tpl="%s@%s" % (reader, ns), p=p, args=[p], ns=ns)


def r_info_ns(i):
    """Canonical text of an Info with whatever namespaces it carries (no time stamps, inode numbers, directory
    sizes: they are not part of the outcome)."""
    import stat as _stat
    raw = i.raw
    parts = [i.name, "dir" if i.is_dir else "file"]
    for ns in sorted(raw):
        d = raw[ns] or {}
        if ns == "basic":
            continue
        if ns == "details":
            parts.append("details:%s:%s" % (d.get("type"), "-" if i.is_dir else d.get("size")))
        elif ns in ("stat", "lstat"):
            parts.append("%s:%o:%s" % (ns, _stat.S_IFMT(d.get("st_mode", 0)), "-" if i.is_dir else d.get("st_size")))
        elif ns == "link":
            parts.append("link:%s" % (d.get("target"),))
        elif ns == "access":
            parts.append("access:%s" % ",".join(d.get("permissions") or []))
        else:
            parts.append(ns)
    return "info(%s)" % "|".join(str(x) for x in parts)


def do_ns_call(inst, f, call):
    reader = call["tpl"].split("@")[0]
    namespaces = NS_CHOICES[call["ns"]]
    namespaces = list(namespaces) if namespaces is not None else None
    path = inst.path(call["args"][0])
    if reader == "getinfo":
        return r_info_ns(f.getinfo(path, namespaces=namespaces))
    if reader == "scandir":
        l = [r_info_ns(i) for i in f.scandir(path, namespaces=namespaces)]
    elif reader == "filterdir":
        l = [r_info_ns(i) for i in f.filterdir(path, files=["*"], dirs=["*"], namespaces=namespaces)]
    elif reader == "walkinfo":
        l = ["%s=%s" % (q, r_info_ns(i)) for q, i in f.walk.info(path, namespaces=namespaces)]
    else:
        raise ValueError("unknown info reader %r" % (reader,))
    return "[" + ",".join(sorted(l)) + "]"


def r_info(i):
    raw = i.raw
    size = raw.get("details", {}).get("size")
    return "info(%s,%s,%s)" % (i.name, "dir" if i.is_dir else "file", size)


def do_call(inst, t, call):
    """Execute one call through the view of thread t; returns the canonical result text."""
    f = inst.views[t]
    m = call["m"]
    a = call["args"]
    P = inst.path
    try:
        if "ns" in call:
            return do_ns_call(inst, f, call)
        if m == "makedir":
            if call["tpl"].endswith("!"):
                f.makedir(P(a[0]), recreate=True)
            else:
                f.makedir(P(a[0]))
            return "ok"
        if m == "makedirs":
            f.makedirs(P(a[0]), recreate=True)
            return "ok"
        if m == "writebytes":
            f.writebytes(P(a[0]), a[1].encode("latin-1"))
            return "ok"
        if m == "appendbytes":
            f.appendbytes(P(a[0]), a[1].encode("latin-1"))
            return "ok"
        if m == "readbytes":
            return "b:" + f.readbytes(P(a[0])).decode("latin-1")
        if m == "remove":
            f.remove(P(a[0]))
            return "ok"
        if m == "removedir":
            f.removedir(P(a[0]))
            return "ok"
        if m == "removetree":
            f.removetree(P(a[0]))
            return "ok"
        if m == "move":
            f.move(P(a[0]), P(a[1]), overwrite=True)
            return "ok"
        if m == "copy":
            f.copy(P(a[0]), P(a[1]), overwrite=True)
            return "ok"
        if m == "movedir":
            f.movedir(P(a[0]), P(a[1]), create=True)
            return "ok"
        if m == "copydir":
            f.copydir(P(a[0]), P(a[1]), create=True)
            return "ok"
        if m == "getinfo":
            return r_info(f.getinfo(P(a[0]), namespaces=["details"]))
        if m == "listdir":
            l = f.listdir(P(a[0]))
            if inst.kind == "OSFS":
                l = sorted(l)
            return "[" + ",".join(l) + "]"
        if m == "exists":
            return "T" if f.exists(P(a[0])) else "F"
        if m == "isempty":
            return "T" if f.isempty(P(a[0])) else "F"
        if m == "create":
            return "T" if f.create(P(a[0])) else "F"
        if m == "touch":
            f.touch(P(a[0]))
            return "ok"
        if m == "setinfo":
            f.setinfo(P(a[0]), {"details": {"modified": 86400.0 * (t + 1)}})
            return "ok"
        if m == "glob":
            if len(a) > 1:      # pattern cache cases: walk only the given directory
                c = f.glob(a[1], path=P(a[0])).count()
            else:
                c = f.glob(P(a[0]).rstrip("/") + "/*").count()
            return "glob(%d,%d,%d)" % (c.files, c.directories, c.data)
        if m == "walk":
            l = sorted(f.walk.files(P(a[0]), filter=a[1:] or ["*", "?*"]))
            return "[" + ",".join(l) + "]"
        if m == "match":
            return "T" if f.match([a[1]], a[2]) else "F"
        if m == "match_glob":
            return "T" if f.match_glob([P(a[0]).rstrip("/") + "/" + a[1]], P(a[0]).rstrip("/") + "/" + a[2]) else "F"
        if m == "filterdir":
            l = [i.name for i in f.filterdir(P(a[0]), files=[a[1]])]
            if inst.kind == "OSFS":
                l = sorted(l)
            return "[" + ",".join(l) + "]"
        raise ValueError("unknown method %r" % (m,))
    except Abort:
        raise
    except Exception as e:  # noqa
        n = common.exc_name(e)
        if n.startswith("crash:"):
            n = "crash:%s" % type(e).__name__
        return n


def reset_caches(warm):
    fs.glob._PATTERN_CACHE.clear()
    fs.wildcard._PATTERN_CACHE.clear()
    if warm:
        globs, wilds = warm
        for pat in globs:
            fs.glob.match(pat, "/zz")
            fs.glob.imatch(pat, "/zz")
        for pat in wilds:
            fs.wildcard.match(pat, "zz")
            fs.wildcard.imatch(pat, "zz")


# ---- cache-state classes: the process-wide pattern caches before the threads start
CACHE_STATES = ["empty", "few", "cap-1", "full"]
_FILLERS = {}        # cache name -> [(key, value)] of cache_size filler patterns, made ONCE through the public API


def _cache_of(name):
    return fs.wildcard._PATTERN_CACHE if name == "wild" else fs.glob._PATTERN_CACHE


def _fillers(name):
    """cache_size filler entries of a pattern cache, in insertion order.  They are produced once per process by
    matching cache_size distinct patterns through the public API (fs.wildcard.match / fs.glob.match) on the
    cleared cache; later runs put the same entries back in the same order (OrderedDict level), which is the state
    the public API calls leave -- checked once here."""
    got = _FILLERS.get(name)
    if got is None:
        cache = _cache_of(name)
        cache.clear()
        n = cache.cache_size
        for i in range(n):
            if name == "wild":
                fs.wildcard.match("filler-%d-*" % i, "zz")
            else:
                fs.glob.match("/filler-%d-*" % i, "/zz")
        got = list(cache.items())
        if len(got) != n or [k[0] for k, _v in got[:2]] != [("filler-%d-*" if name == "wild" else "/filler-%d-*") % i
                                                            for i in range(2)]:
            raise RuntimeError("pattern cache %s: %d entries after %d distinct patterns" % (name, len(got), n))
        cache.clear()
        _FILLERS[name] = got
    return got


def looked_up_patterns(call, inst):
    """(cache name, pattern) the call looks up, or None."""
    a = call["args"]
    if len(a) < 2:
        return None
    base = inst.path(a[0]).rstrip("/") + "/"
    if call["m"] == "glob":
        return ("glob", a[1])
    if call["m"] == "match_glob":
        return ("glob", base + a[1])
    if call["m"] in ("walk", "match", "filterdir"):
        return ("wild", a[1])
    return None


def prepare_cache_state(case, inst):
    """Put both pattern caches into the state class of the case: the patterns of the threads whose role is 'hit'
    are looked up first (they are the LEAST recently used entries), then filler patterns up to the size of the
    state class: empty = nothing, few = hits + 3, cap-1 = cache_size - 1, full = cache_size entries."""
    from collections import OrderedDict
    state = case["cstate"]
    hits = {"wild": [], "glob": []}
    for th, role in zip(case["threads"], case["croles"]):
        if role != "hit":
            continue
        for c in th:
            lp = looked_up_patterns(c, inst)
            if lp and lp[1] not in hits[lp[0]]:
                hits[lp[0]].append(lp[1])
    for name in ("wild", "glob"):
        cache = _cache_of(name)
        fill = _fillers(name)
        cache.clear()
        if state == "empty":
            continue
        for pat in hits[name]:
            if name == "wild":
                fs.wildcard.match(pat, "zz")
            else:
                fs.glob.match(pat, "/zz")
        target = {"few": len(cache) + 3, "cap-1": cache.cache_size - 1, "full": cache.cache_size}[state]
        for k, v in fill[:max(0, target - len(cache))]:
            OrderedDict.__setitem__(cache, k, v)


CACHE_OVER = "pattern-cache-over-capacity"
CACHE_OVER_SIGNATURE = "fs.lrucache.LRUCache [corrupt:%s]" % CACHE_OVER


def cache_invariants():
    """[('!', flag, cache)] for a pattern cache that ended in a state no sequence of look-ups can leave."""
    bad = []
    for name in ("wild", "glob"):
        cache = _cache_of(name)
        if len(cache) > cache.cache_size:
            bad.append(["!", CACHE_OVER, "%s:%d>%d" % (name, len(cache), cache.cache_size)])
    return bad


def warm_patterns(case, inst):
    """(glob patterns, wildcard patterns) the calls of a warm case will look up."""
    if not case.get("warm"):
        return None
    globs, wilds = ["/*"], ["*", "?*"]
    for th in case["threads"]:
        for c in th:
            a = c["args"]
            base = inst.path(a[0]).rstrip("/") + "/"
            if c["m"] == "glob":
                globs.append(a[1] if len(a) > 1 else base + "*")
            elif c["m"] == "match_glob":
                globs.append(base + a[1])
            elif c["m"] in ("walk", "match", "filterdir") and len(a) > 1:
                wilds.append(a[1])
    return globs, wilds


# --------------------------------------------------------------------------- runs

class Result(object):
    __slots__ = ("results", "tree", "status", "detail", "trace", "steps", "lock_blocks",
                 "switches", "key")


def outcome_key(results, tree):
    return json.dumps([results, tree], sort_keys=True)


def execute(case, schedule=(), policy=None, rnd=None):
    """Run the calls of ``case`` concurrently under the given schedule."""
    global CUR, _TRACED_CUR, _GRAIN_ALL
    threads = case["threads"]
    n = len(threads)
    inst = Instance(case["fs"], n)
    res = Result()
    try:
        if "cstate" in case:
            prepare_cache_state(case, inst)
        else:
            reset_caches(warm_patterns(case, inst))
        sched = Sched(n, schedule, policy, rnd)
        grain = case.get("grain", "shared")
        _GRAIN_ALL = grain == "all"
        _TRACED_CUR = _TRACED[grain]

        def job_for(t):
            def job(ctl):
                for call in threads[t]:
                    ctl.results.append(do_call(inst, t, call))
            return job

        CUR = sched
        try:
            sched.run([job_for(t) for t in range(n)])
        finally:
            CUR = None
        res.trace = sched.trace
        res.steps = sched.steps
        res.lock_blocks = sched.lock_blocks
        res.switches = sched.switches
        res.results = [list(c.results) for c in sched.threads]
        res.detail = None
        if sched.deadlock is not None:
            res.status = "deadlock"
            res.detail = ["thread %d at %s" % x for x in sched.deadlock]
            res.tree = None
        elif sched.timeout:
            res.status = "timeout"
            res.detail = sched.timeout
            res.tree = None
        else:
            res.status = "ok"
            res.tree = inst.snapshot()
            if "cstate" in case:
                res.tree = res.tree + cache_invariants()
        res.key = outcome_key(res.results, res.tree)
        return res
    finally:
        inst.close()


def orders(threads):
    """All interleavings of the calls that keep every thread's program order."""
    ids = []
    for t, calls in enumerate(threads):
        ids += [t] * len(calls)
    return sorted(set(itertools.permutations(ids)))


def sequential(case):
    """{outcome key: order} of every sequential order of the calls on a fresh instance."""
    out = collections.OrderedDict()
    threads = case["threads"]
    for order in orders(threads):
        inst = Instance(case["fs"], len(threads))
        try:
            if "cstate" in case:
                prepare_cache_state(case, inst)
            else:
                reset_caches(warm_patterns(case, inst))
            results = [[] for _ in threads]
            nxt = [0] * len(threads)
            for t in order:
                results[t].append(do_call(inst, t, threads[t][nxt[t]]))
                nxt[t] += 1
            tree = inst.snapshot()
            if "cstate" in case:
                tree = tree + cache_invariants()
            key = outcome_key(results, tree)
            out.setdefault(key, list(order))
        finally:
            inst.close()
    return out


def judge(res, seq):
    """None when the outcome is one of the sequential outcomes, else the failure kind."""
    if res.status == "deadlock":
        return "deadlock"
    if res.status == "timeout":
        return "timeout"
    if res.key in seq:
        return None
    for th in res.results:
        for r in th:
            if r.startswith("crash:") or r.startswith("harness-error"):
                return r.split(" ")[0]
    flags = [k for p, k, _b in res.tree if p == "!"]
    if flags and all(k == CACHE_OVER for k in flags):
        # the over-capacity flag of a pattern cache must not stand for a wrong result: without the flag the outcome
        # still has to be a sequential one
        if outcome_key(res.results, [x for x in res.tree if x[0] != "!"]) not in seq:
            return "not-linearizable"
    for p, k, _b in res.tree:
        if p == "!":
            return "corrupt:" + k
    return "not-linearizable"


def realized(res):
    s = [x[0] for x in res.trace]
    while s and s[-1] == 0:
        s.pop()
    return s


def preemptions(res):
    return sum(1 for x in res.trace if x[2] and x[0] != 0)


# --------------------------------------------------------------------------- cases

REL_CONFIGS = collections.OrderedDict([
    ("same", [("/d/f", "/d/f"), ("/e", "/e"), ("/d/s", "/d/s"), ("/d/n", "/d/n")]),
    ("parent/child", [("/e", "/e/n"), ("/d", "/d/f"), ("/d/s", "/d/s/x"), ("/d", "/d/s"),
                      ("/d/n", "/d/n/k")]),
    ("siblings", [("/d/f", "/d/g"), ("/d/f", "/d/n"), ("/d/n", "/d/m"), ("/d/s", "/d/f"),
                  ("/e", "/a")]),
])


def relation_of(p1, p2):
    if p1 == p2:
        return "same"
    if fs.path.dirname(p1) == p2 or fs.path.dirname(p2) == p1:
        return "parent/child"
    if fs.path.dirname(p1) == fs.path.dirname(p2):
        return "siblings"
    return "unrelated"


def pair_signature(kind, c1, c2):
    ms = sorted([c1["m"], c2["m"]])
    return "%s.%s||%s %s" % (kind, ms[0], ms[1], relation_of(c1["p"], c2["p"]))


def case_signatures(case, failure):
    """Candidate known-finding signatures of a failing case (most specific first)."""
    if failure == "corrupt:" + CACHE_OVER:
        return [CACHE_OVER_SIGNATURE]       # a property of the shared container, whatever entry points reach it
    suffix = "" if failure == "not-linearizable" else " [%s]" % failure
    sigs = []
    th = case["threads"]
    for i in range(len(th)):
        for j in range(i + 1, len(th)):
            for c1 in th[i]:
                for c2 in th[j]:
                    s = pair_signature(case["fs"], c1, c2) + suffix
                    if s not in sigs:
                        sigs.append(s)
    return sigs


def class_signatures(case, failure, crashed=None):
    """Coarser known-finding classes: '<FSKind>.<method>||*' = this method of this kind is
    not one atomic block (it loses against any concurrent mutator of a related path).  Only
    for outcomes that are merely non-linearizable; a crash / deadlock / corrupted internal
    state always needs its exact signature.  For a crash the class is that of the call(s) that
    CRASHED (``crashed``: their method names), never that of the other call of the pair."""
    if failure == "not-linearizable":
        suffix = ""
    elif failure.startswith("crash:"):
        suffix = " [%s]" % failure      # same method, same escaping exception class
    else:
        return []                       # deadlock / timeout / corrupted state: exact only
    out = []
    for th in case["threads"]:
        for c in th:
            if failure.startswith("crash:") and crashed is not None and c["m"] not in crashed:
                continue
            s = "%s.%s||*%s" % (case["fs"], c["m"], suffix)
            if s not in out:
                out.append(s)
    return out


def main_signature(case, failure):
    th = case["threads"]
    if failure == "corrupt:" + CACHE_OVER:
        return CACHE_OVER_SIGNATURE
    if len(th) == 2 and len(th[0]) == 1 and len(th[1]) == 1:
        return case_signatures(case, failure)[0]
    ms = sorted(c["m"] for t in th for c in t)
    suffix = "" if failure == "not-linearizable" else " [%s]" % failure
    return "%s.%s %s%s" % (case["fs"], "||".join(ms), case["relation"], suffix)


def pair_cases(kind, tier, seed):
    """2 threads x 1 call: template pairs x relations x path configurations."""
    thorough = tier == "thorough"
    cases = []
    n = len(TEMPLATES)
    for i in range(n):
        for j in range(i, n):
            t1, t2 = TEMPLATES[i], TEMPLATES[j]
            m1, m2 = method_of(t1), method_of(t2)
            if m1 in READERS and m2 in READERS and not (m1 in CACHE_USERS and m2 in CACHE_USERS):
                continue            # two readers: nothing to linearize
            for rel, configs in REL_CONFIGS.items():
                combos = []
                for ci, (p1, p2) in enumerate(configs):
                    combos.append((ci, t1, p1, t2, p2))
                    if rel != "same" and t1 != t2:
                        combos.append((ci, t2, p1, t1, p2))
                if not thorough:
                    # one configuration per (pair, relation, role assignment); which one
                    # depends on the pair and the seed so that different seeds (and pairs)
                    # visit different configurations
                    pick = (i * 7 + j * 3 + seed) % len(configs)
                    if not (rel == "same" and kind in ("MemoryFS", "OSFS")):
                        # two calls on the SAME path race most: all four states of that path (file, empty
                        # directory, non-empty directory, missing) for the two primary backends
                        combos = [c for c in combos if c[0] == pick]
                for ci, ta, pa, tb, pb in combos:
                    cases.append(dict(fs=kind, relation=rel, config="%s-%d" % (rel, ci),
                                      threads=[[make_call(ta, pa, 0)], [make_call(tb, pb, 1)]]))
                    if m1 in CACHE_USERS and m2 in CACHE_USERS:
                        cases.append(dict(cases[-1], warm=True))
    return cases


MUTATORS = [t for t in TEMPLATES if method_of(t) not in READERS]


def multi_cases(kind, seed, count):
    """3 threads x 1 call and 2 threads x 2 calls (thorough tier), seeded sample."""
    rnd = random.Random(seed * 7919 + FS_KINDS.index(kind) * 13 + 5)
    cases = []
    for k in range(count):
        rel = rnd.choice(list(REL_CONFIGS))
        p1, p2 = rnd.choice(REL_CONFIGS[rel])
        paths = [p1, p2]
        if k % 2 == 0:
            tpls = [rnd.choice(MUTATORS), rnd.choice(TEMPLATES), rnd.choice(MUTATORS)]
            ps = [p1, p2, rnd.choice(paths)]
            th = [[make_call(tpls[t], ps[t], t)] for t in range(3)]
        else:
            th = []
            for t in range(2):
                a = make_call(rnd.choice(MUTATORS), paths[t], t)
                b = make_call(rnd.choice(TEMPLATES), rnd.choice(paths), t)
                th.append([a, b] if rnd.random() < 0.5 else [b, a])
        cases.append(dict(fs=kind, relation=rel, config="multi", threads=th))
    return cases


# ---- the namespace dimension: info-returning calls x namespaces x every mutator

_FILES = dict(TREE_FILES)
_EMPTY_DIRS = [d for d in TREE_DIRS if not any(q.startswith(d + "/") for q in TREE_DIRS + list(_FILES))]


def path_type(p):
    """Type of a path in the fixed start tree: file | dir | emptydir | missing | orphan (parent missing too)."""
    if p in _FILES:
        return "file"
    if p in _EMPTY_DIRS:
        return "emptydir"
    if p in TREE_DIRS or p == "/":
        return "dir"
    parent = fs.path.dirname(p)
    return "missing" if (parent in TREE_DIRS or parent == "/") else "orphan"


# start states of the primary path on which a mutator does something (anything else fails in every order)
_ANYDIR = ("dir", "emptydir")
MUTATOR_APPLIES = {
    "remove": ("file",), "removedir": ("emptydir",), "removetree": _ANYDIR, "move": ("file",), "movedir": _ANYDIR,
    "copy": ("file",), "copydir": _ANYDIR, "writebytes": ("file", "missing"), "appendbytes": ("file", "missing"),
    "create": ("file", "missing"), "touch": ("file", "missing"), "makedir": ("missing",),
    "makedir!": ("missing",) + _ANYDIR, "makedirs": ("missing", "orphan") + _ANYDIR, "move>": ("file", "missing"),
    "copy>": ("file", "missing"), "movedir>": ("missing",) + _ANYDIR, "copydir>": ("missing",) + _ANYDIR,
    "setinfo": ("file",) + _ANYDIR,
}
VANISHERS = ["remove", "removedir", "removetree", "move", "movedir"]     # make their primary path disappear


def ns_universe(kind):
    """Every (info reader x namespaces x mutator x path relation x configuration x role assignment) in which the
    mutator does something and the reader's path can be read in at least one order."""
    out = []
    for reader in NS_READERS:
        for mut in MUTATORS:
            for rel, configs in REL_CONFIGS.items():
                for ci, (p1, p2) in enumerate(configs):
                    roles = [(p1, p2)] if rel == "same" else [(p1, p2), (p2, p1)]
                    for rp, mp in roles:
                        if path_type(mp) not in MUTATOR_APPLIES[mut]:
                            continue
                        if reader != "getinfo" and path_type(rp) == "file":
                            continue
                        if path_type(rp) == "orphan":
                            continue
                        for ns in NS_CHOICES:
                            out.append(dict(fs=kind, relation=rel, config="ns-%s-%d" % (rel, ci), nsdim=True,
                                            threads=[[make_ns_call(reader, ns, rp)], [make_call(mut, mp, 1)]]))
    return out


def ns_cases(kind, tier, seed, every=1):
    """thorough: the universe.  quick: (A) every reader x EVERY namespace choice x every mutator that makes the
    reader's own path disappear (remove / removedir / removetree / move / movedir, relation same); (B) the same
    mutators on the parent / on a child of the reader's path with 'all' + two rotating namespace choices; (C) from
    the rest of the universe two cases per (reader, mutator) rotating with the seed over namespaces / relations /
    configurations.  ``every`` = n keeps every n-th of them (composite kinds)."""
    uni = ns_universe(kind)
    if tier == "thorough":
        return uni
    names = list(NS_CHOICES)
    chosen = []
    strata = collections.OrderedDict()
    nb = 0
    for c in uni:
        rc, mc = c["threads"][0][0], c["threads"][1][0]
        vanish = mc["tpl"] in VANISHERS
        if vanish and c["relation"] == "same":
            chosen.append(c)
            continue
        if vanish and c["relation"] == "parent/child":
            nb += 1
            k = (nb // len(names) + seed) % (len(names) - 1)       # constant over the 7 consecutive ns variants
            if rc["ns"] in ("all", names[k], names[(k + 3) % (len(names) - 1)]):
                chosen.append(c)
                continue
        strata.setdefault((rc["tpl"].split("@")[0], mc["tpl"]), []).append(c)
    for i, (k, group) in enumerate(strata.items()):
        for j in range(2):
            chosen.append(group[(i * 5 + seed * 3 + j * (len(group) // 2 + 1)) % len(group)])
    if every > 1:
        off = FS_KINDS.index(kind)
        chosen = [c for k, c in enumerate(chosen) if (k + off + seed) % every == 0]
    return chosen


NS_PARAMS = dict(bound=1, cap1=4, cap2=0, random=2, uniform=0, cap_effect=120)


CACHE_PATTERN = "*.py"
CACHE_DIR = "/d/s"          # one file: a handful of cache look-ups per call
CACHE_TEMPLATES = ["match", "match_glob", "filterdir", "walk", "glob"]


def cache_call(tpl):
    if tpl == "match":
        args = [CACHE_DIR, CACHE_PATTERN, "x.py"]
    elif tpl == "match_glob":
        args = [CACHE_DIR, CACHE_PATTERN, "x.py"]
    else:
        args = [CACHE_DIR, CACHE_PATTERN]
    return dict(m=tpl, tpl=tpl + "*", p=CACHE_DIR, args=args)


def cache_cases(kind, warm):
    """Two threads use the same pattern matching entry point / the same pattern: the
    process-wide LRU caches of fs.wildcard and fs.glob are the only shared state."""
    cases = []
    for i, t1 in enumerate(CACHE_TEMPLATES):
        for t2 in CACHE_TEMPLATES[i:]:
            c = dict(fs=kind, relation="same", config="cache-" + ("warm" if warm else "cold"),
                     threads=[[cache_call(t1)], [cache_call(t2)]])
            if warm:
                c["warm"] = True
            cases.append(c)
    return cases


CACHE_PATTERNS = [CACHE_PATTERN, "x*"]
WILD_USERS = ["match", "filterdir", "walk"]        # look patterns up in fs.wildcard._PATTERN_CACHE
GLOB_USERS = ["match_glob", "glob"]                # ... in fs.glob._PATTERN_CACHE
# (role of thread 0, role of thread 1, same pattern?)   hit = its pattern is in the cache before the threads start
CACHE_ROLES = [("hit", "hit", True), ("hit", "hit", False), ("hit", "miss", False), ("miss", "miss", False),
               ("miss", "miss", True)]


def cache_call_pat(tpl, pattern):
    c = cache_call(tpl)
    c["args"][1] = pattern
    return c


def cache_state_universe(kind):
    """Pairs of calls that use the SAME process-wide pattern cache (fs.wildcard's or fs.glob's) x cache state class
    (empty, few, capacity-1, exactly full) x what each thread's look-up is (hit / miss; with a full cache a miss
    evicts, with capacity-1 the second miss evicts) x same / different pattern."""
    cases = []
    for users in (WILD_USERS, GLOB_USERS):
        for i, t1 in enumerate(users):
            for t2 in users[i:]:
                for state in CACHE_STATES:
                    for r1, r2, same in CACHE_ROLES:
                        if state == "empty" and "hit" in (r1, r2):
                            continue
                        pats = [CACHE_PATTERNS[0], CACHE_PATTERNS[0 if same else 1]]
                        variants = [((t1, r1), (t2, r2))]
                        if r1 != r2 and t1 != t2:
                            variants.append(((t1, r2), (t2, r1)))
                        for (ta, ra), (tb, rb) in variants:
                            cases.append(dict(
                                fs=kind, relation="same", cstate=state, croles=[ra, rb],
                                config="cache-%s-%s/%s-%s" % (state, ra, rb, "same" if same else "diff"),
                                threads=[[cache_call_pat(ta, pats[0])], [cache_call_pat(tb, pats[1])]]))
    return cases


def cache_state_cases(kind, tier, seed):
    """thorough: the universe.  quick: all of it for the pairs of the small entry points (match||match,
    match_glob||match_glob: the cache code is nearly all they run; FS.match / match_glob are fs.base code, the same
    for every kind, so on MemoryFS only); for every other pair of users every state class x role combination once,
    rotating over the pairs with the seed."""
    uni = cache_state_universe(kind)
    if tier == "thorough":
        return uni
    chosen = []
    strata = collections.OrderedDict()
    for c in uni:
        ms = [th[0]["m"] for th in c["threads"]]
        if ms in (["match", "match"], ["match_glob", "match_glob"]) and kind == "MemoryFS":
            chosen.append(c)
        else:
            cache = "wild" if ms[0] in WILD_USERS else "glob"
            strata.setdefault((cache, c["config"]), []).append(c)
    for i, (k, group) in enumerate(strata.items()):
        if kind != "MemoryFS" and (i + seed) % 2:
            continue        # the other kinds: every second (state, roles) class per seed
        chosen.append(group[(i + seed) % len(group)])
    return chosen


# quick tier of the cache-state classes: every single preemption + every double preemption inside fs/lrucache.py
CACHE_STATE_PARAMS = dict(bound=1, cap1=8, cache1=True, cap2=0, random=4, uniform=0, cache2="lru", unit=3,
                          cap_effect=150, case_timeout=300)
CACHE_PARAMS = dict(bound=1, cap1=100000, cap2=0, random=10, uniform=0, cache2=True, unit=1,
                    case_timeout=300)


def case_text(case):
    return "%s %s: %s" % (case["fs"], case["relation"], " || ".join(
        "; ".join("%s(%s)" % (c["tpl"] if "ns" in c else c["m"], ",".join(c["args"])) for c in th)
        for th in case["threads"])) + (
            " [pattern caches %s, look-ups %s]" % (case["cstate"], "/".join(case["croles"])) if "cstate" in case else "")


def is_trivial(seq):
    """Every sequential order: all calls fail and nothing changes -> nothing to race on."""
    for key in seq:
        results, _tree = json.loads(key)
        if any(not r.startswith("err:") for th in results for r in th):
            return False
    return True


# --------------------------------------------------------------------------- exploration of one case

def plan_schedules(case, params, rnd, stats):
    """Yield (phase, schedule, policy).  Level 0: the non-preemptive runs; level 1: every
    single preemption; level 2: every (or a sample of the) second preemption."""
    nthreads = len(case["threads"])
    stats.update(l1_total=0, l1_run=0, l2_total=0, l2_run=0, c2_total=0, c2_run=0)
    roots = []
    for first in range(nthreads):
        res = yield ("np", [first], None)
        roots.append(([first], res))
    bound = params["bound"]
    level1 = []
    if bound >= 1:
        cand = []
        must = []       # preemptions of a thread holding no lock right before an effect line, and free choices
        for sched0, res in roots:
            if res is None:
                continue
            for i, (c, n, stay, held, ic, eff) in enumerate(res.trace):
                if i == 0 or n < 2:
                    continue        # i == 0 is the initial pick (the roots)
                for alt in range(n):
                    if alt != c:    # stay: a preemption; not stay: another free choice
                        (must if (eff and held == 0) or not stay else cand).append(
                            ([x[0] for x in res.trace[:i]] + [alt], i, held, ic))
        stats["l1_total"] = len(cand) + len(must)
        stats["l1_effect"] = len(must)
        if len(must) > params.get("cap_effect", 400):
            must = rnd.sample(must, params.get("cap_effect", 400))
            stats["l1_effect_capped"] = True
        keep = []
        if params.get("cache1"):
            # cache-state cases: every single preemption inside the pattern cache code is run, cap1 applies to the rest
            keep = [x for x in cand if x[3]]
            cand = [x for x in cand if not x[3]]
        if len(cand) > params["cap1"]:
            # preemptions of a thread that holds no lock first (the gaps of check-then-act
            # sequences), the rest of the budget on preemptions inside locked regions
            free = [x for x in cand if x[2] == 0]
            held_ = [x for x in cand if x[2] != 0]
            k_free = min(len(free), max(params["cap1"] * 3 // 4, params["cap1"] - len(held_)))
            cand = rnd.sample(free, k_free) + rnd.sample(held_, params["cap1"] - k_free)
            cand.sort(key=lambda x: x[1])
        cand = sorted(must + keep + cand, key=lambda x: x[1])
        for sch, i, _h, ic in cand:
            res = yield ("p1", sch, None)
            stats["l1_run"] += 1
            if res is not None:
                level1.append((sch, i, res, ic))
    if params.get("cache2"):
        # EXHAUSTIVE double preemption inside the pattern cache code: first preemption at a
        # line of lrucache/wildcard/glob, second preemption (of whichever thread runs then)
        # at a later line of these files
        # (cache2 == "lru": both switch points are lines of fs/lrucache.py, the container operations)
        need = 2 if params["cache2"] == "lru" else 1
        cand = []
        for sch, i, res, ic in level1:
            if not ic or ic < need:
                continue
            for j in range(i + 1, len(res.trace)):
                c, n, stay, _h, ic2 = res.trace[j][:5]
                if n > 1 and ((ic2 and ic2 >= need) or not stay):
                    for alt in range(n):
                        if alt != c:
                            cand.append([x[0] for x in res.trace[:j]] + [alt])
        stats["c2_total"] = len(cand)
        for sch in cand:
            yield ("cache-p2", sch, None)
            stats["c2_run"] += 1
    if bound >= 2 and params["cap2"] > 0:
        cand = []
        for sch, i, res, _ic in level1:
            for j in range(i + 1, len(res.trace)):
                c, n = res.trace[j][0], res.trace[j][1]
                if n > 1:
                    for alt in range(n):
                        if alt != c:
                            cand.append([x[0] for x in res.trace[:j]] + [alt])
        stats["l2_total"] = len(cand)
        if len(cand) > params["cap2"]:
            cand = rnd.sample(cand, params["cap2"])
        for sch in cand:
            yield ("p2", sch, None)
            stats["l2_run"] += 1
    # random low-preemption schedules: explicit positions
    length = max([len(r.trace) for _s, r in roots if r is not None] or [1])
    for _ in range(params["random"]):
        k = rnd.choice([1, 2, 2, 3, 3, 4])
        hi = int(length * 1.3) + 2
        pos = sorted(rnd.sample(range(1, hi + 1), min(k, hi)))
        sch = [0] * (pos[-1] + 1)
        sch[0] = rnd.randrange(nthreads)
        for p in pos:
            sch[p] = rnd.randrange(1, nthreads) if nthreads > 2 else 1
        yield ("rnd", sch, None)
    for _ in range(params.get("uniform", 0)):
        yield ("uni", [rnd.randrange(nthreads)], ("p", rnd.choice([0.03, 0.1, 0.3])))


def explore_case(case, params, seed):
    """Explore one case; returns a picklable summary."""
    rnd = random.Random("%s|%s" % (seed, json.dumps(case, sort_keys=True)))
    out = dict(case=case, schedules=0, phases=collections.Counter(), failures={},
               outcomes=collections.Counter(), distinct=set(), trivial=False, seq_n=0,
               steps=0, lock_blocks=0, l1=(0, 0), l2=(0, 0), c2=(0, 0), error=None, max_choice_points=0,
               nonseq_order=0)
    old = None
    in_main = threading.current_thread() is threading.main_thread()

    def on_alarm(signum, frame):
        raise CaseTimeout()

    if in_main:
        old = signal.signal(signal.SIGALRM, on_alarm)
        signal.setitimer(signal.ITIMER_REAL, params.get("case_timeout", 120))
    try:
        seq = sequential(case)
        out["seq_n"] = len(seq)
        out["trivial"] = is_trivial(seq)
        if out["trivial"] and params.get("skip_trivial", True):
            return out
        pst = {}
        threads_ = case["threads"]
        gen = plan_schedules(case, params, rnd, pst)
        res = None
        first_key = None
        while True:
            try:
                phase, sch, policy = gen.send(res)
            except StopIteration:
                break
            res = execute(case, sch, policy, rnd if policy else None)
            out["schedules"] += 1
            out["phases"][phase] += 1
            out["steps"] += res.steps
            out["lock_blocks"] += 1 if res.lock_blocks else 0
            out["max_choice_points"] = max(out["max_choice_points"], len(res.trace))
            fail = judge(res, seq)
            if fail is None:
                out["outcomes"]["sequential-outcome"] += 1
                if first_key is None:
                    first_key = res.key
                elif res.key != first_key:
                    out["nonseq_order"] += 1
            else:
                out["outcomes"][fail] += 1
                f = out["failures"].get(fail)
                pre = preemptions(res)
                crashed = sorted(set(c["m"] for th, rs in zip(threads_, res.results) for c, r in zip(th, rs)
                                     if r.split(" ")[0] == fail)) if fail.startswith("crash:") else []
                if f is None or pre < f["preemptions"]:
                    out["failures"][fail] = dict(schedule=realized(res), preemptions=pre,
                                                 count=(f["count"] if f else 0) + 1, phase=phase,
                                                 crashed=sorted(set(crashed) | set(f["crashed"] if f else [])))
                else:
                    f["count"] += 1
                    f["crashed"] = sorted(set(crashed) | set(f["crashed"]))
            if res.switches > 0 and len(res.trace) > 1:
                out["distinct"].add(hash((tuple(x[0] for x in res.trace), res.key)))
        out["l1"] = (pst["l1_run"], pst["l1_total"])
        out["l2"] = (pst["l2_run"], pst["l2_total"])
        out["c2"] = (pst["c2_run"], pst["c2_total"])
    except CaseTimeout:
        out["error"] = "case watchdog: sequential oracle or exploration did not finish"
    except Exception as e:  # noqa -- harness problem: surface it
        import traceback
        out["error"] = "%r %s" % (e, traceback.format_exc()[-900:])
    finally:
        if in_main:
            signal.setitimer(signal.ITIMER_REAL, 0)
            signal.signal(signal.SIGALRM, old)
    out["distinct"] = len(out["distinct"])
    out["phases"] = dict(out["phases"])
    out["outcomes"] = dict(out["outcomes"])
    return out


def _unit(args):
    cases, params, seed = args
    return [explore_case(c, params, seed) for c in cases]


# --------------------------------------------------------------------------- whole exploration

def tier_plan(tier, seed):
    """[(cases, params)] of a tier."""
    plan = []
    if tier == "thorough":
        for kind in FS_KINDS:
            mem = kind == "MemoryFS"
            if mem:
                params = dict(bound=2, cap1=84, cap2=16, random=26, uniform=4)
            else:
                params = dict(bound=1, cap1=20, cap2=0, random=10, uniform=0)
            plan.append((pair_cases(kind, tier, seed), params))
            plan.append((multi_cases(kind, seed, 400 if mem else 120),
                         dict(bound=1, cap1=60, cap2=0, random=60, uniform=10)))
        # every line of the package as a yield point (no pure-module reduction)
        allg = [dict(c, grain="all") for c in pair_cases("MemoryFS", "quick", seed)]
        plan.append((allg, dict(bound=1, cap1=60, cap2=0, random=36, uniform=4)))
        for kind in FS_KINDS:
            plan.append((cache_cases(kind, True), CACHE_PARAMS))
        plan.append((cache_cases("MemoryFS", False), CACHE_PARAMS))
        # cache-state classes: the whole universe; every double preemption inside the cache code on MemoryFS, inside
        # fs/lrucache.py on the other kinds
        for kind in FS_KINDS:
            plan.append((cache_state_cases(kind, tier, seed),
                         dict(CACHE_STATE_PARAMS, cache2=True) if kind == "MemoryFS" else CACHE_STATE_PARAMS))
        # namespace dimension: the whole universe on the two primary backends, the quick selection on the composites
        for kind in FS_KINDS:
            plan.append((ns_cases(kind, tier if kind in ("MemoryFS", "OSFS") else "quick", seed), NS_PARAMS))
    else:
        for kind in FS_KINDS:
            mem = kind == "MemoryFS"
            cases = pair_cases(kind, tier, seed)
            if not mem and kind != "OSFS":
                # the composite kinds delegate to the same MemoryFS / OS code: every fourth case
                off = FS_KINDS.index(kind)
                cases = [c for k, c in enumerate(cases) if (k + off + seed) % 4 == 0]
            plan.append((cases, dict(bound=1, cap1=14, cap2=0, random=26, uniform=0)))
        # MemoryFS.scandir holds the filesystem lock across its yields, so filterdir / walk
        # serialise their cache look-ups there; OSFS has no such lock
        plan.append((cache_cases("MemoryFS", True), CACHE_PARAMS))
        plan.append((cache_cases("OSFS", True), CACHE_PARAMS))
        # cache-state classes (empty / few / capacity-1 / exactly full x hit / miss / evict) of both pattern caches
        plan.append((cache_state_cases("MemoryFS", tier, seed), CACHE_STATE_PARAMS))
        plan.append((cache_state_cases("OSFS", tier, seed), CACHE_STATE_PARAMS))
        # namespace dimension of getinfo / scandir / filterdir / walk.info on every kind
        for kind in FS_KINDS:
            plan.append((ns_cases(kind, tier, seed, every=1 if kind in ("MemoryFS", "OSFS") else 4), NS_PARAMS))
    return plan


class Stats(object):
    def __init__(self):
        self.cases = 0
        self.trivial = 0
        self.schedules = 0
        self.distinct = 0
        self.phases = collections.Counter()
        self.outcomes = collections.Counter()
        self.by_fs = collections.Counter()
        self.by_relation = collections.Counter()
        self.by_shape = collections.Counter()
        self.pairs = set()
        self.failing = []           # (case, failure kind, info)
        self.errors = []
        self.steps = 0
        self.runs_with_lock_wait = 0
        self.l1_exhausted = 0
        self.l1_capped = 0
        self.l2_exhausted = 0
        self.l2_capped = 0
        self.cache_cases = 0
        self.cache_double = 0
        self.cases_with_two_seq_outcomes = 0
        self.both_orders_seen = 0
        self.max_choice_points = 0
        self.samples = []
        self.ns_cases = collections.Counter()           # kind/reader@namespaces -> cases explored
        self.ns_schedules = 0
        self.cache_state_cases = collections.Counter()  # cache/state/roles -> cases explored
        self.cache_state_schedules = 0
        self.wall = 0.0
        self.skipped = 0

    def add(self, o):
        case = o["case"]
        self.cases += 1
        if o["error"]:
            self.errors.append((case, o["error"]))
        if o["trivial"] and not o["schedules"]:
            self.trivial += 1
            return
        self.schedules += o["schedules"]
        self.distinct += o["distinct"]
        if case.get("nsdim"):
            self.ns_cases["%s/%s" % (case["fs"], case["threads"][0][0]["tpl"])] += 1
            self.ns_schedules += o["schedules"]
        if "cstate" in case:
            cache = "wildcard" if case["threads"][0][0]["m"] in WILD_USERS else "glob"
            self.cache_state_cases["%s/%s" % (cache, case["config"][len("cache-"):])] += 1
            self.cache_state_schedules += o["schedules"]
        self.phases.update(o["phases"])
        self.outcomes.update(o["outcomes"])
        self.by_fs[case["fs"]] += o["schedules"]
        self.by_relation[case["relation"]] += o["schedules"]
        shape = "x".join(str(len(t)) for t in case["threads"]) + ("/all-lines" if case.get("grain") == "all" else "")
        self.by_shape[shape] += o["schedules"]
        th = case["threads"]
        for i in range(len(th)):
            for j in range(i + 1, len(th)):
                for c1 in th[i]:
                    for c2 in th[j]:
                        self.pairs.add(pair_signature(case["fs"], c1, c2))
        self.steps += o["steps"]
        self.runs_with_lock_wait += o["lock_blocks"]
        if o["l1"][1]:
            if o["l1"][0] >= o["l1"][1]:
                self.l1_exhausted += 1
            else:
                self.l1_capped += 1
        if o["l2"][1]:
            if o["l2"][0] >= o["l2"][1]:
                self.l2_exhausted += 1
            else:
                self.l2_capped += 1
        if o["c2"][1]:
            self.cache_cases += 1
            self.cache_double += o["c2"][0]
        if o["seq_n"] > 1:
            self.cases_with_two_seq_outcomes += 1
        if o["nonseq_order"]:
            self.both_orders_seen += 1
        self.max_choice_points = max(self.max_choice_points, o["max_choice_points"])
        for kind, info in o["failures"].items():
            self.failing.append((case, kind, info))
        if len(self.samples) < 6 and o["schedules"] and self.cases % 211 == 1:
            self.samples.append(dict(case=case_text(case), schedules=o["schedules"],
                                     sequential_outcomes=o["seq_n"], outcomes=o["outcomes"],
                                     single_preemptions=list(o["l1"]), double_preemptions=list(o["l2"])))


def explore(tier, seed, procs=None, budget_s=None, plan=None):
    """Run the whole exploration of a tier; returns Stats."""
    if plan is None:
        plan = tier_plan(tier, seed)
    if procs is None:
        procs = min(16, os.cpu_count() or 1)
    if budget_s is None:
        budget_s = 840 if tier == "thorough" else 420
    units = []
    for cases, params in plan:
        size = params.get("unit") or (6 if tier == "thorough" else 12)
        for i in range(0, len(cases), size):
            units.append((cases[i:i + size], params, seed))
    # spread the kinds / phases so that a time cut never removes a whole class
    # (the small pattern cache cases go first: their exhaustive part must never be cut)
    order = sorted(range(len(units)), key=lambda i: (0 if units[i][1].get("cache2") else 1, i % 17, i))
    units = [units[i] for i in order]
    st = Stats()
    t0 = time.time()
    done = 0
    if procs <= 1:
        for u in units:
            if time.time() - t0 > budget_s:
                break
            for o in _unit(u):
                st.add(o)
            done += 1
    else:
        import multiprocessing
        ctx = multiprocessing.get_context("fork")
        pool = ctx.Pool(procs)
        try:
            for outs in pool.imap_unordered(_unit, units, chunksize=1):
                for o in outs:
                    st.add(o)
                done += 1
                if time.time() - t0 > budget_s:
                    break
        finally:
            pool.terminate()
            pool.join()
    st.skipped = len(units) - done
    st.units = len(units)
    st.wall = time.time() - t0
    return st


# --------------------------------------------------------------------------- shrinking / reporting

def fails_with(case, schedule, kind, seq=None):
    if seq is None:
        seq = sequential(case)
    res = execute(case, schedule)
    return judge(res, seq) == kind, res


def shrink(case, schedule, kind, budget=120):
    """Fewer preemptions, shorter schedule (the case itself is already minimal: a pair)."""
    seq = sequential(case)
    best = list(schedule)
    spent = 0
    progress = True
    while progress and spent < budget:
        progress = False
        for i in range(len(best) - 1, 0, -1):
            if best[i] != 0:
                cand = best[:i] + [0] + best[i + 1:]
                while cand and cand[-1] == 0:
                    cand.pop()
                spent += 1
                ok, res = fails_with(case, cand, kind, seq)
                if ok:
                    best = realized(res)
                    progress = True
                    break
                if spent >= budget:
                    break
    return best


def describe(case, schedule):
    seq = sequential(case)
    res = execute(case, schedule)
    fail = judge(res, seq)
    seqs = []
    for key, order in seq.items():
        results, tree = json.loads(key)
        seqs.append(dict(order=order, results=results, tree=tree))
    return fail, dict(results=res.results, tree=res.tree, status=res.status, detail=res.detail,
                      preemptions=preemptions(res), choice_points=len(res.trace)), seqs


def load_local_known():
    if not os.path.exists(LOCAL_KNOWN):
        return []
    try:
        with open(LOCAL_KNOWN) as fh:
            data = json.load(fh)
    except ValueError:
        return []
    if isinstance(data, dict):
        data = data.get("known", [])
    return [k for k in data if k.get("property") == "C08"]


def known_lookup(report):
    local = dict((k["signature"], k) for k in load_local_known())

    def look(sig):
        return report.known_match(sig) or local.get(sig)
    return look


def diff_text(obs, seqs):
    """One line saying what the concurrent outcome has that no sequential order has."""
    if obs["status"] != "ok":
        return "%s %s" % (obs["status"], obs["detail"])
    for s in seqs:
        if s["results"] == obs["results"]:
            a = set(map(tuple, obs["tree"]))
            b = set(map(tuple, s["tree"]))
            return "results as in order %s but tree differs: only concurrent %s, only sequential %s" % (
                s["order"], sorted(a - b)[:4], sorted(b - a)[:4])
    return "results %s returned by no sequential order (%s)" % (
        obs["results"], "; ".join(str(s["results"]) for s in seqs[:4]))


def report_failures(report, st, observed=None, pending=None):
    look = known_lookup(report)
    groups = collections.OrderedDict()
    for case, kind, info in sorted(st.failing, key=lambda x: (len(x[0]["threads"]) * 10 + sum(len(t) for t in x[0]["threads"]), x[2]["preemptions"])):
        sigs = case_signatures(case, kind) + class_signatures(case, kind, info.get("crashed") or None)
        known = None
        for s in sigs:
            known = look(s)
            if known:
                break
        if known:
            report.known_finding(known, dict(case=case_text(case), schedule=info["schedule"]))
            if observed is not None:
                observed.setdefault(known["signature"], dict(case=case, kind=kind, info=info))
            continue
        sig = main_signature(case, kind)
        if sig in PENDING_FINDINGS:
            if pending is not None and sig not in pending:
                pending[sig] = dict(case=case_text(case), schedule=info["schedule"], kind=kind,
                                    schedules_failing_in_run=info["count"])
            elif pending is not None:
                pending[sig]["schedules_failing_in_run"] += info["count"]
            continue
        if sig not in groups:
            groups[sig] = (case, kind, info)
    n = 0
    for sig, (case, kind, info) in groups.items():
        if observed is not None:
            observed.setdefault(sig, dict(case=case, kind=kind, info=info, new=True))
        n += 1
        if n > 12:
            continue
        sch = shrink(case, info["schedule"], kind)
        fail, obs, seqs = describe(case, sch)
        report.violation(dict(kind=kind, fs=case["fs"], calls=case["threads"], case=case,
                              relation=case["relation"], schedule=sch, signature=sig,
                              text=case_text(case), observed=obs, sequential_outcomes=seqs,
                              what=diff_text(obs, seqs), still_fails=fail == kind,
                              schedules_failing_in_run=info["count"], theorem=THEOREM))
    for case, err in st.errors[:3]:
        report.violation(dict(kind="harness-error", what=err, case=case), no_input=True)
    return groups


RULE = ("case = (filesystem kind in MemoryFS/OSFS(temp dir)/MountFS(one MemoryFS mounted)/"
        "MultiFS(one writable MemoryFS)/two SubFS views of one MemoryFS, calls of 2 threads x 1 "
        "call (thorough: also 3 x 1 and 2 x 2), path relation same | parent/child | siblings with "
        "4-5 path configurations each (file, empty dir, non-empty dir, missing), schedule). Calls "
        "from 25 templates over 21 methods (move/copy/movedir/copydir with the related path as "
        "source and as destination); reader||reader pairs are skipped except glob/walk (pattern "
        "caches, cold and warm). Pattern cache cases: FS.match / match_glob / filterdir / walk.files / "
        "glob.count with the SAME pattern against each other on a warm and on a cold cache, with "
        "every single preemption and EVERY double preemption whose switch points are lines of "
        "fs/lrucache.py, fs/wildcard.py, fs/glob.py (outside the pure pattern-to-regex translation "
        "functions). Every schedule starts from the same fixed tree (6 dirs, 8 files) "
        "on a fresh instance. Schedules per case: both non-preemptive orders, single preemptions "
        "(all, or a seeded sample of cap1), double preemptions (seeded sample of cap2; thorough), "
        "random 1-4 preemption schedules, uniform random schedules; yield point = every line of "
        "the fs package outside the pure modules (path/mode/errors/info/permissions/enums/time/"
        "iotools/error_tools; thorough also runs MemoryFS pairs with every line of the package as a "
        "yield point) and every blocking lock acquire. Oracle: outcome (per call result or exception "
        "class, final (path,type,bytes) tree + MemoryFS internal flags) must equal the outcome of "
        "one of the sequential orders run on a fresh instance. A schedule is counted as "
        "non-trivial when at least one context switch happened at a choice point; distinct by "
        "(case, realized choice sequence, outcome). Cases in which every call fails in every "
        "sequential order are skipped (counted as trivial).")

ASSUMPTIONS = [
    "CPython: a context switch inside one source line of the package (between two bytecodes) is "
    "not explored; single container operations (dict get/set/del, list append) are atomic under "
    "the GIL",
    "lines of fs/path.py, mode.py, errors.py, info.py, permissions.py, enums.py, time.py, "
    "iotools.py, error_tools.py touch no shared mutable state, so a switch before them equals a "
    "switch before the next traced line (checked by the all-lines runs of the thorough tier)",
    "locks of the package are created through fs.base.threading.RLock / fs.memoryfs.RLock; the "
    "proxy gives them RLock semantics (re-entrant, owner-only release) under the baton",
    "OSFS runs against a real temp directory: the OS calls themselves are atomic steps",
    "time stamps are not part of the outcome",
]


def coverage(st, tier, groups):
    return dict(
        evaluations=st.schedules, distinct_nontrivial=st.distinct, rule=RULE,
        samples=st.samples[:6], schedules_explored=st.schedules, cases=st.cases,
        cases_skipped_trivial=st.trivial, pairs_covered=len(st.pairs),
        outcome_histogram=dict(st.outcomes), phases=dict(st.phases),
        distribution=dict(fs=dict(st.by_fs), relation=dict(st.by_relation), shape=dict(st.by_shape)),
        traced_lines_executed=st.steps, cases_where_a_thread_waited_for_a_lock=st.runs_with_lock_wait,
        cases_with_more_than_one_sequential_outcome=st.cases_with_two_seq_outcomes,
        cases_where_schedules_reached_more_than_one_sequential_outcome=st.both_orders_seen,
        single_preemption_levels_exhausted=st.l1_exhausted, single_preemption_levels_sampled=st.l1_capped,
        double_preemption_levels_exhausted=st.l2_exhausted, double_preemption_levels_sampled=st.l2_capped,
        max_choice_points_in_a_run=st.max_choice_points,
        pattern_cache_cases_with_exhaustive_double_preemption=st.cache_cases,
        pattern_cache_double_preemption_schedules=st.cache_double,
        namespace_dimension_cases=sum(st.ns_cases.values()),
        namespace_dimension_schedules=st.ns_schedules,
        namespace_dimension_cases_by_kind_reader_namespaces=dict(sorted(st.ns_cases.items())),
        namespace_dimension_rule="getinfo / scandir / filterdir / walk.info with namespaces none | details | access | "
                                 "stat | lstat | link | all against every mutator template (quick: every "
                                 "namespace choice against every mutator that makes the reader's path disappear; "
                                 "rotating selection of the rest); a non fs.errors exception is a crash outcome and "
                                 "needs its exact [crash:X] signature, class signatures only of the call that crashed",
        cache_state_cases=sum(st.cache_state_cases.values()),
        cache_state_schedules=st.cache_state_schedules,
        cache_state_cases_by_cache_state_roles=dict(sorted(st.cache_state_cases.items())),
        cache_state_rule="fs.wildcard._PATTERN_CACHE and fs.glob._PATTERN_CACHE filled through the public API to "
                         "empty / few / cache_size-1 / exactly cache_size entries before the threads start; thread "
                         "pairs hit/hit, hit/miss, miss/miss (a miss evicts when the cache is full) with the same "
                         "and with different patterns; every single preemption inside the cache code + every "
                         "double preemption inside fs/lrucache.py; a cache holding more than cache_size entries "
                         "afterwards is flagged (%s)" % CACHE_OVER_SIGNATURE,
        failing_case_kinds=len(st.failing), unknown_failure_signatures=sorted(groups)[:40],
        units=getattr(st, "units", None), units_skipped_by_time_budget=st.skipped,
        explore_wall_s=round(st.wall, 1), exhaustive=False,
        exhaustive_scope="single-preemption schedules of the cases counted in "
                         "single_preemption_levels_exhausted; everything else is sampled")


def run(report):
    proof = common.preflight(report)
    st = explore(report.tier, report.seed)
    pending = {}
    groups = report_failures(report, st, pending=pending)
    cov = coverage(st, report.tier, groups)
    cov["pending_findings"] = pending
    # the LRU cache model the theorems of Conc/LruConc.v speak about (Glob/LRU.v) vs the real fs.lrucache.LRUCache
    import h_lru
    cov["lru_model_vs_implementation"] = h_lru.run_lru_model_check(report, report.tier, report.seed)
    return report.finish(proof, cov, assumptions=ASSUMPTIONS)


def replay(report, path):
    with open(path) as fh:
        data = json.load(fh)
    if data.get("no_failing_input_found") or "case" not in data:
        print("replay: no concrete case stored in", path)
        return 0
    case = data["case"]
    schedule = data.get("schedule", [])
    fail, obs, seqs = describe(case, schedule)
    print("replay", case_text(case), "schedule", schedule)
    print("  concurrent outcome:", json.dumps(obs["results"]), obs["status"], obs["detail"] or "")
    print("  concurrent tree   :", json.dumps(obs["tree"]))
    for s in seqs:
        print("  sequential order %s: %s tree %s" % (s["order"], json.dumps(s["results"]), json.dumps(s["tree"])))
    if fail is None:
        print("  outcome is a sequential outcome: passes")
        return 0
    print("  FAILED:", fail, "--", diff_text(obs, seqs))
    return 1
