"""A loop-back FTP server for the correspondence harnesses (FTPFS backends).

`make(variant)` starts an in-process pyftpdlib server on 127.0.0.1 (ephemeral port) that serves a fresh temporary
directory, in a daemon thread, and returns `(FTPFS object, root directory, stop function)`.

variants
    "normal"     user/password login, full permissions, MLST/MLSD advertised
    "anonymous"  anonymous login with write permissions (the FTPFS is built without user/password)
    "nomlsd"     as "normal", but the server neither advertises (FEAT) nor implements MLST/MLSD: FTPFS has to use
                 LIST and its listing parsers (fs._ftp_parse).  (/repo/tests/test_ftpfs.py gets the same effect by
                 deleting the feature on the client side; here it is a property of the server, so every connection
                 the library opens sees it.)

Every server has its own IOLoop, its own handler class (pyftpdlib keeps its options in class attributes) and its own
directory, so several servers can run in one process, one after the other or side by side, also in forked workers
(start the server in the worker: threads do not survive a fork).  `stop()` is idempotent: it ends the thread, closes
every socket of the server and removes the directory.  Nothing is logged.

`available()` -> (bool, reason): whether such a server can be started and spoken to here; harnesses skip their FTP
parts (and say so in the evidence) when it cannot.
"""
from __future__ import print_function

import atexit
import logging
import os
import shutil
import tempfile
import threading

HOST = "127.0.0.1"
USER = "user"
PASSWD = "1234"
PERM = "elradfmwMT"
VARIANTS = ("normal", "anonymous", "nomlsd")
PASSIVE_PORTS = range(20000, 32000)     # below the kernel's ephemeral range; shared by all servers, see Server.__init__
CLIENT_TIMEOUT = 4           # seconds FTPFS waits for the server (a wedged control connection must not cost more)

_LIVE = {}                   # id -> Server, of the servers started by THIS process
_AVAILABLE = {}              # pid-independent cache of the probe
_QUIET = [False]


def _quiet():
    """pyftpdlib configures logging to stderr on the first loop unless its logger already has a handler."""
    if not _QUIET[0]:
        lg = logging.getLogger("pyftpdlib")
        lg.addHandler(logging.NullHandler())
        lg.propagate = False
        lg.setLevel(logging.CRITICAL + 1)
        _QUIET[0] = True


class Server(object):
    def __init__(self, variant="normal", poll=0.02):
        if variant not in VARIANTS:
            raise ValueError("unknown variant %r" % (variant,))
        _quiet()
        from pyftpdlib.authorizers import DummyAuthorizer
        from pyftpdlib.handlers import FTPHandler, DTPHandler
        from pyftpdlib.ioloop import IOLoop
        from pyftpdlib.servers import FTPServer
        self.variant = variant
        self.pid = os.getpid()
        self.dir = tempfile.mkdtemp(prefix="pyfs2verif_ftp_")
        self.root = os.path.join(self.dir, "root")
        os.mkdir(self.root)
        self._stopped = False
        self._stop_flag = False
        self._poll = poll
        self._closing = 0
        self.thread = None
        self.ioloop = None
        self.error = None
        try:
            authorizer = DummyAuthorizer()
            if variant == "anonymous":
                authorizer.add_anonymous(self.root, perm=PERM)
            else:
                authorizer.add_user(USER, PASSWD, self.root, perm=PERM)

            outer = self

            class _DTP(DTPHandler):
                def close(self):         # leaves the socket map BEFORE it closes (flushes) the file it received into
                    outer._closing += 1
                    try:
                        DTPHandler.close(self)
                    finally:
                        outer._closing -= 1

            class _Handler(FTPHandler):
                pass
            _Handler.authorizer = authorizer
            _Handler.dtp_handler = _DTP
            _Handler.banner = "pyfs2verif loop-back server"
            _Handler.auth_failed_timeout = 0.001
            _Handler.use_sendfile = False
            # every transfer (also every LIST) is a data connection of its own.  Left to the kernel, each passive
            # listener takes a fresh ephemeral port that then sits in TIME_WAIT for a minute: a check that lists
            # directories flat out (or several checks at once) runs the machine out of local ports.  With a port
            # range pyftpdlib binds with SO_REUSEADDR, so ports in TIME_WAIT are taken again (busy ones: next try).
            _Handler.passive_ports = PASSIVE_PORTS
            if variant == "nomlsd":
                cmds = dict(FTPHandler.proto_cmds)
                cmds.pop("MLSD", None)
                cmds.pop("MLST", None)
                _Handler.proto_cmds = cmds
            self.ioloop = IOLoop()
            self.server = FTPServer((HOST, 0), _Handler, ioloop=self.ioloop)
            self.host, self.port = self.server.socket.getsockname()[:2]
            self.thread = threading.Thread(target=self._run, name="pyfs2verif-ftpd-%d" % self.port)
            self.thread.daemon = True
            self.thread.start()
        except Exception:
            self._cleanup()
            raise
        _LIVE[id(self)] = self

    def _run(self):
        try:
            while not self._stop_flag:
                self.ioloop.loop(timeout=self._poll, blocking=False)
        except Exception as e:  # noqa  (reported by stop(); the harness sees connection errors meanwhile)
            self.error = e

    def connect(self, timeout=CLIENT_TIMEOUT):
        """A new FTPFS speaking to this server."""
        from fs.ftpfs import FTPFS
        if self.variant == "anonymous":
            return FTPFS(self.host, port=self.port, timeout=timeout)
        return FTPFS(self.host, USER, PASSWD, port=self.port, timeout=timeout)

    def busy(self):
        """Number of data channels (transfers in flight, passive listeners) the server currently holds."""
        loop = self.ioloop
        if loop is None:
            return 0
        from pyftpdlib.handlers import DTPHandler, PassiveDTP, ActiveDTP
        n = sum(1 for h in list(loop.socket_map.values()) if isinstance(h, (DTPHandler, PassiveDTP, ActiveDTP)))
        return n + self._closing     # in this order: a channel counts until the file behind it is closed

    def settle(self, timeout=2.0):
        """Wait until the server holds no data channel any more: whatever the clients sent before they closed their
        data connections is then in the files of the served directory (the server writes through buffered files that
        it closes when the data channel goes).  False if that did not happen within `timeout`."""
        import time
        end = time.time() + timeout
        while self.busy():
            if time.time() > end:
                return False
            time.sleep(0.002)
        return True

    def _cleanup(self):
        if self.ioloop is not None:
            try:
                self.ioloop.close()          # the acceptor, every control and data connection, the scheduler
            except Exception:
                pass
            self.ioloop = None
        shutil.rmtree(self.dir, ignore_errors=True)

    def stop(self):
        if self._stopped:
            return
        self._stopped = True
        _LIVE.pop(id(self), None)
        if os.getpid() != self.pid:
            return                           # a forked copy: the thread, the sockets and the directory are the parent's
        self._stop_flag = True
        if self.thread is not None:
            self.thread.join(5)
        self._cleanup()


def start(variant="normal"):
    return Server(variant)


def make(variant="normal", timeout=CLIENT_TIMEOUT):
    """(FTPFS object, root directory of the server, stop function).  stop() also closes the FTPFS."""
    srv = Server(variant)
    try:
        ftpfs = srv.connect(timeout)
    except Exception:
        srv.stop()
        raise

    def stop():
        try:
            ftpfs.close()
        except Exception:
            try:
                ftpfs._closed = True
            except Exception:
                pass
        srv.stop()
    stop.server = srv
    return ftpfs, srv.root, stop


def available():
    """(True, "") when a loop-back server starts and answers for every variant, else (False, why)."""
    if "r" not in _AVAILABLE:
        try:
            import pyftpdlib  # noqa
            for variant in VARIANTS:
                ftpfs, root, stop = make(variant)
                try:
                    with open(os.path.join(root, "probe"), "wb") as fh:
                        fh.write(b"probe")
                    if ftpfs.listdir("/") != ["probe"] or ftpfs.readbytes("probe") != b"probe":
                        raise RuntimeError("the %s server does not show its directory" % variant)
                    if ("MLST" in ftpfs.features) != (variant != "nomlsd"):
                        raise RuntimeError("the %s server advertises the wrong MLST feature" % variant)
                finally:
                    stop()
            _AVAILABLE["r"] = (True, "")
        except Exception as e:  # noqa
            _AVAILABLE["r"] = (False, "%s: %s" % (type(e).__name__, e))
    return _AVAILABLE["r"]


def live():
    """Servers of this process that have not been stopped (for leak checks)."""
    return [s for s in _LIVE.values() if s.pid == os.getpid()]


@atexit.register
def _stop_all():
    for s in list(_LIVE.values()):
        try:
            s.stop()
        except Exception:
            pass
