"""Filesystem-level correspondence engine shared by C01, C05, C06, C10, C11.

Every generated history is executed on real filesystem objects from /repo; after each
call the storage is snapshotted. The Gallina reference (FS/Ref.v) is stepped from the
implementation's own pre-state, the MemoryFS model (FS/Mem.v) must match the real
MemoryFS exactly, and the extracted predicates (FS/Props.v) are applied to the
implementation's snapshots."""
from __future__ import print_function

import collections
import io
import json
import os
import random
import re
import time

import backends as B
import common
import fsops
import genhist

# TODO PENDING_FINDINGS: signatures of misbehaviours of the UNCHANGED library exposed by new coverage that are not yet
# in known_findings.json; they are routed through report.known_match() and print as KNOWN-FINDING once registered.
WALK_SPELLING_SIG = "walk.info/files/dirs(path) report paths under the caller's spelling of the start path"
C10_CACHED_PAGE_HIT = "cache_directory: scandir(path, page=...) answered from the cache ignores the page"
C10_CACHED_PAGE_MISS = "cache_directory: scandir(path, page=...) on a cache miss stores the page as the whole directory"
C10_MOUNTPOINT_DETAILS = ("MountFS: scandir(parent) reports a mount point with the details of the placeholder directory, "
                          "getinfo(mount point) with those of the mounted filesystem's root")
C05_ALIAS_WORKERS = ("OSFS copy_dir/move_dir(workers>0) onto another name of the source (hard-link snapshot, symlinked "
                     "directory): the worker threads truncate the shared files")
C05_ALIAS_MOVE_LINK = "OSFS move of a symbolic link onto the file it points to: the file's name is left as a dangling link"
C01_TEXT_UNBUFFERED = ("open(path, <text mode>, buffering=0): filesystems whose open() goes through fs.iotools.make_stream "
                       "(MemoryFS and what is built on it) open the file; io.open and OSFS raise ValueError (unbuffered text I/O)")
C10_DANGLING_SCANDIR = ("OSFS: scandir(dir, namespaces that need a stat) raises ResourceNotFound when the directory holds a "
                        "dangling symbolic link (listdir and scandir without namespaces list it)")
C10_DANGLING_GETINFO = ("OSFS: a dangling symbolic link is listed by listdir / scandir, but exists() is False and getinfo() "
                        "raises ResourceNotFound (also for the lstat / link namespaces)")
# TODO (to be registered in known_findings.json; until then counted in the evidence, not reported):
PENDING_FINDINGS = []    # C01_TEXT_UNBUFFERED: genuine defect, repaired in /repo (38091de); the two dangling-link
#                            signatures are registered in known_findings.json (C10)
#                          (fs4, 2026-10-01: three behaviours of the UNCHANGED library exposed by the text-call block of C01
#                            and by the symbolic-link trees of C10; awaiting triage)
#                            the two OSFS alias findings are registered in known_findings.json; the MountFS mount-point
#                            details inconsistency was repaired in /repo (75d0617): a violation again if it returns
# (WALK_SPELLING_SIG and the two C10_CACHED_PAGE signatures were genuine defects, repaired in /repo (b3334b1, 2e1ab1a):
#  not pending any more, violations again if they return)

_MT = re.compile(r"@(N|Si-?\d+)")
_MTI = re.compile(r"\|(N|Si-?\d+)\)")


def strip_times(s):
    return _MTI.sub(")", _MT.sub("", s))


def tree_tokens(s):
    t = fsops.parse_tree(s)
    out = []

    def nm(x):       # "s97,98" -> "97,98" ; "s" -> "-"
        return x[1:] if len(x) > 1 else "-"

    def go(n):
        if n[0] == "F":
            out.extend(["1", "-" if n[2] is None else str(n[2]), nm(n[1])])
        else:
            out.extend(["2", "-" if n[1] is None else str(n[1]), str(len(n[2]))])
            for name, c in n[2]:
                out.append(nm(name))
                go(c)
    go(t)
    return out


def sort_listing(outcome):
    """Order-insensitive form of a listdir/scandir result."""
    if outcome.startswith("ok:[") and outcome.endswith("]"):
        body = outcome[4:-1]
        if not body:
            return outcome
        return "ok:[" + ";".join(sorted(body.split(";"), key=_listing_key)) + "]"
    return outcome


def _listing_key(item):
    name = item[1:].split("|")[0] if item.startswith("(") else item
    return [int(x) for x in name[1:].split(",")] if len(name) > 1 else []


Step = collections.namedtuple("Step", "backend hist_id index op pre outcome post")


CURRENT_REPORT = None
CONSTRUCT_FAILED = set()


def run_histories(backend_cls, histories, hist_ids=None, execute=None):
    """execute: optional replacement of fsops.execute, called as execute(fs, op, hist_index, step_index)."""
    steps = []
    for hi, h in enumerate(histories):
        b = backend_cls()
        try:
            try:
                fs = b.make()
            except Exception as e:  # noqa -- the library refused to build one of the harness' standard objects
                if CURRENT_REPORT is not None and backend_cls.name not in CONSTRUCT_FAILED:
                    CONSTRUCT_FAILED.add(backend_cls.name)
                    import traceback
                    CURRENT_REPORT.violation(dict(kind="backend-construction-failed", backend=backend_cls.name,
                                                  exception="%s: %s" % (type(e).__name__, e),
                                                  traceback=traceback.format_exc()[-1200:],
                                                  what="building a filesystem object the check builds on every run raised"))
                if backend_cls.name in CONSTRUCT_FAILED:
                    break
                raise
            pre = b.snapshot()
            tick = getattr(b, "tick", None)
            for k, o in enumerate(h):
                if tick is not None:      # compositions that grow while they are in use (members added between calls)
                    tick(k)
                out = fsops.execute(fs, o) if execute is None else execute(fs, o, hi, k)
                try:
                    post = b.snapshot()
                except Exception as e:  # snapshot failure is itself an observation
                    post = "SNAPFAIL:" + type(e).__name__
                steps.append(Step(backend_cls.name, hist_ids[hi] if hist_ids else hi, k, o, pre, out, post))
                oc = getattr(b, "outside_changed", None)
                if oc is not None and not post.startswith("SNAPFAIL"):
                    ch = oc()
                    if ch:      # data outside the sub-filesystem was touched
                        post = "SNAPFAIL:outside-changed %r" % (ch[:2],)
                        steps[-1] = steps[-1]._replace(post=post)
                if post.startswith("SNAPFAIL"):
                    break
                pre = post
        finally:
            b.close()
    return steps


def ref_steps(steps):
    lines = []
    for s in steps:
        lines.append("fs refstep " + " ".join(tree_tokens(s.pre) + fsops.encode(s.op)))
    return common.run_model_parallel(lines, chunk=4000)


def agrees(step, ref):
    """Does the implementation's step agree with the reference step (verdict, class,
    value, tree; listings as sets; times not compared)?"""
    rres, rtree = ref.split("#", 1)
    out = strip_times(sort_listing(step.outcome))
    if rres == "any":
        ok_res = out.startswith("ok:") or out.startswith("err:")
    elif rres.startswith("fail:"):
        ok_res = out.startswith("err:") and out[4:] in rres[5:].split(",")
    else:
        ok_res = out == strip_times(rres)
    if rtree == "ANY":
        ok_tree = True
    else:
        ok_tree = (not step.post.startswith("SNAPFAIL")) and \
            fsops.canon_tree(step.post) == fsops.canon_tree(rtree)
    return ok_res, ok_tree


def _fixed_mode(m):
    """A valid binary mode of the same read/write kind as the invalid mode string m."""
    if not any(c in m for c in "wax+"):
        return "r"
    return "a" if "a" in m else "x" if "x" in m else "w" if "w" in m else "r+"


def agrees2(step, ref):
    """agrees(), plus the two-defects rule: a call whose mode is invalid AND whose path has another
    failure cause may report either (the contract fixes no precedence between the two causes; e.g.
    MultiFS looks the path up before it hands the mode to a member).  The second cause is taken from the
    reference with a valid mode of the same read/write kind; the tree must be unchanged."""
    okr, okt = agrees(step, ref)
    if okr or not okt or step.op[0] not in ("openread", "openwrite"):
        return okr, okt
    if not ref.startswith("crash:ValueError#") or not step.outcome.startswith("err:"):
        return okr, okt
    op2 = list(step.op)
    op2[2] = _fixed_mode(op2[2])
    line = "fs refstep " + " ".join(tree_tokens(step.pre) + fsops.encode(tuple(op2)))
    r2 = common.run_model([line])[0]
    rres = r2.split("#", 1)[0]
    if rres.startswith("fail:") and step.outcome[4:] in rres[5:].split(","):
        return True, okt
    return okr, okt


def hist_line(model, h):
    toks = []
    for o in h:
        toks += fsops.encode(o)
    return "fs %s %s" % (model, " ".join(toks))


def gen_histories(seed, n, maxlen, bias=None, odd=0.15, spell=0.15):
    rnd = random.Random(seed)
    hs = []
    for _ in range(n):
        g = genhist.Gen(rnd, odd=odd, spell=spell, bias=bias)
        hs.append(g.history(rnd.randint(1, maxlen)))
    return hs


def op_json(o):
    return [x.decode("latin-1") if isinstance(x, bytes) else x for x in o]


def op_from_json(o):
    n = o[0]
    o = list(o)
    if n in ("writebytes", "appendbytes"):
        o[2] = o[2].encode("latin-1")
    if n == "openwrite":
        o[3] = o[3].encode("latin-1")
    return tuple(o)


def shrink_history(backend_cls, h, bad_index, still_bad):
    """Delete calls before the failing one while the failure persists."""
    h = list(h[:bad_index + 1])
    i = 0
    while i < len(h) - 1:
        cand = h[:i] + h[i + 1:]
        if still_bad(cand):
            h = cand
        else:
            i += 1
    return h


# ------------------------------------------------------------------ C01

def signature_c01(step, ref):
    rres = ref.split("#", 1)[0]
    return "%s.%s impl=%s ref=%s" % (step.backend, step.op[0], step.outcome.split("#")[0][:40]
                                     if not step.outcome.startswith("ok:") else "ok",
                                     rres.split(":")[0] + (":" + rres[5:] if rres.startswith("fail:") else ""))


# ---- C01: the calls that take or fill a STREAM (upload / writefile / download / open().read in pieces).  Their
# reference semantics is that of writebytes / readbytes with "everything the stream delivers until it reports its end";
# a stream reports its end by an EMPTY read only (raw streams, pipes, sockets may return fewer bytes than asked for).

class Trickle(io.RawIOBase):
    """Raw readable stream handing out at most `step` bytes per read (socket / HTTP body / any io.RawIOBase)."""

    def __init__(self, data, step):
        io.RawIOBase.__init__(self)
        self._data, self._pos, self._step = data, 0, step

    def readable(self):
        return True

    def readinto(self, buf):
        n = min(len(buf), self._step, len(self._data) - self._pos)
        buf[:n] = self._data[self._pos:self._pos + n]
        self._pos += n
        return n


class ShortReader(object):
    """The minimal file-like source (only read(n)); works for bytes and text: at most `step` items per call, an empty
    result only at the end."""

    def __init__(self, data, step):
        self._data, self._pos, self._step = data, 0, step

    def read(self, n=-1):
        k = self._step if n is None or n < 0 else min(n, self._step)
        out = self._data[self._pos:self._pos + k]
        self._pos += len(out)
        return out


class BurstPipe(object):
    """The read end of a real OS pipe whose writer sends the data in bursts: read(n) is os.read(), which returns what
    is in the pipe at that moment (fewer than n bytes while more is still to come), b'' after the writer closed."""

    def __init__(self, data, burst):
        import os
        self._r, self._w = os.pipe()
        self._pending = [data[i:i + burst] for i in range(0, len(data), burst)]
        self._inflight = 0

    def read(self, n=-1):
        import os
        if n is None or n < 0:
            n = 1 << 16
        if self._inflight == 0 and self._w is not None:
            if self._pending:
                b = self._pending.pop(0)
                os.write(self._w, b)
                self._inflight = len(b)
            if not self._pending:
                os.close(self._w)
                self._w = None
        chunk = os.read(self._r, n)
        self._inflight -= len(chunk)
        return chunk

    def close(self):
        import os
        for fd in (self._r, self._w):
            if fd is not None:
                try:
                    os.close(fd)
                except OSError:
                    pass
        self._r = self._w = None


class Recorder(object):
    """The minimal file-like target (only write())."""

    def __init__(self):
        self.parts = []

    def write(self, b):
        self.parts.append(bytes(b))

    def getvalue(self):
        return b"".join(self.parts)


SRC_KINDS = ["bytesio", "buffered", "trickle", "short", "pipe"]


def make_source(kind, data, step):
    if kind == "bytesio":
        return io.BytesIO(data)
    if kind == "buffered":
        return io.BufferedReader(Trickle(data, step))
    if kind == "trickle":
        return Trickle(data, step)
    if kind == "short":
        return ShortReader(data, step)
    if kind == "pipe":
        return BurstPipe(data, step)
    if kind == "stringio":
        return io.StringIO(data)
    if kind == "textshort":
        return ShortReader(data, step)
    raise ValueError(kind)


def stream_variant(vseed, hi, k, op):
    """The way call k of history hi is issued: deterministic in (vseed, hi, k)."""
    r = random.Random(vseed * 1000003 + hi * 1009 + k)
    if op[0] == "writebytes":
        how = r.choice(["upload", "upload", "writefile", "writefile_text"])
        if how == "writefile_text":
            return (how, r.choice(["stringio", "textshort"]), r.choice([1, 2, 3, 7]), None)
        return (how, r.choice(SRC_KINDS), r.choice([1, 2, 3, 4, 7]),
                r.choice([None, None, 1, 2, 3, 4, 5, 16]) if how == "upload" else None)
    if op[0] == "readbytes":
        how = r.choice(["download", "download", "open_pieces", "openbin_pieces"])
        return (how, r.choice(["bytesio", "recorder"]), r.choice([1, 2, 3, 7]), r.choice([None, 1, 2, 3, 4, 16]))
    return None


def exec_stream(fs, op, variant):
    """fsops.execute with writebytes / readbytes issued through the stream-taking methods."""
    import signal
    if variant is None:
        return fsops.execute(fs, op)
    how, kind, step, chunk = variant
    old = signal.signal(signal.SIGALRM, fsops._alarm)
    signal.alarm(5)
    src = None
    try:
        try:
            if how == "upload":
                src = make_source(kind, op[2], step)
                fs.upload(op[1], src, chunk_size=chunk) if chunk is not None else fs.upload(op[1], src)
                return "ok:U"
            if how == "writefile":
                src = make_source(kind, op[2], step)
                fs.writefile(op[1], src)
                return "ok:U"
            if how == "writefile_text":     # latin-1 maps every byte to one character and back
                src = make_source(kind, op[2].decode("latin-1"), step)
                fs.writefile(op[1], src, encoding="latin-1")
                return "ok:U"
            if how == "download":
                tgt = io.BytesIO() if kind == "bytesio" else Recorder()
                fs.download(op[1], tgt, chunk_size=chunk) if chunk is not None else fs.download(op[1], tgt)
                return "ok:" + common.r_bytes(tgt.getvalue())
            if how in ("open_pieces", "openbin_pieces"):
                f = fs.open(op[1], "rb") if how == "open_pieces" else fs.openbin(op[1], "r")
                try:
                    parts = []
                    while True:
                        c = f.read(step)
                        if not c:
                            break
                        parts.append(c)
                finally:
                    f.close()
                return "ok:" + common.r_bytes(b"".join(parts))
            raise ValueError(how)
        except fsops.Timeout:
            return "crash:NonTermination"
        except Exception as e:  # noqa
            return common.exc_name(e)
    finally:
        signal.alarm(0)
        signal.signal(signal.SIGALRM, old)
        if src is not None and hasattr(src, "close"):
            try:
                src.close()
            except Exception:
                pass


BULK = bytes(bytearray(range(256))) * 41      # 10496 bytes: not a multiple of the chunk sizes used
BULK2 = bytes(bytearray(range(256))) * 32     # 8192 bytes: an exact multiple of 4096


def stream_bulk_cases(thorough):
    """(how, kind, step, chunk, data): larger data against the default and explicit chunk sizes."""
    out = []
    for data in (BULK, BULK2):
        for kind, step in (("bytesio", 0), ("buffered", 7), ("trickle", 7), ("trickle", 1000), ("trickle", 4096),
                           ("short", 100), ("short", 5000), ("pipe", 3000), ("pipe", 4096)):
            for chunk in ((None, 4096, 1000, 1 << 16) if thorough else (None, 4096)):
                out.append(("upload", kind, step, chunk, data))
            out.append(("writefile", kind, step, None, data))
        for kind, step in (("stringio", 0), ("textshort", 100)):
            out.append(("writefile_text", kind, step, None, data))
        for chunk in (None, 4096, 1000):
            out.append(("download", "bytesio", 0, chunk, data))
            out.append(("download", "recorder", 0, chunk, data))
        out.append(("open_pieces", "-", 1000, None, data))
    return out


def run_stream_block(report, backs, thorough):
    """C01 over the stream-taking calls; returns (coverage dict, divergences [(step, ref, okr, okt, variant)])."""
    import time
    t0 = time.time()
    bias = dict(writebytes=40, readbytes=25, makedir=8, copy=3, move=3, remove=3, getinfo=1, getsize=2)
    vseed = report.seed + 131
    hs = gen_histories(report.seed + 131, 400 if thorough else 36, 10 if thorough else 7, bias=bias)
    n_steps = n_stream = 0
    div = []
    kinds = collections.Counter()
    bulk_bad = []
    n_bulk = 0
    for bc in backs:
        def ex(fs, o, hi, k):
            return exec_stream(fs, o, stream_variant(vseed, hi, k, o))
        steps = run_histories(bc, hs, execute=ex)
        refs = ref_steps(steps)
        for s, r in zip(steps, refs):
            n_steps += 1
            v = stream_variant(vseed, s.hist_id, s.index, s.op)
            if v is not None:
                n_stream += 1
                kinds["%s/%s" % (v[0], v[1])] += 1
            okr, okt = agrees2(s, r)
            if not (okr and okt):
                div.append((s, r, okr, okt, v))
        # larger data, oracle = the data itself
        b = bc()
        try:
            fs = b.make()
            for i, (how, kind, step, chunk, data) in enumerate(stream_bulk_cases(thorough)):
                n_bulk += 1
                p = "bulk%d" % (i % 3)
                if how in ("download", "open_pieces"):
                    fs.writebytes(p, data)
                    out = exec_stream(fs, ("readbytes", p), (how, kind, step, chunk))
                    ok = out == "ok:" + common.r_bytes(data)
                else:
                    out = exec_stream(fs, ("writebytes", p, data), (how, kind, step, chunk))
                    got = fs.readbytes(p) if out == "ok:U" else None
                    ok = got == data
                    if not ok:
                        out += " stored %s of %d bytes" % (None if got is None else len(got), len(data))
                if not ok:
                    bulk_bad.append(dict(backend=bc.name, how=how, stream=kind, step=step, chunk_size=chunk,
                                         size=len(data), outcome=out[:80]))
        finally:
            b.close()
    cov = dict(rule="histories whose writebytes / readbytes calls are issued as upload / writefile (binary and text) / "
                    "download / open().read(k) with sources and targets of several kinds (BytesIO, BufferedReader, raw "
                    "stream handing out <= k bytes per read, minimal read()-only object, OS pipe fed in bursts, StringIO, "
                    "text stream with short reads; BytesIO and write()-only targets) x chunk sizes, on every backend, "
                    "compared with the reference for writebytes / readbytes; plus larger data (8192 and 10496 bytes) "
                    "against default and explicit chunk sizes with the data as oracle",
               steps=n_steps, stream_calls=n_stream, by_kind=dict(kinds), bulk_cases=n_bulk,
               divergences=len(div), bulk_failures=len(bulk_bad), wall_s=round(time.time() - t0, 2))
    return cov, div, bulk_bad, vseed, hs


# ---- C01: the TEXT calls (writetext / appendtext / readtext / open in the text modes and the methods of the file it
# returns).  FS.open documents its keywords as those of io.open, so the reference is the real io module: the same call
# sequence on a real file (io.open on a temporary file) - every backend must give the same verdict, the same returned
# text and the same stored bytes.  The keywords are taken from the signatures by reflection; every keyword is driven
# through every value of its table with contents on which it matters.

TEXT_KW_VALUES = dict(
    encoding=[None, "utf-8", "ascii", "latin-1", "utf-16", "utf-8-sig", "utf-16-le", "cp1252"],
    errors=[None, "strict", "ignore", "replace", "backslashreplace", "xmlcharrefreplace", "surrogateescape"],
    newline=[None, "", "\n", "\r", "\r\n"],
    buffering=[-1, 0, 1, 2, 7, 4096],
    line_buffering=[False, True])
TEXT_NOT_KEYWORDS = ("self", "path", "contents", "text", "mode", "name", "bin_file", "options", "kwargs")
TEXT_SAMPLES = [u"", u"plain", u"one\ntwo\n", u"dos\r\nlines\r\n", u"lone\rcr", u"mix\n\r\n\r\rend\r", u"\n", u"\r",
                u"caf\xe9 €", u"\xe9\r\n\U0001f600\n", u"tail\r\n\r"]
TEXT_BYTES = [b"", b"plain", b"one\ntwo\n", b"dos\r\nlines\r\n", b"lone\rcr", b"mix\n\r\n\r\rend\r", b"\r\n\r\n", b"\r",
              u"caf\xe9 €\r\n".encode("utf-8"), u"caf\xe9\r\n".encode("latin-1"), u"b\xe9\r\nm\n".encode("utf-16"),
              u"sig\r\n\xe9".encode("utf-8-sig"), u"le\r\n".encode("utf-16-le"), b"\xff\xfe\xfd", b"ok\r\n\x80tail"]
# contents on which a keyword matters (always used when that keyword is varied)
TEXT_CRITICAL = dict(encoding=[u"caf\xe9 \u20ac\r\n"], errors=[u"bad\udc80 \xe9\u20ac\r\nx"], newline=[u"mix\n\r\n\r\rend\r"],
                     buffering=[u"one\ntwo\r\n" * 3], line_buffering=[u"one\ntwo\r\n"])
TEXT_CRITICAL_BYTES = dict(encoding=[u"b\xe9\r\nm\n".encode("utf-16"), u"caf\xe9\r\n".encode("latin-1")],
                           errors=[b"ok\r\n\x80\xfftail\r"], newline=[b"mix\n\r\n\r\rend\r"], buffering=[b"one\ntwo\r\n" * 3],
                           line_buffering=[b"dos\r\nlines\r\n"])
TEXT_READ_MODES = ["r", "rt", "r+", "r+t"]
TEXT_WRITE_MODES = ["w", "wt", "w+", "a", "at", "a+", "x", "r+"]
TEXT_FILE_READS = [[("read",)], [("readline",), ("readline",), ("read",)], [("readlines",)], [("iter",)],
                   [("read", 3), ("readline",), ("iter",)], [("readline", 2), ("readlines", 4), ("read",)],
                   [("next",), ("next",), ("read", 1)]]


def text_keywords():
    """method -> [keyword names], from the signatures of the base class (FS.open forwards its **options to
    fs.iotools.make_stream, whose named parameters are keywords of open too)."""
    import inspect
    import fs.base
    import fs.iotools
    out = {}
    for m in ("writetext", "appendtext", "readtext", "open"):
        ps = [p for p in inspect.signature(getattr(fs.base.FS, m)).parameters if p not in TEXT_NOT_KEYWORDS]
        if m == "open":
            ps += [p for p in inspect.signature(fs.iotools.make_stream).parameters
                   if p not in TEXT_NOT_KEYWORDS and p not in ps]
        out[m] = ps
    return out


def text_defaults(method):
    import inspect
    import fs.base
    import fs.iotools
    d = {}
    for f in ([fs.iotools.make_stream] if method == "open" else []) + [getattr(fs.base.FS, method)]:
        for n, p in inspect.signature(f).parameters.items():
            if n not in TEXT_NOT_KEYWORDS and p.default is not inspect.Parameter.empty:
                d[n] = p.default
    return d


class IoRef(object):
    """The reference: the text calls on REAL files through io.open, with the defaults FS documents."""

    def __init__(self, d):
        self.d = d
        self.defaults = dict((m, text_defaults(m)) for m in ("writetext", "appendtext", "readtext", "open"))

    def _p(self, p):
        import os
        return os.path.join(self.d, p)

    def writebytes(self, p, data):
        with io.open(self._p(p), "wb") as f:
            f.write(data)

    def readbytes(self, p):
        with io.open(self._p(p), "rb") as f:
            return f.read()

    def exists(self, p):
        import os
        return os.path.exists(self._p(p))

    def open(self, p, mode="r", **kw):
        k = dict(self.defaults["open"])
        k.update(kw)
        lb = k.pop("line_buffering", False)
        k["encoding"] = k["encoding"] or "utf-8"       # "Encoding for text files (defaults to utf-8)"
        f = io.open(self._p(p), mode, **k)
        if lb:
            f.reconfigure(line_buffering=True)
        return f

    def _via(self, method, mode, p, kw):
        k = dict(self.defaults[method])
        k.update(kw)
        return self.open(p, mode, **k)

    def writetext(self, p, contents, **kw):
        with self._via("writetext", "wt", p, kw) as f:
            f.write(contents)

    def appendtext(self, p, text, **kw):
        with self._via("appendtext", "at", p, kw) as f:
            f.write(text)

    def readtext(self, p, **kw):
        with self._via("readtext", "rt", p, kw) as f:
            return f.read()


def text_exc(e):
    """Verdict class of a failing text call: the io / codec exception classes are the same objects on both sides;
    'the file exists' / 'no such file' are FileExists / ResourceNotFound on the FS side."""
    n = type(e).__name__
    return {"FileExistsError": "FileExists", "FileNotFoundError": "ResourceNotFound"}.get(n, n)


def text_file_ops(f, ops):
    out = []
    for o in ops:
        if o[0] == "read":
            out.append(f.read(*o[1:]))
        elif o[0] == "readline":
            out.append(f.readline(*o[1:]))
        elif o[0] == "readlines":
            out.append(f.readlines(*o[1:]))
        elif o[0] == "iter":
            out.append(list(f))
        elif o[0] == "next":
            out.append(next(f, None))
        elif o[0] == "write":
            r = f.write(o[1])
            out.append(r)
        elif o[0] == "writelines":
            f.writelines(o[1])
        elif o[0] == "seek0":
            f.seek(0)
        elif o[0] == "flush":
            f.flush()
        else:
            raise ValueError(o)
    return out


def run_text_case(fsx, name, case):
    """case = (initial bytes | None, [step...]); a step is (method, args..., kw).  Returns the observation list:
    per step (verdict, returned values, stored bytes afterwards)."""
    init, steps = case
    obs = []
    if init is not None:
        fsx.writebytes(name, init)
    for st in steps:
        m, kw = st[0], st[-1]
        try:
            if m == "writetext":
                fsx.writetext(name, st[1], **kw)
                r = None
            elif m == "appendtext":
                fsx.appendtext(name, st[1], **kw)
                r = None
            elif m == "readtext":
                r = fsx.readtext(name, **kw)
            elif m == "open":
                f = fsx.open(name, st[1], **kw)
                try:
                    r = text_file_ops(f, st[2])
                finally:
                    f.close()
            else:
                raise ValueError(m)
            v = "ok"
        except fsops.Timeout:
            raise
        except Exception as e:  # noqa
            v, r = text_exc(e), None
        try:
            stored = fsx.readbytes(name) if fsx.exists(name) else None
        except Exception as e:  # noqa
            stored = "readbytes fails: " + type(e).__name__
        obs.append((v, r, stored))
    return obs


def text_cases(seed, thorough):
    """The case list: every keyword of every text method through every value of its table (the other keywords at their
    defaults), every errors x encoding pair, and random combinations - on contents on which the keywords matter."""
    rnd = random.Random(seed)
    kws = text_keywords()
    cases = []
    unknown = sorted(set(k for m in kws for k in kws[m] if k not in TEXT_KW_VALUES))

    def contents(kw, pool, critical, n):
        out = []
        for k in sorted(kw):
            out += [c for c in critical.get(k, []) if c not in out]
        rest = [c for c in pool if c not in out]
        return out[:n + 1] + (rest if thorough else rnd.sample(rest, max(0, min(len(rest), n - len(out)))))

    def kwsets(m):
        known = [k for k in kws[m] if k in TEXT_KW_VALUES]
        out = [dict()]
        for k in known:
            out += [{k: v} for v in TEXT_KW_VALUES[k]]
        if "errors" in known and "encoding" in known:       # what `errors` does depends on what the encoding cannot do
            pairs = [dict(errors=e, encoding=c) for e in TEXT_KW_VALUES["errors"] for c in TEXT_KW_VALUES["encoding"]
                     if e is not None and c is not None]
            out += pairs if thorough else rnd.sample(pairs, 12)
        for _ in range(60 if thorough else 8):          # combinations
            ks = rnd.sample(known, min(len(known), rnd.randint(2, 3)))
            out.append(dict((k, rnd.choice(TEXT_KW_VALUES[k])) for k in ks))
        return out
    for kw in kwsets("writetext"):
        for t in contents(kw, TEXT_SAMPLES, TEXT_CRITICAL, 2):
            cases.append((rnd.choice([None, b"old\r\ncontent"]), [("writetext", t, kw), ("readtext", kw)]))
    for kw in kwsets("appendtext"):
        enc = kw.get("encoding") or "utf-8"
        for t in contents(kw, TEXT_SAMPLES, TEXT_CRITICAL, 2):
            try:        # append to: nothing, an empty file, a non-empty file in the same encoding (BOM already there)
                pre = u"first\r\n\xe9".encode(enc, "replace")
            except LookupError:
                pre = b"first"
            init = rnd.choice([None, b"", pre, pre])
            cases.append((init, [("appendtext", t, kw), ("appendtext", t[::-1], kw), ("readtext", kw)]))
    for kw in kwsets("readtext"):
        for data in contents(kw, TEXT_BYTES, TEXT_CRITICAL_BYTES, 3):
            cases.append((data, [("readtext", kw)]))
    for kw in kwsets("open"):
        for data in contents(kw, TEXT_BYTES, TEXT_CRITICAL_BYTES, 2):
            cases.append((data, [("open", rnd.choice(TEXT_READ_MODES), rnd.choice(TEXT_FILE_READS), kw)]))
        for t in contents(kw, TEXT_SAMPLES, TEXT_CRITICAL, 2):
            mode = rnd.choice(TEXT_WRITE_MODES)
            init = None if "x" in mode else rnd.choice([None, b"", b"old\r\nbytes\r"]) if "r" not in mode \
                else b"old\r\nbytes\r"
            ops = rnd.choice([[("write", t)], [("write", t), ("write", u"\n"), ("write", t)],
                              [("writelines", [t, u"\r\n", t])], [("write", t), ("flush",), ("write", u"z\r")]])
            if "+" in mode:
                ops = ops + [("seek0",), ("read",)] if rnd.random() < 0.5 else [("readline",)] + ops
            cases.append((init, [("open", mode, ops, kw), ("open", "r", [("read",)], dict(
                (k, v) for k, v in kw.items() if k in ("encoding", "errors")))]))
    return cases, unknown


def text_signature(d):
    kw = d["keywords"]
    if d["method"] == "open" and kw.get("buffering") == 0 and d["io_open_gives"][0] == "ValueError" \
            and d["backend_gives"][0] != "ValueError":      # (the file was opened; whatever its methods then did)
        return C01_TEXT_UNBUFFERED
    what = "verdict" if d["backend_gives"][0] != d["io_open_gives"][0] else \
        "returned text" if d["backend_gives"][1] != d["io_open_gives"][1] else "stored bytes"
    return "%s.%s(%s): %s differs from io.open on a real file" % (d["backend"], d["method"], ",".join(sorted(kw)), what)


def run_text_backend(bc, cases, expected):
    """-> disagreements of one backend with the io.open observations."""
    import signal
    bad = []
    b = bc()
    old = signal.signal(signal.SIGALRM, fsops._alarm)
    try:
        fsx = b.make()
        for i, c in enumerate(cases):
            if expected[i] is None:
                continue
            signal.alarm(5)
            try:
                got = run_text_case(fsx, "t%d" % i, c)
            except fsops.Timeout:
                got = [("NonTermination", None, None)]
            finally:
                signal.alarm(0)
            if got != expected[i]:
                k = next(j for j in range(len(got)) if j >= len(expected[i]) or got[j] != expected[i][j])
                bad.append(dict(backend=bc.name, case_index=i, initial_bytes=c[0], steps=c[1], step=k, method=c[1][k][0],
                                keywords=c[1][k][-1], call=repr(c[1][k]), backend_gives=got[k],
                                io_open_gives=expected[i][k] if k < len(expected[i]) else (None, None, None)))
    finally:
        signal.signal(signal.SIGALRM, old)
        b.close()
    return bad


def text_reference(cases, only=None):
    import tempfile
    d = tempfile.mkdtemp(prefix="pyfs2verif_")
    try:
        ref = IoRef(d)
        return [run_text_case(ref, "t%d" % i, c) if only is None or i == only else None for i, c in enumerate(cases)]
    finally:
        common.rm_rf(d)


def run_text_block(report, backs, thorough):
    """Returns (coverage dict, [disagreement dicts])."""
    import time
    t0 = time.time()
    cases, unknown = text_cases(report.seed + 151, thorough)
    expected = text_reference(cases)
    verdicts = collections.Counter(o[0] for e in expected for o in e)
    bad = []
    for bc in backs:
        bad += run_text_backend(bc, cases, expected)
    for d in bad:
        d.update(case_seed=report.seed + 151)
    cov = dict(rule="writetext / appendtext / readtext / open(text modes).read/readline/readlines/iteration/next/write/"
                    "writelines with every keyword the signatures carry (%s) through every value of its table - alone, every "
                    "errors x encoding pair, random combinations - on contents on which the keyword matters (lone CR, CRLF, "
                    "mixed newlines, characters / bytes the encoding cannot represent, lone surrogates, BOM encodings "
                    "appended to non-empty files), on every backend; oracle = the same call sequence on a real file "
                    "through io.open with FS's documented defaults: verdict, returned text and stored bytes after every "
                    "call must be equal" % "; ".join("%s: %s" % (m, "/".join(k)) for m, k in sorted(text_keywords().items())),
               cases=len(cases), case_runs=len(cases) * len(backs), reference_verdicts=dict(verdicts),
               keyword_values=dict((k, [repr(v) for v in vs]) for k, vs in TEXT_KW_VALUES.items()),
               keywords_without_value_table=unknown, disagreements=len(bad), wall_s=round(time.time() - t0, 2))
    return cov, bad


# ---- C01: MultiFS over members that hold content of their own, added before / after first use.  The documented search
# order (descending priority, then most recently added first) names, for every path, the member that answers: the
# queries through the MultiFS must give what that member - a MemoryFS, tied to the model - gives.

LAYER_QUERIES = ("exists", "isdir", "isfile", "getinfo", "readbytes", "getsize", "gettype")


def layer_case(seed, ci, verbose=False):
    """One generated case; returns (number of comparisons, list of disagreements)."""
    from fs.multifs import MultiFS
    from fs.memoryfs import MemoryFS
    rnd = random.Random(seed * 7919 + ci)
    h = genhist.Gen(rnd, odd=0.0, spell=0.0).history(rnd.randint(2, 7))
    wprio = rnd.choice([10, 10, 3, 0])
    plan = [("w", MemoryFS(), wprio, True, [])]
    for i in range(rnd.randint(1, 3)):
        g = genhist.Gen(rnd, odd=0.0, spell=0.0)
        lower = MemoryFS()
        ops = []
        for _ in range(rnd.randint(1, 5)):
            o = g.setup_op()
            fsops.execute(g.shadow, o)
            fsops.execute(lower, o)
            ops.append(o)
        plan.append(("l%d" % i, lower, rnd.choice([0, 0, 0, -2, 5, wprio]), False, ops))
    rnd.shuffle(plan)
    when = sorted(rnd.choice([-1, -1, 0, 1, 2, 4]) for _ in plan)      # added before call number `when` (-1: before first use)
    m = MultiFS()
    empty = MemoryFS()
    added = []
    log = []
    bad = []
    n = [0]

    def add(k):
        name, member, prio, write, ops = plan[k]
        log.append(["add_fs", name, dict(priority=prio, write=write, content=[op_json(o) for o in ops])])
        if prio == 0:
            m.add_fs(name, member, write=write)
        else:
            m.add_fs(name, member, write=write, priority=prio)
        added.append((prio, len(added), name, member))

    def compare():
        if not added:
            return
        order = sorted(added, key=lambda t: (t[0], t[1]), reverse=True)
        paths = {"/", "/nope"}
        for _p, _i, _n, member in added:
            paths.update(p for p, _info in member.walk.info())
        for p in sorted(paths):
            owner = next(((nm, member) for _pr, _ix, nm, member in order if member.exists(p)), (None, empty))
            for q in LAYER_QUERIES:
                n[0] += 1
                exp = strip_times(fsops.execute(owner[1], (q, p)))
                got = strip_times(fsops.execute(m, (q, p)))
                if exp != got:
                    bad.append(dict(query=q, path=p, documented_owner=owner[0], owner_answers=exp, multifs_answers=got,
                                    search_order=[t[2] for t in order], log=list(log)))
                    return
            n[0] += 1
            w = m.which(p)[0]
            if w != owner[0]:
                bad.append(dict(query="which", path=p, documented_owner=owner[0], owner_answers=owner[0],
                                multifs_answers=w, search_order=[t[2] for t in order], log=list(log)))
                return
            kinds = [(member.isdir(p), member.isfile(p)) for _pr, _ix, _nm, member in order]
            if owner[0] is not None and owner[1].isdir(p) and not any(f for _d, f in kinds):
                names = set()
                for _pr, _ix, _nm, member in order:
                    if member.isdir(p):
                        names.update(member.listdir(p))
                n[0] += 1
                got = fsops.execute(m, ("listdir", p))
                exp = "ok:" + common.r_list(common.r_str, sorted(names))
                if sort_listing(got) != sort_listing(exp):
                    bad.append(dict(query="listdir", path=p, documented_owner=owner[0], owner_answers=exp,
                                    multifs_answers=got, search_order=[t[2] for t in order], log=list(log)))
                    return
    try:
        nxt = 0
        while nxt < len(plan) and when[nxt] < 0:
            add(nxt)
            nxt += 1
        compare()
        for k, o in enumerate(h):
            while nxt < len(plan) and when[nxt] <= k and not bad:
                add(nxt)
                nxt += 1
                compare()
            if bad:
                break
            log.append(["call", op_json(o), fsops.execute(m, o)[:40]])
            compare()
    finally:
        try:
            m.close()
        except Exception:  # noqa
            pass
    return n[0], bad


def run_layer_block(report, thorough):
    import time
    t0 = time.time()
    total = 0
    bad = []
    cases = 400 if thorough else 40
    for ci in range(cases):
        n, b = layer_case(report.seed + 77, ci)
        total += n
        for d in b:
            d.update(case_seed=report.seed + 77, case_index=ci)
        bad += b
    cov = dict(rule="MultiFS over a write layer and 1-3 MemoryFS members with content of their own (overlapping names, "
                    "priorities default / negative / positive / equal to the write layer's), each added before the first "
                    "use or between the calls of a random history; after every addition and call, for every path any member "
                    "holds: exists/isdir/isfile/getinfo/readbytes/getsize/gettype/which through the MultiFS = the answer of "
                    "the first member holding the path in the documented search order; listdir = union of the members' "
                    "listings", cases=cases, comparisons=total, disagreements=len(bad), wall_s=round(time.time() - t0, 2))
    return cov, bad


# ---- C01 on FTPFS (loop-back pyftpdlib server, harness/ftpserver.py): the per-backend comparison with the reference
# stepped from the backend's own pre-state, on the two network backends (server with MLST/MLSD; server without, i.e. the
# LIST parsers).  Fewer histories than the local backends (every call is several round trips).  Two regions are kept
# out of the RANDOM histories and probed by fixed ones instead, because there FTPFS goes wrong in so many shapes that
# the (call, outcome) signatures would never be complete:
#   - names that begin with a space (both listing parsers strip it: the entry is listed under another name),
#   - on the LIST server, paths below a file (LIST <file> answers with the file itself, so 'f/f' looks like a file).
# On the LIST server nothing more of a random history is compared after a call with a path below a file (a failed
# transfer there leaves the shared control connection out of step, whatever the call itself answered).

FTP_C01_HISTORIES = (100, 600)         # per backend: quick, thorough
FTP_SPACE_SIG = ("%s: a name that begins with a space is listed without it (scandir/listdir name it 'sp' for ' sp'); "
                 "calls that look the entry up in a listing (getinfo on the LIST server, removetree, movedir, ...) "
                 "then miss it")
FTP_BELOW_FILE_SIG = ("%s: a path below a file ('f/x', f a file) - getinfo lists the file's own path with LIST, the "
                      "server answers with the file itself, and 'f/f' passes for an existing file (other names: the "
                      "failure class depends on that listing); transfers on such a path fail with raw ftplib errors "
                      "and leave the shared control connection one reply out of step")
FTP_SPACE_PROBES = [
    [("makedir", " sp", False), ("listdir", "/"), ("scandir", "/"), ("getinfo", " sp"), ("isdir", " sp"),
     ("writebytes", " sp/f", b"x"), ("listdir", " sp"), ("readbytes", " sp/f"), ("removetree", " sp"), ("listdir", "/")],
    [("writebytes", " sp", b"hello"), ("listdir", "/"), ("exists", " sp"), ("getsize", " sp"), ("readbytes", " sp"),
     ("move", " sp", "b", False, False), ("listdir", "/")],
    [("makedirs", "a/ sp", False), ("listdir", "a"), ("movedir", "a", "b", True, False), ("listdir", "b"),
     ("removetree", "/"), ("listdir", "/")],
]
FTP_BELOW_FILE_PROBES = [
    [("writebytes", "f", b"x"), ("exists", "f/f"), ("getinfo", "f/f"), ("isfile", "f/f"), ("exists", "f/g"),
     ("makedir", "f/f", False), ("readbytes", "f/f"), ("writebytes", "f/f", b"y"), ("readbytes", "f")],
    [("makedir", "d", False), ("writebytes", "d/f", b"x"), ("getsize", "d/f/f"), ("copy", "d/f", "d/f/f", False, False),
     ("touch", "d/f/f"), ("listdir", "d")],
]


# TODO PENDING_FINDINGS (ftp4, 2026-10-01): what the UNCHANGED FTPFS gets wrong in the comparison above, by signature_c01
# (both kinds of server) and by the two probe signatures; awaiting triage.  Details with call sequences: evidence
# coverage["ftpfs_loopback_server"], and the final report of the FTP work.
FTP_C01_OUTCOMES = [
    "setinfo impl=ok ref=fail:ResourceNotFound",                   # setinfo(missing path, modified time): MFMT error swallowed
    # (repaired in /repo by the FTPFS fix series of 2026-10-01 - violations again if they return: copy/move/writebytes/
    #  create onto '/' or a directory -> FileExpected; create(directory) -> False; touch(directory); openbin(missing,
    #  'w+'/'a+'/'x+'); openbin(missing, 'w'/'a'/'x').close() creates the file; 'r+' + write(b'') leaves the file alone)
]
FTP_C01_PENDING = ["%s.%s" % (_b.name, _o) for _b in B.NETWORK for _o in FTP_C01_OUTCOMES] + \
                  [FTP_SPACE_SIG % _b.name for _b in B.NETWORK] + [FTP_BELOW_FILE_SIG % B.FTPNoMLSD.name]
# (registered in known_findings.json on 2026-10-01, C01 and - the space names - C10: nothing is pending)


# ---- name relations and name classes (fixed histories, every backend of C01 and C10 - FTP included).
# Relations between the name of a directory and the names below / beside it: a child named like its parent (as a file
# and as a directory, as the sole entry and with siblings), a child named like a sibling of its parent, a file named
# like an ancestor.  Name classes, each as the sole entry of a directory, next to a sibling, as a file and as a
# directory: decomposed (NFD) beside composed (NFC) forms, compatibility characters that normalisation folds (U+FB01,
# U+2126, full-width digits), trailing dots / spaces, pairs that differ in case only, the characters of the MLSD fact
# syntax (';' '=').  Listings must give exactly the created names and every query on join(d, listed name) must agree
# (reference: FS/ semantics stepped from the backend's own pre-state, as for the random histories).

def _name_history(d, names):
    """Files `names` in directory d (the first as the sole entry first), then the same names as directories in d+'2'."""
    h = [("makedir", d, False)]
    for k, n in enumerate(names):
        q = d + "/" + n
        h += [("writebytes", q, b"x" + n.encode("utf-8")), ("listdir", d), ("scandir", d), ("getinfo", q), ("isfile", q),
              ("exists", q), ("readbytes", q), ("getsize", q)]
        if k == 0:
            h += [("isempty", d), ("removedir", d)]
    h += [("writebytes", d + "/z", b"z"), ("listdir", d), ("makedir", d + "2", False)]
    for n in names:
        q = d + "2/" + n
        h += [("makedir", q, False), ("listdir", d + "2"), ("isdir", q), ("isempty", q), ("getinfo", q),
              ("writebytes", q + "/" + n, b"in"), ("listdir", q), ("scandir", q)]
    h += [("removetree", d), ("listdir", "/"), ("removetree", d + "2"), ("listdir", "/")]
    return h


NAME_RELATION_HISTORIES = [
    # the sole entry of a directory is a FILE named like the directory
    [("makedir", "logs", False), ("writebytes", "logs/logs", b"x"), ("listdir", "logs"), ("scandir", "logs"),
     ("isempty", "logs"), ("getinfo", "logs/logs"), ("isdir", "logs"), ("removedir", "logs"), ("copydir", "logs", "c", True, False),
     ("listdir", "c"), ("removetree", "logs"), ("listdir", "/")],
    # ... a DIRECTORY named like it, and further down; then with siblings
    [("makedirs", "d/d", False), ("listdir", "d"), ("scandir", "d"), ("isempty", "d"), ("isempty", "d/d"),
     ("writebytes", "d/d/d", b"deep"), ("listdir", "d/d"), ("scandir", "d/d"), ("readbytes", "d/d/d"), ("removedir", "d/d"),
     ("writebytes", "d/e", b"sib"), ("listdir", "d"), ("removetree", "d/d"), ("listdir", "d"), ("removetree", "d"),
     ("listdir", "/")],
    # a child named like a sibling of its parent; a file named like an ancestor; same-named file with siblings
    [("makedir", "a", False), ("makedir", "b", False), ("writebytes", "a/b", b"x"), ("listdir", "a"), ("listdir", "b"),
     ("isdir", "a/b"), ("isempty", "b"), ("makedirs", "x/y", False), ("writebytes", "x/y/x", b"anc"), ("listdir", "x/y"),
     ("scandir", "x/y"), ("isempty", "x/y"), ("writebytes", "a/a", b"same"), ("listdir", "a"), ("scandir", "a"),
     ("removetree", "x"), ("removetree", "a"), ("listdir", "/")],
]
NAME_CLASSES = [
    ("decomposed (NFD) and composed (NFC) forms", [u"e\u0301", u"\xe9", u"o\u0308"]),
    ("compatibility characters that normalisation folds (U+FB01, U+2126, full-width digit)",
     [u"\ufb01le", u"\u2126", u"\uff11"]),
    ("trailing dots", [u"a.", u"b.."]),
    ("trailing spaces", [u"a ", u"b  "]),
    ("names that differ in case only", [u"A", u"a", u"Ab"]),
    ("the characters of the MLSD fact syntax (';' '=')", [u"a;b", u"k=v"]),
]
NAME_CLASS_HISTORIES = [_name_history("n%d" % i, names) for i, (_label, names) in enumerate(NAME_CLASSES)]
NAME_FAMILY = [("a name related to the names around it (child like parent / like the parent's sibling / like an ancestor)", h)
               for h in NAME_RELATION_HISTORIES] + \
              [(label, h) for (label, _n), h in zip(NAME_CLASSES, NAME_CLASS_HISTORIES)]
NAME_FAMILY_SIG = "%s: names - %s: listings / queries disagree with the reference"
# the states of the family for the C10 battery (construction only; the battery does the querying)
C10_NAME_STATES = [
    ("relation", [("makedir", "logs", False), ("writebytes", "logs/logs", b"x")]),
    ("relation", [("makedirs", "d/d", False), ("writebytes", "d/d/d", b"deep"), ("writebytes", "d/e", b"sib")]),
    ("relation", [("makedir", "a", False), ("makedir", "b", False), ("writebytes", "a/b", b"x"), ("makedirs", "x/y", False),
                  ("writebytes", "x/y/x", b"anc"), ("writebytes", "a/a", b"same")]),
] + [(label, [("makedir", "n", False), ("writebytes", "n/" + names[0], b"x")] +
      [("writebytes", "n/" + n, b"y") for n in names[1:]] + [("makedirs", "m/" + names[0], False)] +
      [("makedir", "m/" + n, False) for n in names[1:]]) for label, names in NAME_CLASSES]
C10_NAME_STATES = [(NAME_FAMILY[0][0] if label == "relation" else label, h) for label, h in C10_NAME_STATES]


# TODO PENDING_FINDINGS (ftp5, 2026-10-01): what the UNCHANGED FTPFS gets wrong in the name family (class level; C01 and
# C10 use the same strings); awaiting triage
NAME_FAMILY_PENDING = [
    NAME_FAMILY_SIG % ("FTPFS", NAME_CLASSES[3][0]),                                # MLSD: 'a ' is listed as 'a' (strip())
    NAME_FAMILY_SIG % ("FTPFS", NAME_CLASSES[5][0]),                                # MLSD: 'a;b' is listed as 'b' (C20 finding)
    NAME_FAMILY_SIG % ("FTPFS(server without MLST/MLSD)", NAME_CLASSES[0][0]),      # LIST: names are NFC-normalised
    NAME_FAMILY_SIG % ("FTPFS(server without MLST/MLSD)", NAME_CLASSES[1][0]),      # LIST: U+2126 -> U+03A9 (NFC)
]
# (ReadTarFS declares case_insensitive=True in its meta, so filterdir(files=['A']) also selects 'a': documented behaviour of
#  FS.match for a filesystem that says so - the filterdir oracle follows getmeta(); the odd declaration is noted in DESIGN 9.5)
# the four FTP signatures are registered in known_findings.json (C01 and C10): nothing is pending


def c10_name_states(bc, seed, thorough):
    """Thorough tier: every state; quick tier: the relation states + two name classes drawn per (seed, backend)."""
    if thorough:
        return [h for _l, h in C10_NAME_STATES]
    rnd = random.Random("%s-%s-names" % (seed, bc.name))
    return [h for _l, h in C10_NAME_STATES[:3] + rnd.sample(C10_NAME_STATES[3:], 2)]


def name_state_label(h):
    """The class of the C10 name state that the history h is (a prefix of), or None."""
    for label, st in C10_NAME_STATES:
        if h and list(h) == list(st[:len(h)]):
            return label
    return None


def run_c01_names(report, cov):
    """The name family on every backend of C01 (FTP included, when the server starts) ->
    [(step, ref, okr, okt, signature, history)] in the format of run_c01_ftp."""
    out = []
    hs = [h for _label, h in NAME_FAMILY]
    backs = list(B.ALL) + B.GROWING + (B.NETWORK if cov.get("available") else [])
    n = 0
    for bc in backs:
        steps = run_histories(bc, hs)
        refs = ref_steps(steps)
        n += len(steps)
        for st, r in zip(steps, refs):
            okr, okt = agrees2(st, r)
            if not (okr and okt):
                out.append((st, r, okr, okt, NAME_FAMILY_SIG % (bc.name, NAME_FAMILY[st.hist_id][0]),
                            [op_json(o) for o in hs[st.hist_id][:st.index + 1]]))
    cov["name_family"] = dict(histories=len(hs), backends=len(backs), steps=n, classes=[l for l, _n in NAME_CLASSES],
                              rule="fixed histories on every backend: a child named like its parent (file / directory, sole "
                                   "entry / with siblings), like a sibling of its parent, a file named like an ancestor; "
                                   "per name class the names as the sole entry, next to siblings, as files and as "
                                   "directories; every call compared with the reference")
    return out


def _below_file(step):
    """Does a path argument of the call have a proper ancestor that is a file in the pre-state?"""
    from fs.path import abspath, normpath, recursepath
    try:
        files = set(p for p, kind, _d in fsops.tree_paths(step.pre) if kind == "F")
    except Exception:  # noqa
        return False
    args = step.op[1:3] if step.op[0] in ("move", "copy", "movedir", "copydir") else step.op[1:2]
    for a in args:
        try:
            q = abspath(normpath(a))
        except Exception:  # noqa
            continue
        if any(anc in files for anc in recursepath(q)[:-1]):
            return True
    return False


def ftp_histories(seed, n, maxlen):
    """Random histories of the usual generator, without the names that begin with a space."""
    odd = genhist.ODD_NAMES
    genhist.ODD_NAMES = [x for x in odd if x.strip() == x]
    try:
        return gen_histories(seed, n, maxlen)
    finally:
        genhist.ODD_NAMES = odd


def run_c01_ftp(report, thorough):
    """-> (coverage, [(step, ref, okr, okt, signature)]) for the two FTP backends."""
    ok, why = B.network_available()
    cov = dict(available=ok, unavailable_because=why, backends={})
    if not ok:
        return cov, []
    out = []
    hs = ftp_histories(report.seed + 10101, FTP_C01_HISTORIES[thorough], 40 if thorough else 12)
    for bc in B.NETWORK:
        c = dict(histories=len(hs), steps=0, divergences=0, not_compared_after_a_call_below_a_file=0, probe_steps=0)
        for label, use in (("random", hs), ("space", FTP_SPACE_PROBES), ("belowfile", FTP_BELOW_FILE_PROBES)):
            steps = run_histories(bc, use)
            # a connection that could not be made (the machine ran out of local ports: every transfer is a connection
            # of its own, other checks use the loop-back server at the same time) says nothing about the library:
            # those histories are run once more, a little later
            lost = sorted(set(s.hist_id for s in steps if "RemoteConnectionError" in s.outcome))
            if lost:
                import time
                time.sleep(2.0)
                c["histories_rerun_after_connection_failure"] = c.get("histories_rerun_after_connection_failure", 0) + len(lost)
                again = run_histories(bc, [use[i] for i in lost], hist_ids=lost)
                steps = [s for s in steps if s.hist_id not in lost] + again
            refs = ref_steps(steps)
            dead = set()
            for s, r in zip(steps, refs):
                if s.hist_id in dead:
                    c["not_compared_after_a_call_below_a_file"] += 1
                    continue
                c["steps" if label == "random" else "probe_steps"] += 1
                okr, okt = agrees2(s, r)
                below = bc is B.FTPNoMLSD and _below_file(s)
                if below and label == "random":
                    dead.add(s.hist_id)      # whatever this call answers, the control connection may be out of step now
                if okr and okt:
                    continue
                c["divergences"] += 1
                if label == "space":
                    sig = FTP_SPACE_SIG % bc.name
                elif label == "belowfile" and bc is B.FTPNoMLSD:
                    sig = FTP_BELOW_FILE_SIG % bc.name
                elif below:
                    sig = FTP_BELOW_FILE_SIG % bc.name
                else:
                    sig = signature_c01(s, r)
                hist = [op_json(o) for o in use[s.hist_id][:s.index + 1]]
                out.append((s, r, okr, okt, sig, hist))
        cov["backends"][bc.name] = c
    cov["rule"] = ("both backends: %d random histories (generator of the local backends, names that begin with a space "
                   "left out) + %d fixed histories with such names + %d with paths below a file; every call compared "
                   "with the reference stepped from the server directory's own pre-state (read with os.* once every "
                   "transfer has ended); on the LIST server the rest of a random history is not compared after a "
                   "call with a path below a file" % (len(hs), len(FTP_SPACE_PROBES), len(FTP_BELOW_FILE_PROBES)))
    return cov, out



def run_c01(report):
    proof = common.preflight(report)
    thorough = report.tier == "thorough"
    n_hist = 4000 if thorough else 500
    hs = gen_histories(report.seed + 101, n_hist, 40 if thorough else 12)
    regress = load_corpus("C01")
    backs = B.ALL
    total = 0
    nontrivial = set()
    divergences = []
    dist = collections.Counter()
    samples = []
    # 1. the MemoryFS model must match the real MemoryFS exactly (tie of the proved model)
    mem_steps = run_histories(B.Mem, regress + hs)
    by_hist = collections.defaultdict(list)
    for s in mem_steps:
        by_hist[s.hist_id].append(s)
    lines = [hist_line("mem", h) for h in regress + hs]
    model = common.run_model_parallel(lines, chunk=500)
    fidelity_bad = []
    for hi, h in enumerate(regress + hs):
        exp = model[hi].split(" ") if model[hi] else []
        got = [s.outcome + "#" + s.post for s in by_hist[hi]]
        if exp != got:
            k = next((i for i in range(min(len(exp), len(got))) if exp[i] != got[i]), min(len(exp), len(got)))
            fidelity_bad.append((hi, k, exp[k] if k < len(exp) else None, got[k] if k < len(got) else None))
    n_vm, vm_mism = common.vm_crosscheck(lines[:400], model[:400], "C01", limit=60)
    # 1b. the SubFS model (FS/Wrap.v subfs_run over the MemoryFS model) must match a real SubFS of a real
    #     MemoryFS exactly, including the part of the parent outside the sub-directory
    sub_hs = (regress + hs)[: (len(hs) if thorough else 250)]
    sub_model = common.run_model_parallel([hist_line("sub", h) for h in sub_hs], chunk=500)
    for hi, h in enumerate(sub_hs):
        b = B.SubMem()
        fsx = b.make()
        got = []
        for o in h:
            out = fsops.execute(fsx, o)
            got.append(out + "#" + fsops.snap_memoryfs(b.parent))
        b.close()
        exp = sub_model[hi].split(" ") if sub_model[hi] else []
        if exp != got:
            k = next((i for i in range(min(len(exp), len(got))) if exp[i] != got[i]), min(len(exp), len(got)))
            fidelity_bad.append((hi, k, exp[k] if k < len(exp) else None, got[k] if k < len(got) else None))
    # 2. every backend against the reference, stepping the reference from the backend's pre-state
    per_backend = {}
    for bc in list(backs) + B.GROWING:       # + compositions whose members are added while they are in use
        use = regress + (hs if bc in (B.Mem, B.OS, B.SubMem, B.Wrap) or thorough else hs[: max(60, n_hist // 6)])
        steps = mem_steps if bc is B.Mem else run_histories(bc, use)
        refs = ref_steps(steps)
        bad = 0
        for s, r in zip(steps, refs):
            total += 1
            dist[(s.op[0], s.outcome.split(":")[0] if s.outcome.startswith("ok") else s.outcome)] += 1
            okr, okt = agrees2(s, r)
            if s.outcome.startswith("ok:") and s.pre != s.post:
                nontrivial.add((s.op[0], fsops.canon_tree(s.post)))
            if not (okr and okt):
                bad += 1
                divergences.append((s, r, okr, okt))
        per_backend[bc.name] = dict(steps=len(steps), divergences=bad)
        if steps and len(samples) < 6:
            s = steps[len(steps) // 2]
            samples.append(dict(backend=s.backend, call=op_json(s.op), outcome=s.outcome,
                                tree_after=s.post[:300]))
    # classification
    seen_sig = set()
    for s, r, okr, okt in divergences:
        sig = signature_c01(s, r)
        known = report.known_match(sig)
        if known:
            report.known_finding(known, example=op_json(s.op))
            continue
        if sig in seen_sig:
            continue
        seen_sig.add(sig)
        if __import__("os").environ.get("VERIF_DEBUG"):
            print("DIVERGENCE", sig, op_json(s.op), "pre:", s.pre[:120], "impl:", s.outcome, "ref:", r[:100])
        if len(seen_sig) <= 12:
            report.violation(dict(kind="diverges-from-reference", backend=s.backend, signature=sig,
                                  call=op_json(s.op), tree_before=s.pre, implementation=s.outcome,
                                  tree_after=s.post, reference=r, result_agrees=okr, tree_agrees=okt,
                                  theorem="Props/C01.v"))
    # 2a'. the same comparison on FTPFS over a loop-back server (both kinds of server), with its own budget
    ftp_cov, ftp_div = run_c01_ftp(report, thorough)
    ftp_div = ftp_div + run_c01_names(report, ftp_cov)
    ftp_pending = collections.Counter()
    for s, r, okr, okt, sig, hist in ftp_div:
        total += 1
        known = report.known_match(sig)
        if known:
            report.known_finding(known, example=hist)
            continue
        if sig in PENDING_FINDINGS:
            ftp_pending[sig] += 1
            continue
        divergences.append((s, r, okr, okt))
        if sig in seen_sig:
            continue
        seen_sig.add(sig)
        if len(seen_sig) <= 12:
            report.violation(dict(kind="diverges-from-reference", backend=s.backend, signature=sig, history=hist,
                                  call=op_json(s.op), tree_before=s.pre, implementation=s.outcome,
                                  tree_after=s.post, reference=r, result_agrees=okr, tree_agrees=okt,
                                  theorem="Props/C01.v"))
    ftp_cov["pending_findings_seen"] = dict(ftp_pending)
    total += sum(c["steps"] + c["probe_steps"] for c in ftp_cov["backends"].values()) + ftp_cov["name_family"]["steps"]
    # 2b. the stream-taking calls (upload / writefile / download / piecewise reads) on every backend
    st_cov, st_div, st_bulk, st_vseed, st_hs = run_stream_block(report, backs, thorough)
    for s, r, okr, okt, v in st_div:
        sig = signature_c01(s, r) + (" [as %s]" % v[0] if v else " [stream history]")
        known = report.known_match(sig)
        if known:
            report.known_finding(known, example=op_json(s.op))
            continue
        if sig in seen_sig or sig in PENDING_FINDINGS:
            continue
        seen_sig.add(sig)
        if len(seen_sig) <= 12:
            report.violation(dict(kind="stream-call-diverges-from-reference", backend=s.backend, signature=sig,
                                  issued_as=list(v) if v else None, call=op_json(s.op),
                                  history=[op_json(o) for o in st_hs[s.hist_id][:s.index + 1]], hist_index=s.hist_id,
                                  variant_seed=st_vseed, tree_before=s.pre, implementation=s.outcome,
                                  tree_after=s.post, reference=r, result_agrees=okr, tree_agrees=okt,
                                  theorem="Props/C01.v"))
    for d in st_bulk:
        sig = "%s.%s stream=%s stores/delivers other bytes than the stream's" % (d["backend"], d["how"], d["stream"])
        known = report.known_match(sig)
        if known:
            report.known_finding(known, example=d)
            continue
        if sig in seen_sig or sig in PENDING_FINDINGS:
            continue
        seen_sig.add(sig)
        if len(seen_sig) <= 12:
            report.violation(dict(kind="stream-bulk-data-differs", signature=sig, theorem="Props/C01.v", **d))
    divergences = divergences + [x[:4] for x in st_div] + st_bulk
    # 2b'. the text calls (writetext / appendtext / readtext / open in the text modes) with every keyword: oracle io.open
    tx_cov, tx_bad = run_text_block(report, backs, thorough)
    tx_pending = collections.Counter()
    for d in tx_bad:
        sig = text_signature(d)
        known = report.known_match(sig)
        if known:
            report.known_finding(known, example=d["call"])
            continue
        if sig in PENDING_FINDINGS:
            tx_pending[sig] += 1
            continue
        divergences.append(d)
        if sig in seen_sig:
            continue
        seen_sig.add(sig)
        if len(seen_sig) <= 12:
            report.violation(dict(kind="text-call-differs-from-io-open", signature=sig, theorem="Props/C01.v",
                                  **dict((k, repr(v) if k in ("initial_bytes", "steps", "backend_gives", "io_open_gives",
                                                              "keywords") else v) for k, v in d.items())))
    tx_cov["pending_findings_seen"] = dict(tx_pending)
    # 2c. MultiFS over members with content of their own, added before / after first use: the documented search order
    ly_cov, ly_bad = run_layer_block(report, thorough)
    for d in ly_bad:
        sig = "MultiFS(layered, members added while in use).%s answers from another member than the documented " \
              "search order's" % d["query"]
        known = report.known_match(sig)
        if known:
            report.known_finding(known, example=d["path"])
            continue
        if sig in seen_sig or sig in PENDING_FINDINGS:
            continue
        seen_sig.add(sig)
        if len(seen_sig) <= 12:
            report.violation(dict(kind="multifs-layer-order", signature=sig, theorem="Props/C01.v", **d))
    divergences = divergences + ly_bad
    if fidelity_bad or vm_mism:
        if not divergences:
            hi, k, e, g = fidelity_bad[0] if fidelity_bad else (None, None, None, None)
            report.violation(dict(kind="correspondence-broken",
                                  correspondence="real MemoryFS vs FS/Mem.v (extracted)",
                                  history=[op_json(o) for o in (regress + hs)[hi][:k + 1]] if hi is not None else None,
                                  model=e, implementation=g, vm_compute_vs_extraction=vm_mism,
                                  theorem="Props/C01.v C01_mem_refines_ref"), no_input=True)
    cov = dict(evaluations=total, distinct_nontrivial=len(nontrivial),
               rule="random histories from the empty filesystem (length <= %d, shadow-guided paths incl. "
                    "odd spellings), every call on every backend compared with the reference stepped from "
                    "the backend's own pre-state; non-trivial = distinct (call kind, resulting tree) of "
                    "successful state-changing calls" % (40 if thorough else 12),
               samples=samples, traces_validated_against_impl=len(hs) + len(regress) - len(fidelity_bad),
               disagreements_checked=len(divergences), model_fidelity_mismatches=len(fidelity_bad),
               vm_compute_crosschecked=n_vm, per_backend=per_backend,
               distribution={"%s/%s" % k: v for k, v in sorted(dist.items())})
    cov["ftpfs_loopback_server"] = ftp_cov
    cov["stream_calls"] = st_cov
    cov["text_calls"] = tx_cov
    cov["multifs_layers_added_while_in_use"] = ly_cov
    cov["growing_compositions"] = [bc.name for bc in B.GROWING]
    # 3. the OSFS model over the POSIX kernel model (FS/Osfs.v, proved to refine the reference in FS/OsfsProofs.v)
    #    must match the real OSFS step by step; its recorded kernel table is re-checked on the live kernel
    import h_osfs
    cov["osfs_model"] = h_osfs.run_osfs_model_check(report, regress + hs, thorough)
    # 4. one-member MultiFS (proved to refine its member, Route/CompMultiOne.v) and the composites' state models
    #    are tied in the C17 check (harness/h_composite.py)
    return report.finish(proof, cov, assumptions=[
        "OSFS against the real kernel: the OSFS model over FS/Posix.v (kernel answers re-checked per run; no permissions, "
        "symlinks or concurrency in the kernel model); TempFS, archives' temp filesystems and the wrapper kinds other than "
        "SubFS/WrapFS/read_only over MemoryFS are compared with the reference by differential execution only",
        "times are outside the observable tree (names, types, bytes)"])


def load_corpus(pid):
    import os
    p = "/verif/corpus/%s.json" % pid
    if not os.path.exists(p):
        return []
    with open(p) as fh:
        return [[op_from_json(o) for o in h] for h in json.load(fh)]


def run(report):
    return {"C01": run_c01}[report.pid](report)


def replay(report, path):
    with open(path) as fh:
        d = json.load(fh)
    if str(d.get("correspondence", "")).startswith(("real OSFS vs", "this kernel vs")):
        import h_osfs
        return h_osfs.replay(path)
    bc = B.BY_NAME.get(d.get("backend"), B.Mem)
    if d.get("kind") == "spellings-disagree-on-one-object":
        log = [(w, op_from_json(o)) for w, o in d["log"]]
        q = d["query"]
        log += [("w", (q[0], sx) + tuple(q[1:])) for sx in d["spellings"]]
        outs = longlived_replay(bc, log)[-len(d["spellings"]):]
        for sx, r in zip(d["spellings"], outs):
            print("replay", bc.name, q[0], repr(sx), "->", r)
        return 1 if len(set(outs)) > 1 else 0
    if d.get("kind") == "start-path-spellings-disagree":
        bc2 = dict((c.name, c) for c in start_path_backends(True))[d["backend"]]
        queries, _u = start_path_queries(random.Random(d["block_seed"]), d["tier"] == "thorough")
        label, runq = queries[d["query_index"]]
        b, fsx = start_path_object(bc2, [op_from_json(o) for o in d["history"]])
        try:
            outs = [_start_answer(fsx, runq, sx) for sx in d["spellings"]]
        finally:
            b.close()
        for sx, r in zip(d["spellings"], outs):
            print("replay", bc2.name, label, repr(sx), "->", r[:300])
        return 1 if len(set(outs)) > 1 else 0
    if d.get("kind") == "mount-point-spellings-disagree":
        n = len(d["existing_mounts"])
        a, b2 = mount_observe(d["spelling_a"], n), mount_observe(d["spelling_b"], n)
        print("replay MountFS with mounts", d["existing_mounts"], ": mount(%r) ->" % d["spelling_a"], a[0], a[1],
              "| mount(%r) ->" % d["spelling_b"], b2[0], b2[1], "| same routing afterwards:", a[2:] == b2[2:])
        return 1 if a != b2 else 0
    if d.get("kind") == "spellings-disagree-on-read-only-archive":
        bc2 = dict((c.name, c) for c in [ReadZip, ReadTar] + C10_HETERO)[d["backend"]]
        b = bc2()
        try:
            b.make()
            fsx = b.load([op_from_json(o) for o in d["history"]])
            q = d["query"]
            outs = [exec_q(fsx, (q[0], sx) + tuple(q[1:])) for sx in d["spellings"]]
        finally:
            b.close()
        for sx, r in zip(d["spellings"], outs):
            print("replay", bc2.name, q[0], repr(sx), "->", r[:200])
        return 1 if len(set(outs)) > 1 else 0
    if d.get("kind") == "aliased-name-data-destroyed":
        _n, res = run_alias_family(True)
        hit = [r for r in res if (r["call"], r["src"], r["dst"]) == (d["call"], d["src"], d["dst"])]
        for r in hit:
            print("replay OSFS", r["call"], r["src"], "->", r["dst"], ":", r["outcome"], "| files that lost their bytes:",
                  r["files_that_lost_their_bytes"], "| source content nowhere:",
                  r["source_content_neither_at_source_nor_destination"])
        return 1 if hit else 0
    if d.get("kind") == "transfer-family-data-destroyed-or-not-delivered":
        th = d["tier"] == "thorough"
        st = run_xdev(xdev_cases(th)[d["case_index"]]) if d["family"] == "cross-device" \
            else run_small_dst(small_dst_cases(th)[d["case_index"]])
        v = common.run_model(preserved_lines([st]))[0]
        print("replay", st.backend, st.op, "->", st.outcome, "| preserved2:", v, "\n  before:", st.pre[:600],
              "\n  after: ", st.post[:600])
        return 1 if v != "T" or st.outcome.startswith("crash:NonTermination") else 0
    if d.get("kind") == "raised-exception-does-not-render":
        _steps, log = run_rendered(bc, [[op_from_json(o) for o in d["history"]]])
        for hi, k, cls, fails in log:
            print("replay", bc.name, d["history"][k][:1], "raises", cls, "which does not render:", fails)
        return 1 if log else 0
    if d.get("kind") == "multifs-layer-order":
        n, bad = layer_case(d["case_seed"], d["case_index"])
        for x in bad:
            print("replay MultiFS", x["log"], "\n  ", x["query"], x["path"], "documented owner", x["documented_owner"],
                  "answers", x["owner_answers"], "| MultiFS answers", x["multifs_answers"])
        print("replay: %d comparisons, %d disagreements" % (n, len(bad)))
        return 1 if bad else 0
    if d.get("kind") == "text-call-differs-from-io-open":
        cases, _u = text_cases(d["case_seed"], d["tier"] == "thorough")
        i = d["case_index"]
        bad = [x for x in run_text_backend(bc, cases, text_reference(cases, only=i))]
        print("replay", bc.name, "initial bytes", repr(cases[i][0]), "calls", cases[i][1])
        for x in bad:
            print("  call", x["call"], "\n    backend:", x["backend_gives"], "\n    io.open:", x["io_open_gives"])
        return 1 if bad else 0
    if d.get("kind") == "stream-bulk-data-differs":
        b = bc()
        try:
            fsx = b.make()
            data = BULK if d["size"] == len(BULK) else BULK2
            var = (d["how"], d["stream"], d["step"], d["chunk_size"])
            if d["how"] in ("download", "open_pieces"):
                fsx.writebytes("bulk", data)
                out = exec_stream(fsx, ("readbytes", "bulk"), var)
                ok = out == "ok:" + common.r_bytes(data)
            else:
                out = exec_stream(fsx, ("writebytes", "bulk", data), var)
                ok = out == "ok:U" and fsx.readbytes("bulk") == data
            print("replay", bc.name, var, "->", out[:60], "| all %d bytes arrived:" % len(data), ok)
        finally:
            b.close()
        return 0 if ok else 1
    if d.get("kind") == "stream-call-diverges-from-reference":
        h = [op_from_json(o) for o in d["history"]]
        steps = run_histories(bc, [h], execute=lambda fsx, o, _hi, k: exec_stream(
            fsx, o, stream_variant(d["variant_seed"], d["hist_index"], k, o)))
    elif d.get("history"):
        h = [op_from_json(o) for o in d["history"]]
        steps = run_histories(bc, [h])
    else:
        # rebuild the pre-state is not possible in general: replay the single call on a tree
        # re-created from the snapshot
        h = [op_from_json(d["call"])]
        b = bc()
        fs = b.make()
        for p, kind, data in fsops.tree_paths(d["tree_before"]):
            if kind == "D":
                fs.makedirs(p, recreate=True)
            else:
                fs.writebytes(p, bytes(bytearray(int(x) for x in data[1:].split(","))) if len(data) > 1 else b"")
        pre = b.snapshot()
        out = fsops.execute(fs, h[0])
        steps = [Step(bc.name, 0, 0, h[0], pre, out, b.snapshot())]
        b.close()
    refs = ref_steps(steps)
    bad = 0
    for s, r in zip(steps, refs):
        okr, okt = agrees2(s, r)
        if d.get("property") == "C06" and s.outcome == "err:InvalidPath" and any(
                isinstance(x, str) and too_long_for(bc, x) for x in s.op[1:3]):
            okr = True      # "InvalidPath: if path is too long" holds for this storage (see run_c06)
        print("replay", s.backend, [x if not isinstance(x, str) or len(x) < 200 else x[:60] + "...(%d characters)" % len(x)
                                    for x in s.op], "->", s.outcome, "| reference:", r.split("#")[0], "| agree:", okr, okt)
        bad += (not (okr and okt))
    return 1 if bad else 0


# ------------------------------------------------------------------ shared evaluation

def preserved_lines(steps):
    lines = []
    for s in steps:
        ok = "1" if s.outcome.startswith("ok:") else "0"
        if s.post.startswith("SNAPFAIL"):
            s = s._replace(post=s.pre)
        lines.append("fs preserved2 " + " ".join(tree_tokens(s.pre) + tree_tokens(s.post) + [ok] + fsops.encode(s.op)))
    return lines


TRANSFER = ("move", "copy", "movedir", "copydir", "removetree")
SINGLE = ("getinfo", "listdir", "scandir", "makedir", "writebytes", "appendbytes", "readbytes", "create",
          "touch", "openwrite", "openread", "remove", "removedir", "move", "copy", "setinfo", "exists",
          "isdir", "isfile", "isempty", "getsize", "gettype")


def generic_finish(report, proof, total, nontrivial, samples, extra, assumptions):
    cov = dict(evaluations=total, distinct_nontrivial=len(nontrivial), samples=samples)
    cov.update(extra)
    return report.finish(proof, cov, assumptions=assumptions)


# ------------------------------------------------------------------ C05

def combined_snapshot(sb, db, same_storage=None):
    if same_storage is not None:
        return same_storage()
    return "D@N{s83:" + sb.snapshot() + ";s68:" + db.snapshot() + "}"


def cross_cases(rnd, n):
    """(setup history for src, setup history for dst, function name, args)"""
    out = []
    for _ in range(n):
        gs = genhist.Gen(rnd, odd=0.05, spell=0.0)
        hs = [gs.setup_op() for _ in range(rnd.randint(1, 7))]
        for o in hs:
            fsops.execute(gs.shadow, o)
        gd = genhist.Gen(rnd, odd=0.05, spell=0.0)
        hd = [gd.setup_op() for _ in range(rnd.randint(0, 5))]
        for o in hd:
            fsops.execute(gd.shadow, o)
        fn = rnd.choice(["move_file", "copy_file", "move_dir", "copy_dir", "move_fs", "copy_fs",
                         "copy_file", "move_file"])
        if fn in ("move_file", "copy_file"):
            a = (gs.path(rnd.choice(["file", "file", "file", "dir", "new"])),
                 gd.path(rnd.choice(["new", "new", "file", "dir", "belowfile", "noparent", "root"])))
        elif fn in ("move_dir", "copy_dir"):
            a = (gs.path(rnd.choice(["dir", "dir", "dir", "file", "new", "root"])),
                 gd.path(rnd.choice(["new", "dir", "dir", "file", "root", "noparent"])))
        else:
            a = ("/", "/")
        out.append((hs, hd, fn, a, rnd.random() < 0.3))
    return out


def run_cross(case, kinds, workers=0, flip_pt=False):
    """Execute one cross-filesystem transfer; returns a Step over the combined tree.  workers > 0: the directory
    functions copy with that many real threads (outcome class and `preserved` do not depend on the schedule)."""
    import fs.move
    import fs.copy
    hs, hd, fn, (sp, dp), pt = case
    pt = (not pt) if flip_pt else pt
    sb = kinds[0]()
    db = kinds[1]()
    try:
        sfs = sb.make()
        dfs = db.make()
        for o in hs:
            fsops.execute(sfs, o)
        for o in hd:
            fsops.execute(dfs, o)
        pre = combined_snapshot(sb, db)
        call = {"move_file": lambda: fs.move.move_file(sfs, sp, dfs, dp, preserve_time=pt),
                "copy_file": lambda: fs.copy.copy_file(sfs, sp, dfs, dp, preserve_time=pt),
                "move_dir": lambda: fs.move.move_dir(sfs, sp, dfs, dp, workers=workers, preserve_time=pt),
                "copy_dir": lambda: fs.copy.copy_dir(sfs, sp, dfs, dp, workers=workers, preserve_time=pt),
                "move_fs": lambda: fs.move.move_fs(sfs, dfs, workers=workers, preserve_time=pt),
                "copy_fs": lambda: fs.copy.copy_fs(sfs, dfs, workers=workers, preserve_time=pt)}[fn]
        import signal
        old = signal.signal(signal.SIGALRM, fsops._alarm)
        signal.alarm(5)
        try:
            try:
                call()
                out = "ok:U"
            except fsops.Timeout:
                out = "crash:NonTermination"
            except Exception as e:  # noqa
                out = common.exc_name(e)
        finally:
            signal.alarm(0)
            signal.signal(signal.SIGALRM, old)
        post = combined_snapshot(sb, db)
    finally:
        sb.close()
        db.close()
    S, D = "S/" + sp.lstrip("/"), "D/" + dp.lstrip("/")
    op = {"move_file": ("move", S, D, True, pt), "copy_file": ("copy", S, D, True, pt),
          "move_dir": ("movedir", S, D, True, pt), "copy_dir": ("copydir", S, D, True, pt),
          "move_fs": ("movedir", "S", "D", True, pt), "copy_fs": ("copydir", "S", "D", True, pt)}[fn]
    name = "%s%s(%s -> %s)" % (fn, "[workers=%d]" % workers if workers else "", sb.name, db.name)
    return Step(name, 0, 0, op, pre, out, post), (fn, sp, dp, pt)


def transfer_relation(step):
    """Narrow class of a failing transfer: used as the known-finding signature."""
    import fs.path as P
    o = step.op
    if o[0] not in ("move", "copy", "movedir", "copydir"):
        return None
    try:
        a, b = P.abspath(P.normpath(o[1])), P.abspath(P.normpath(o[2]))
    except Exception:
        return None
    if a == b:
        return "source and destination are the same resource (reached through two filesystem objects)" \
            if "->" in step.backend else None
    if P.isbase(a, b) and "->" in step.backend and o[0] in ("movedir", "copydir"):
        return "destination inside the source, reached through two filesystem objects (no IllegalDestination, runs away)"
    if P.isbase(b, a) and o[0] in ("movedir", "copydir"):
        # destination is an ancestor of the source: does the source contain an entry that lands on the source itself?
        rest = P.frombase(b if b != "/" else "/", a).strip("/").split("/")
        names = set(p2[len(a):].strip("/").split("/")[0] for p2, _k, _d in fsops.tree_paths(step.pre)
                    if p2.startswith(a.rstrip("/") + "/"))
        if rest and rest[0] in names:
            return "destination is an ancestor of the source and the source contains an entry named like its own path component"
    return None


def view_cases(rnd, n):
    """Transfers between two filesystem objects over ONE storage (a filesystem and its SubFS view, two
    SubFS views, two OSFS on one directory)."""
    out = []
    for _ in range(n):
        g = genhist.Gen(rnd, odd=0.0, spell=0.0)
        hist = [g.setup_op() for _ in range(rnd.randint(2, 8))]
        for o in hist:
            fsops.execute(g.shadow, o)
        files, dirs = g.existing()
        kind = rnd.choice(["mem", "mem", "os", "os2"])
        sv = rnd.choice(dirs)
        dv = rnd.choice(dirs)
        fn = rnd.choice(["copy_file", "move_file", "copy_file", "move_file", "copy_dir", "move_dir"])

        def rel_to(view, cands):
            inside = [c for c in cands if c == view or c.startswith(view.rstrip("/") + "/")]
            c = rnd.choice(inside) if inside else None
            return None if c is None else "/" + c[len(view.rstrip("/")):].lstrip("/")
        if fn in ("copy_file", "move_file"):
            sp = rel_to(sv, files)
            dp = rel_to(dv, files + [d.rstrip("/") + "/new" for d in dirs]) if rnd.random() < 0.8 else "/newfile"
            if sp is not None and rnd.random() < 0.3:      # the very same file through the other view
                full = sv.rstrip("/") + "/" + sp.lstrip("/")
                if full == dv or full.startswith(dv.rstrip("/") + "/"):
                    dp = "/" + full[len(dv.rstrip("/")):].lstrip("/")
        else:
            sp = rel_to(sv, [d for d in dirs if d != "/"])
            dp = rel_to(dv, dirs) if rnd.random() < 0.7 else "/newdir"
        if sp is None or dp is None:
            continue
        out.append((hist, kind, sv, dv, fn, sp, dp))
    return out


def run_view(case, workers=0, pt=False):
    import shutil
    import tempfile
    import fs.move
    import fs.copy
    from fs.memoryfs import MemoryFS
    from fs.osfs import OSFS
    hist, kind, sv, dv, fn, sp, dp = case
    tmp = None
    if kind == "mem":
        parent = MemoryFS()
        snap = lambda: fsops.snap_memoryfs(parent)
        second = parent
    else:
        tmp = tempfile.mkdtemp(prefix="pyfs2verif_")
        parent = OSFS(tmp)
        snap = lambda: B.snap_os(tmp)
        second = OSFS(tmp) if kind == "os2" else parent
    try:
        for o in hist:
            fsops.execute(parent, o)
        sfs = parent if sv == "/" else parent.opendir(sv)
        dfs = second if dv == "/" else second.opendir(dv)
        pre = snap()
        call = {"move_file": lambda: fs.move.move_file(sfs, sp, dfs, dp, preserve_time=pt),
                "copy_file": lambda: fs.copy.copy_file(sfs, sp, dfs, dp, preserve_time=pt),
                "move_dir": lambda: fs.move.move_dir(sfs, sp, dfs, dp, workers=workers, preserve_time=pt),
                "copy_dir": lambda: fs.copy.copy_dir(sfs, sp, dfs, dp, workers=workers, preserve_time=pt)}[fn]
        import signal
        old = signal.signal(signal.SIGALRM, fsops._alarm)
        signal.alarm(5)
        try:
            try:
                call()
                out = "ok:U"
            except fsops.Timeout:
                out = "crash:NonTermination"
            except Exception as e:  # noqa
                out = common.exc_name(e)
        finally:
            signal.alarm(0)
            signal.signal(signal.SIGALRM, old)
        try:
            post = snap()
        except RecursionError:
            post = "SNAPFAIL:RecursionError (tree nested beyond the interpreter's recursion limit)"
    finally:
        try:
            parent.close()
            if second is not parent:
                second.close()
        except Exception:
            pass
        if tmp:
            common.rm_rf(tmp)
    S = sv.rstrip("/") + "/" + sp.lstrip("/")
    D = dv.rstrip("/") + "/" + dp.lstrip("/")
    op = {"move_file": ("move", S, D, True, pt), "copy_file": ("copy", S, D, True, pt),
          "move_dir": ("movedir", S, D, True, pt), "copy_dir": ("copydir", S, D, True, pt)}[fn]
    tag = "[workers=%d%s]" % (workers, ",preserve_time" if pt else "") if (workers or pt) else ""
    return Step("%s%s(view %s -> view %s of one %s)" % (fn, tag, sv, dv, kind), 0, 0, op, pre, out, post), \
        (fn, sp, dp, pt)


def same_resource_loss(step):
    """Complement of FS/Props.v `preserved` for source == destination (ONE resource named twice, same object): the
    predicate exempts the destination files of a copydir / the source of a movedir and takes `delivered` for granted
    when the two paths are equal, so it accepts a copy of a directory onto itself that empties every file.  The
    property: nothing is 'overwritten by other content' here, so after a copy (returning or raising) and after a move
    that returns, every file below the path still has its bytes.  Returns a description of the loss or None."""
    import fs.path as P
    o = step.op
    if o[0] not in ("move", "copy", "movedir", "copydir") or "->" in step.backend or step.post.startswith("SNAPFAIL"):
        return None
    try:
        a, b = P.abspath(P.normpath(o[1])), P.abspath(P.normpath(o[2]))
    except Exception:  # noqa
        return None
    if a != b or (o[0] in ("move", "movedir") and not step.outcome.startswith("ok:")):
        return None
    after = dict((p2, d) for p2, k, d in fsops.tree_paths(step.post) if k == "F")
    lost = [p2 for p2, k, d in fsops.tree_paths(step.pre)
            if k == "F" and (p2 == a or a == "/" or p2.startswith(a.rstrip("/") + "/")) and after.get(p2) != d]
    return ("%s of a resource onto itself %s and %d file(s) lost their bytes: %s"
            % (o[0], "returned" if step.outcome.startswith("ok:") else "raised", len(lost), lost[:4])) if lost else None


def same_object_cases(rnd, n):
    """fs.copy / fs.move functions with ONE filesystem object as source and destination and a degenerate relation
    between the two paths (equal in several spellings, destination inside / an ancestor of the source, an existing
    sibling, a new name), single-threaded and with worker threads."""
    out = []
    eq_spell = [lambda p: p, lambda p: p.lstrip("/") or "/", lambda p: p.rstrip("/") + "/", lambda p: p.rstrip("/") + "/.",
                lambda p: "./" + p.lstrip("/"), lambda p: "/" + p.strip("/").replace("/", "//")]
    for _ in range(n):
        g = genhist.Gen(rnd, odd=0.0, spell=0.0)
        hist = [g.setup_op() for _ in range(rnd.randint(3, 9))]
        for o in hist:
            fsops.execute(g.shadow, o)
        files, dirs = g.existing()
        d0 = rnd.choice(dirs).rstrip("/")        # some directory holds files at two depths
        hist += [("writebytes", d0 + "/a.b", b"one"), ("makedirs", d0 + "/ab/c", True),
                 ("writebytes", d0 + "/ab/c/a", b"two"), ("writebytes", d0 + "/ab/b", b"")]
        for o in hist[-4:]:
            fsops.execute(g.shadow, o)
        files, dirs = g.existing()
        kind = rnd.choice(["mem", "os", "submem", "subos"])
        view = rnd.choice(dirs) if kind.startswith("sub") else "/"
        if kind.startswith("sub") and view == "/":
            kind = kind[3:]
        inside = lambda cands: ["/" + c[len(view.rstrip("/")):].lstrip("/") for c in cands
                                if c == view or c.startswith(view.rstrip("/") + "/")]
        vdirs, vfiles = inside(dirs), inside(files)
        fn = rnd.choice(["copy_dir", "move_dir", "copy_dir", "move_dir", "copy_fs", "move_fs", "copy_file", "move_file"])
        rel = rnd.choice(["equal", "equal", "equal", "inside", "ancestor", "sibling", "new"])
        if fn in ("copy_fs", "move_fs"):
            sp = dp = "/"
        elif fn in ("copy_dir", "move_dir"):
            nonroot = [d for d in vdirs if d != "/"]
            sp = rnd.choice(nonroot) if nonroot and rnd.random() < 0.8 else rnd.choice(vdirs)
            sub = [d for d in vdirs if d != sp and d.startswith(sp.rstrip("/") + "/")]
            dp = {"equal": rnd.choice(eq_spell)(sp),
                  "inside": rnd.choice(sub) if sub and rnd.random() < 0.5 else sp.rstrip("/") + "/new",
                  "ancestor": (sp.rsplit("/", 1)[0] or "/") if rnd.random() < 0.7 else "/",
                  "sibling": rnd.choice(vdirs), "new": rnd.choice(vdirs).rstrip("/") + "/new"}[rel]
        else:
            if not vfiles:
                continue
            sp = rnd.choice(vfiles)
            dp = {"equal": rnd.choice(eq_spell)(sp), "inside": sp + "/new", "ancestor": sp.rsplit("/", 1)[0] or "/",
                  "sibling": rnd.choice(vfiles), "new": rnd.choice(vdirs).rstrip("/") + "/new"}[rel]
        if rel != "equal" and sp.rstrip("/") == dp.rstrip("/"):
            rel = "equal"
        out.append((hist, kind, view, fn, sp, dp, rel, rnd.choice([0, 1, 4]), rnd.random() < 0.4))
    return out


def _guarded(call):
    import signal
    old = signal.signal(signal.SIGALRM, fsops._alarm)
    signal.alarm(5)
    try:
        try:
            call()
            return "ok:U"
        except fsops.Timeout:
            return "crash:NonTermination"
        except Exception as e:  # noqa
            return common.exc_name(e)
    finally:
        signal.alarm(0)
        signal.signal(signal.SIGALRM, old)


def run_same(case):
    import tempfile
    import fs.move
    import fs.copy
    import fs.path as P
    from fs.memoryfs import MemoryFS
    from fs.osfs import OSFS
    hist, kind, view, fn, sp, dp, rel, workers, pt = case
    tmp = None
    if kind.endswith("mem"):
        parent = MemoryFS()
        snap = lambda: fsops.snap_memoryfs(parent)
    else:
        tmp = tempfile.mkdtemp(prefix="pyfs2verif_")
        parent = OSFS(tmp)
        snap = lambda: B.snap_os(tmp)
    try:
        for o in hist:
            fsops.execute(parent, o)
        one = parent if view == "/" else parent.opendir(view)
        pre = snap()
        call = {"move_file": lambda: fs.move.move_file(one, sp, one, dp, preserve_time=pt),
                "copy_file": lambda: fs.copy.copy_file(one, sp, one, dp, preserve_time=pt),
                "move_dir": lambda: fs.move.move_dir(one, sp, one, dp, workers=workers, preserve_time=pt),
                "copy_dir": lambda: fs.copy.copy_dir(one, sp, one, dp, workers=workers, preserve_time=pt),
                "move_fs": lambda: fs.move.move_fs(one, one, workers=workers, preserve_time=pt),
                "copy_fs": lambda: fs.copy.copy_fs(one, one, workers=workers, preserve_time=pt)}[fn]
        out = _guarded(call)
        try:
            post = snap()
        except RecursionError:
            post = "SNAPFAIL:RecursionError (tree nested beyond the interpreter's recursion limit)"
    finally:
        try:
            parent.close()
        except Exception:  # noqa
            pass
        if tmp:
            common.rm_rf(tmp)
    try:
        S = P.join(view, P.relpath(P.normpath(sp)))
        D = P.join(view, P.relpath(P.normpath(dp)))
    except Exception:  # noqa
        S, D = view.rstrip("/") + "/" + sp.lstrip("/"), view.rstrip("/") + "/" + dp.lstrip("/")
    op = {"move_file": ("move", S, D, True, pt), "copy_file": ("copy", S, D, True, pt),
          "move_dir": ("movedir", S, D, True, pt), "copy_dir": ("copydir", S, D, True, pt),
          "move_fs": ("movedir", S, D, True, pt), "copy_fs": ("copydir", S, D, True, pt)}[fn]
    name = "%s[workers=%d%s](one %s object%s, destination %s)" % (
        fn, workers, ",preserve_time" if pt else "", kind, " on " + view if view != "/" else "", rel)
    return Step(name, 0, 0, op, pre, out, post), (fn, sp, dp, pt)


# ---- C05 on OSFS: two NAMES for one file.  A hard link (a `cp -al` snapshot directory), a symbolic link to a file, a
# symbolic link to a directory (used as destination directory, as another name of the source directory, inside a
# directory that is moved / copied / removed).  The predicate over trees cannot express shared storage, so the oracle
# works on (name -> inode, bytes) tables taken through os.*.

ALIAS_FILES = [("data/report.txt", b"quarterly report\n" * 30), ("data/raw/values.bin", bytes(bytearray(range(256))) * 3),
               ("data/raw/notes.txt", b"some notes"), ("data/zero", b""), ("other/keep.txt", b"keep me"),
               ("holder/plain.txt", b"plain file"), ("holder/deep/x.txt", b"deep x")]


def build_alias_tree(d):
    import os
    root, outside = os.path.join(d, "root"), os.path.join(d, "outside")
    for rel, data in ALIAS_FILES:
        p = os.path.join(root, rel)
        if not os.path.isdir(os.path.dirname(p)):
            os.makedirs(os.path.dirname(p))
        with open(p, "wb") as fh:
            fh.write(data)
        if rel.startswith("data/"):                     # snap/ = hard-link snapshot of data/
            q = os.path.join(root, "snap", rel[5:])
            if not os.path.isdir(os.path.dirname(q)):
                os.makedirs(os.path.dirname(q))
            os.link(p, q)
    os.makedirs(outside)
    with open(os.path.join(outside, "canary.txt"), "wb") as fh:
        fh.write(b"outside canary")
    os.symlink("report.txt", os.path.join(root, "data", "latest.txt"))       # symlink to a file, same directory
    os.symlink("other", os.path.join(root, "dlink"))                         # symlink to a directory
    os.symlink("data", os.path.join(root, "dself"))                          # a second name of the directory data/
    os.symlink(outside, os.path.join(root, "olink"))                         # symlink to a directory outside the root
    os.symlink("../other", os.path.join(root, "holder", "inner"))            # directory symlink inside a directory
    os.symlink("../data/report.txt", os.path.join(root, "holder", "flink"))  # file symlink inside a directory
    return root, outside


def alias_table(root, outside):
    """name -> ('F', inode, bytes) | ('L', target) for directory symlinks | ('?',) broken; directories are implied."""
    import os
    out = {}
    for base, label in ((root, ""), (outside, "<outside>/")):
        for dirpath, dirnames, filenames in os.walk(base):
            rel = os.path.relpath(dirpath, base)
            rel = "" if rel == "." else rel + "/"
            for n in dirnames:
                p = os.path.join(dirpath, n)
                if os.path.islink(p):
                    out[label + rel + n] = ("L", os.readlink(p))
            for n in filenames:
                p = os.path.join(dirpath, n)
                try:
                    st = os.stat(p)
                    with open(p, "rb") as fh:      # 'f': the name is a symbolic link to the file
                        out[label + rel + n] = ("f" if os.path.islink(p) else "F", (st.st_dev, st.st_ino), fh.read())
                except OSError:
                    out[label + rel + n] = ("?",)
    return out


def alias_calls(thorough):
    """(label, kind, src, dst, runner(fs, root)) for every move / copy / removetree entry point."""
    import fs.copy
    import fs.move
    from fs.osfs import OSFS
    calls = []
    fpairs = [("data/report.txt", "snap/report.txt"), ("snap/raw/notes.txt", "data/raw/notes.txt"),
              ("data/report.txt", "data/latest.txt"), ("data/latest.txt", "data/report.txt"),
              ("data/report.txt", "dself/report.txt"), ("dself/raw/values.bin", "snap/raw/values.bin"),
              ("data/raw/notes.txt", "snap/report.txt"), ("other/keep.txt", "data/latest.txt"),
              ("holder/flink", "snap/report.txt"), ("data/zero", "snap/zero")]
    for s, d in fpairs:
        for ow in (True, False):
            for pt in ((False, True) if thorough or ow else (False,)):
                kw = dict(overwrite=ow, preserve_time=pt)
                tag = "overwrite=%s,preserve_time=%s" % (ow, pt)
                calls.append(("FS.copy(%s)" % tag, "copy", s, d, lambda f, r, s=s, d=d, kw=kw: f.copy(s, d, **kw)))
                calls.append(("FS.move(%s)" % tag, "move", s, d, lambda f, r, s=s, d=d, kw=kw: f.move(s, d, **kw)))
        for pt in (False, True):
            calls.append(("copy_file(preserve_time=%s)" % pt, "copy", s, d,
                          lambda f, r, s=s, d=d, pt=pt: fs.copy.copy_file(f, s, f, d, preserve_time=pt)))
            calls.append(("move_file(preserve_time=%s)" % pt, "move", s, d,
                          lambda f, r, s=s, d=d, pt=pt: fs.move.move_file(f, s, f, d, preserve_time=pt)))

        def two(f, r, s=s, d=d, mv=False):
            with OSFS(r) as g:
                (fs.move.move_file if mv else fs.copy.copy_file)(f, s, g, d)
        calls.append(("copy_file(two OSFS objects on the root)", "copy", s, d, two))
        calls.append(("move_file(two OSFS objects on the root)", "move", s, d,
                      lambda f, r, two=two: two(f, r, mv=True)))
        top = s.split("/")[0]
        if d.startswith(top + "/"):            # both names inside one directory: through a SubFS
            s2, d2 = s[len(top) + 1:], d[len(top) + 1:]
            calls.append(("SubFS.copy(overwrite=True)", "copy", s, d,
                          lambda f, r, top=top, s2=s2, d2=d2: f.opendir(top).copy(s2, d2, overwrite=True)))
            calls.append(("SubFS.move(overwrite=True)", "move", s, d,
                          lambda f, r, top=top, s2=s2, d2=d2: f.opendir(top).move(s2, d2, overwrite=True)))
    dpairs = [("data", "snap"), ("snap", "data"), ("data", "dself"), ("data", "dlink"), ("data", "olink"),
              ("data/raw", "snap/raw"), ("data/raw", "dself/raw"), ("holder", "snap"), ("holder", "newdir"),
              ("other", "dlink"), ("data", "holder/inner")]
    for s, d in dpairs:
        for pt in (False, True):
            calls.append(("FS.copydir(create=True,preserve_time=%s)" % pt, "copydir", s, d,
                          lambda f, r, s=s, d=d, pt=pt: f.copydir(s, d, create=True, preserve_time=pt)))
            calls.append(("FS.movedir(create=True,preserve_time=%s)" % pt, "movedir", s, d,
                          lambda f, r, s=s, d=d, pt=pt: f.movedir(s, d, create=True, preserve_time=pt)))
        for w in (0, 2):
            calls.append(("copy_dir(workers=%d)" % w, "copydir", s, d,
                          lambda f, r, s=s, d=d, w=w: fs.copy.copy_dir(f, s, f, d, workers=w)))
            calls.append(("move_dir(workers=%d)" % w, "movedir", s, d,
                          lambda f, r, s=s, d=d, w=w: fs.move.move_dir(f, s, f, d, workers=w)))
    for p in ("holder", "snap", "dlink", "data", "olink", "dself", "holder/inner", "/"):
        calls.append(("FS.removetree", "removetree", p, None, lambda f, r, p=p: f.removetree(p)))
    return calls


def run_alias_family(thorough):
    """Returns (number of calls, list of dict(label, kind, src, dst, outcome, lost=[...], symlink_target=bool))."""
    import os
    import tempfile
    from fs.osfs import OSFS
    results = []
    n = 0
    for label, kind, src, dst, runner in alias_calls(thorough):
        d = tempfile.mkdtemp(prefix="pyfs2verif_")
        try:
            root, outside = build_alias_tree(d)
            pre = alias_table(root, outside)
            under = lambda name, top: not name.startswith("<outside>/") and (
                top == "/" or name == top or name.startswith(top.rstrip("/") + "/"))
            # what the call names explicitly
            if kind in ("copy", "move"):
                src_files = [("", pre[src][2])] if pre.get(src, ("?",))[0] in "Ff" else []
            elif kind in ("copydir", "movedir"):
                src_files = [(nm[len(src):], v[2]) for nm, v in pre.items() if v[0] in "Ff" and under(nm, src) and nm != src]
            else:
                src_files = []
            dest_inodes = set()
            for rel, _data in src_files:
                try:
                    st = os.stat(os.path.join(root, dst + rel))
                    dest_inodes.add((st.st_dev, st.st_ino))
                except OSError:
                    pass
            src_by_inode = {}
            for rel, data in src_files:
                try:
                    st = os.stat(os.path.join(root, dst + rel))
                    src_by_inode[(st.st_dev, st.st_ino)] = data
                except OSError:
                    pass
            with OSFS(root) as fsx:
                out = _guarded(lambda: runner(fsx, root))
            post = alias_table(root, outside)
            n += 1
            lost = []
            for nm, v in sorted(pre.items()):
                if v[0] != "F":
                    continue
                if kind in ("move", "movedir") and under(nm, src):
                    continue                    # the moved source
                if kind == "removetree" and under(nm, src):
                    continue                    # the contents of the directory explicitly removed
                if v[1] in dest_inodes and src_by_inode.get(v[1]) != v[2]:
                    continue                    # a destination file explicitly overwritten (with other content)
                w = post.get(nm)            # (a name that was a link to a file is not itself a file: not judged)
                if w is None or w[0] not in "Ff" or w[2] != v[2]:
                    lost.append(nm)
            # moved / copied content is at the source or at the destination, whatever the outcome
            undelivered = []
            for rel, data in src_files:
                here = [post.get(src + rel)]
                try:
                    with open(os.path.join(root, dst + rel), "rb") as fh:
                        here.append(("F", None, fh.read()))
                except OSError:
                    pass
                if not any(x is not None and x[0] in "Ff" and x[2] == data for x in here):
                    undelivered.append(src + rel)
            if lost or undelivered or out.startswith("crash:NonTermination"):
                # the known removetree defect (the walk follows directory symlinks), also as the second phase of a movedir
                has_dir_link = any(v[0] == "L" and under(nm, src) for nm, v in pre.items())
                sym = bool(lost) and not undelivered and all(not under(nm, src) for nm in lost) and (
                    kind == "removetree" or (kind == "movedir" and has_dir_link and not any(
                        under(nm, dst) for nm in lost)))
                results.append(dict(call=label, operation=kind, src=src, dst=dst, outcome=out, files_that_lost_their_bytes=lost,
                                    source_is_link=pre.get(src, ("?",))[0] == "f",
                                    source_content_neither_at_source_nor_destination=undelivered,
                                    removetree_through_symlink=sym))
        finally:
            import shutil
            shutil.rmtree(d, ignore_errors=True)
            if os.path.exists(d):
                common.rm_rf(d)
    return n, results


# ---- C05 across DEVICES.  os.rename() cannot move between two mounted devices (EXDEV): FS.move's rename shortcut must
# fall back to copy + remove there, with the same checks.  /tmp and /dev/shm are two devices on the usual Linux machine
# (verified through st_dev; the family is skipped quietly otherwise).  Two layouts: two OSFS objects, one per device
# (fs.move / fs.copy functions; move_file goes through OSFS(common ancestor).move), and ONE OSFS whose tree reaches the
# other device through a directory symlink (FS.move / copy / movedir / copydir with every flag).

XDEV_DIRS = ("/tmp", "/dev/shm")
XDEV_SRC = [("f", b"source f"), ("d/g", b"G in d"), ("d/e/h", b"H"), ("d/f", b"d's own f"), ("z", b"")]
XDEV_DST_STATES = ["missing", "file", "emptydir", "dir", "dirsame", "belowfile", "noparent"]


def xdev_available():
    import os
    try:
        return all(os.path.isdir(d) and os.access(d, os.W_OK) for d in XDEV_DIRS) and \
            os.stat(XDEV_DIRS[0]).st_dev != os.stat(XDEV_DIRS[1]).st_dev
    except OSError:
        return False


def _plant(root, files):
    import os
    for rel, data in files:
        p = os.path.join(root, rel)
        if not os.path.isdir(os.path.dirname(p)):
            os.makedirs(os.path.dirname(p))
        with open(p, "wb") as fh:
            fh.write(data)


def xdev_dst(root, state, srcname):
    """Prepare the destination side; returns the destination path (relative to root)."""
    import os
    _plant(root, [("keep.txt", b"unrelated, keep"), ("other/keep2", b"keep2")])
    if state == "missing":
        return "t"
    if state == "file":
        _plant(root, [("t", b"old t")])
        return "t"
    if state == "emptydir":
        os.mkdir(os.path.join(root, "t"))
        return "t"
    if state == "dir":          # a directory with content of its own (other names than the source's)
        _plant(root, [("t/inner", b"inner"), ("t/sub/deep", b"deep")])
        return "t"
    if state == "dirsame":      # a directory holding entries named like the source and like the source's entries
        _plant(root, [("t/" + srcname, b"same-named file inside t"), ("t/g", b"t's g"), ("t/e/h", b"t's h"), ("t/x", b"x")])
        return "t"
    if state == "belowfile":
        _plant(root, [("tf", b"a file")])
        return "tf/t"
    if state == "noparent":
        return "np/t"
    raise ValueError(state)


def xdev_cases(thorough):
    """(layout, function, source path, destination state, flag, preserve_time, workers, reverse)"""
    out = []
    for state in XDEV_DST_STATES:
        for pt in (False, True):
            for fn, sp in (("move_file", "f"), ("copy_file", "f"), ("move_file", "d"), ("move_file", "nope")):
                out.append(("two", fn, sp, state, True, pt, 0, False))
            for fn in ("move_dir", "copy_dir"):
                for w in ((0, 2) if thorough or not pt else (0,)):
                    out.append(("two", fn, "d", state, True, pt, w, False))
            for flag in (True, False):
                for rev in (False, True):
                    if rev and not (thorough or flag):
                        continue
                    for fn, sp in (("move", "f"), ("copy", "f"), ("movedir", "d"), ("copydir", "d"), ("move", "d"),
                                   ("move", "z")):
                        if fn in ("movedir", "copydir", "copy") and pt and not thorough:
                            continue
                        out.append(("one", fn, sp, state, flag, pt, 0, rev))
    for fn in ("move_fs", "copy_fs"):
        for w in (0, 2):
            out.append(("two", fn, "/", "dir", True, False, w, False))
    return out


def run_xdev(case):
    """-> (Step over the combined tree, description)"""
    import os
    import tempfile
    import fs.copy
    import fs.move
    from fs.osfs import OSFS
    layout, fn, sp, state, flag, pt, workers, rev = case
    da = tempfile.mkdtemp(prefix="pyfs2verif_", dir=XDEV_DIRS[1 if rev else 0])
    db = tempfile.mkdtemp(prefix="pyfs2verif_", dir=XDEV_DIRS[0 if rev else 1])
    objs = []
    try:
        ra, rb = os.path.join(da, "root"), os.path.join(db, "far")
        os.mkdir(ra), os.mkdir(rb)
        _plant(ra, XDEV_SRC)
        dp = xdev_dst(rb, state, sp)
        if layout == "two":
            sfs, dfs = OSFS(ra), OSFS(rb)
            objs += [sfs, dfs]
            snap = lambda: "D@N{s83:" + B.snap_os(ra) + ";s68:" + B.snap_os(rb) + "}"
            S, D = "S/" + sp.lstrip("/"), "D/" + dp
            if fn in ("move_fs", "copy_fs"):
                S, D = "S", "D"
            call = {"move_file": lambda: fs.move.move_file(sfs, sp, dfs, dp, preserve_time=pt),
                    "copy_file": lambda: fs.copy.copy_file(sfs, sp, dfs, dp, preserve_time=pt),
                    "move_dir": lambda: fs.move.move_dir(sfs, sp, dfs, dp, workers=workers, preserve_time=pt),
                    "copy_dir": lambda: fs.copy.copy_dir(sfs, sp, dfs, dp, workers=workers, preserve_time=pt),
                    "move_fs": lambda: fs.move.move_fs(sfs, dfs, workers=workers, preserve_time=pt),
                    "copy_fs": lambda: fs.copy.copy_fs(sfs, dfs, workers=workers, preserve_time=pt)}[fn]
            kind = {"move_file": "move", "copy_file": "copy", "move_dir": "movedir", "copy_dir": "copydir",
                    "move_fs": "movedir", "copy_fs": "copydir"}[fn]
        else:
            os.symlink(rb, os.path.join(ra, "x"))       # the far device, reached through a directory symlink
            one = OSFS(ra)
            objs.append(one)
            snap = lambda: B.snap_os(ra)
            S, D = sp, "x/" + dp
            call = {"move": lambda: one.move(S, D, overwrite=flag, preserve_time=pt),
                    "copy": lambda: one.copy(S, D, overwrite=flag, preserve_time=pt),
                    "movedir": lambda: one.movedir(S, D, create=flag, preserve_time=pt),
                    "copydir": lambda: one.copydir(S, D, create=flag, preserve_time=pt)}[fn]
            kind = fn
        pre = snap()
        out = _guarded(call)
        post = snap()
    finally:
        for o in objs:
            try:
                o.close()
            except Exception:  # noqa
                pass
        common.rm_rf(da)
        common.rm_rf(db)
    name = "%s%s(%s, two devices%s, destination %s)" % (
        fn, "[workers=%d]" % workers if workers else "",
        "OSFS -> OSFS" if layout == "two" else "one OSFS reaching the other device through a directory symlink",
        ", reversed" if rev else "", state)
    return Step(name, 0, 0, (kind, S, D, flag, pt), pre, out, post)


# ---- C05 with a destination that is TOO SMALL: a write error that surfaces when the data reaches the device - in
# write() for data larger than the file object's buffer, only in flush() / close() for smaller files (ENOSPC, EDQUOT,
# EFBIG).  RLIMIT_FSIZE gives exactly that on any OSFS destination: writes beyond the limit fail with EFBIG.

def _patterned(n, salt):
    return bytes(bytearray((i * 7 + salt) % 251 for i in range(n)))


def small_dst_files(big):
    buf = max(io.DEFAULT_BUFFER_SIZE, 8192)
    fl = [("tiny", _patterned(10, 1)), ("small", _patterned(300, 2)), ("d/mid", _patterned(buf // 2 + 5, 3)),
          ("d/e/zero", b""), ("d/e/tiny2", _patterned(7, 4))]
    if big:
        fl.append(("d/big", _patterned(buf + 900, 5)))
    return fl


class limited_file_size(object):
    """with limited_file_size(n): no file of this process can grow beyond n bytes (write -> EFBIG)."""

    def __init__(self, n):
        self.n = n

    def __enter__(self):
        import resource
        import signal
        self.old_sig = signal.signal(signal.SIGXFSZ, signal.SIG_IGN)
        self.old = resource.getrlimit(resource.RLIMIT_FSIZE)
        resource.setrlimit(resource.RLIMIT_FSIZE, (self.n, self.old[1]))

    def __exit__(self, *a):
        import resource
        import signal
        resource.setrlimit(resource.RLIMIT_FSIZE, self.old)
        signal.signal(signal.SIGXFSZ, self.old_sig)


def small_dst_cases(thorough):
    """(source kind, destination kind, function, source path, limit, workers, preserve_time, big)"""
    out = []
    for skind in ("mem", "os"):
        for dkind in (("os", "subos", "wrapos") if thorough else ("os", "subos")):
            for limit in (64, 2000):
                for fn, sp in (("copy_file", "tiny"), ("copy_file", "small"), ("copy_file", "d/mid"), ("move_file", "small"),
                               ("move_file", "d/mid"), ("copy_file", "d/big"), ("move_file", "d/big")):
                    if dkind != "os" and fn == "copy_file" and not thorough:
                        continue
                    out.append((skind, dkind, fn, sp, limit, 0, limit == 64, sp == "d/big"))
                for fn in ("copy_dir", "move_dir", "copy_fs", "move_fs"):
                    for w in (0, 1, 2):
                        for big in ((False, True) if thorough or (limit == 2000 and dkind == "os") else (False,)):
                            out.append((skind, dkind, fn, "/" if fn.endswith("_fs") else "d", limit, w, w == 1, big))
    return out


def run_small_dst(case):
    import os
    import tempfile
    import fs.copy
    import fs.move
    from fs.memoryfs import MemoryFS
    from fs.osfs import OSFS
    from fs.wrapfs import WrapFS
    skind, dkind, fn, sp, limit, workers, pt, big = case
    tmp = tempfile.mkdtemp(prefix="pyfs2verif_")
    objs = []
    try:
        rs, rd = os.path.join(tmp, "src"), os.path.join(tmp, "dst")
        os.mkdir(rs), os.mkdir(rd)
        if skind == "mem":
            sfs = MemoryFS()
            for rel, data in small_dst_files(big):
                sfs.makedirs(os.path.dirname(rel), recreate=True)
                sfs.writebytes(rel, data)
            ssnap = lambda: fsops.snap_memoryfs(sfs)
        else:
            _plant(rs, small_dst_files(big))
            sfs = OSFS(rs)
            ssnap = lambda: B.snap_os(rs)
        _plant(rd, [("keep.txt", b"unrelated, keep"), ("top/in/keep2", b"keep2 " * 40)])
        base = OSFS(rd)
        objs += [sfs, base]
        dfs = base if dkind == "os" else base.opendir("top/in") if dkind == "subos" else WrapFS(base)
        dp = "/" if fn.endswith("_fs") else "t"
        snap = lambda: "D@N{s83:" + ssnap() + ";s68:" + B.snap_os(rd) + "}"
        call = {"move_file": lambda: fs.move.move_file(sfs, sp, dfs, dp, preserve_time=pt),
                "copy_file": lambda: fs.copy.copy_file(sfs, sp, dfs, dp, preserve_time=pt),
                "move_dir": lambda: fs.move.move_dir(sfs, sp, dfs, dp, workers=workers, preserve_time=pt),
                "copy_dir": lambda: fs.copy.copy_dir(sfs, sp, dfs, dp, workers=workers, preserve_time=pt),
                "move_fs": lambda: fs.move.move_fs(sfs, dfs, workers=workers, preserve_time=pt),
                "copy_fs": lambda: fs.copy.copy_fs(sfs, dfs, workers=workers, preserve_time=pt)}[fn]
        pre = snap()
        with limited_file_size(limit):
            out = _guarded(call)
        post = snap()
    finally:
        for o in objs:
            try:
                o.close()
            except Exception:  # noqa
                pass
        common.rm_rf(tmp)
    dbase = "D" if dkind != "subos" else "D/top/in"
    S = "S" if fn.endswith("_fs") else "S/" + sp
    D = dbase if fn.endswith("_fs") else dbase + "/t"
    kind = {"move_file": "move", "copy_file": "copy", "move_dir": "movedir", "copy_dir": "copydir",
            "move_fs": "movedir", "copy_fs": "copydir"}[fn]
    name = "%s[workers=%d%s](%s -> %s that cannot hold files over %d bytes)" % (
        fn, workers, ",preserve_time" if pt else "", {"mem": "MemoryFS", "os": "OSFS"}[skind],
        {"os": "OSFS", "subos": "SubFS(OSFS)", "wrapos": "WrapFS(OSFS)"}[dkind], limit)
    return Step(name, 0, 0, (kind, S, D, True, pt), pre, out, post)


def run_transfer_families(thorough):
    """The cross-device and the too-small-destination families -> (steps, [(family, case index)], coverage dict)."""
    import time
    steps, meta = [], []
    cov = dict(cross_device_available=xdev_available(), cross_device_dirs=list(XDEV_DIRS))
    t0 = time.time()
    if cov["cross_device_available"]:
        for ci, c in enumerate(xdev_cases(thorough)):
            steps.append(run_xdev(c))
            meta.append(("cross-device", ci))
    cov["cross_device_cases"] = len(steps)
    cov["cross_device_wall_s"] = round(time.time() - t0, 2)
    t0 = time.time()
    for ci, c in enumerate(small_dst_cases(thorough)):
        steps.append(run_small_dst(c))
        meta.append(("destination-too-small", ci))
    cov["destination_too_small_cases"] = len(steps) - cov["cross_device_cases"]
    cov["destination_too_small_wall_s"] = round(time.time() - t0, 2)
    cov["rule"] = ("cross-device: source and destination on two devices (os.rename fails with EXDEV), as two OSFS objects "
                   "(fs.move / fs.copy functions, workers 0 / 2) and as ONE OSFS reaching the other device through a directory "
                   "symlink (FS.move / copy / movedir / copydir x overwrite / create x preserve_time, both directions) x "
                   "destination missing / a file / an empty directory / a directory with other content / a directory holding "
                   "same-named entries / below a file / without parent; destination too small: RLIMIT_FSIZE (64 and 2000 "
                   "bytes) on OSFS / SubFS(OSFS) / WrapFS(OSFS) destinations, sources MemoryFS and OSFS with files smaller "
                   "and larger than the io buffer, copy_file / move_file / copy_dir / move_dir / copy_fs / move_fs x workers "
                   "0, 1, 2 x preserve_time; predicate FS/Props2.v preserved2 on the trees before / after, whatever the outcome")
    return steps, meta, cov


def symlink_scenarios():
    """OSFS trees containing a symbolic link to a directory outside the root."""
    import os
    import tempfile
    import shutil
    from fs.osfs import OSFS
    res = []
    for target_kind in ("dir-outside", "dir-inside"):
        d = tempfile.mkdtemp(prefix="pyfs2verif_")
        try:
            root = os.path.join(d, "root")
            os.makedirs(os.path.join(root, "victim"))
            outside = os.path.join(d, "outside") if target_kind == "dir-outside" else os.path.join(root, "keep")
            os.makedirs(outside)
            with open(os.path.join(outside, "canary"), "wb") as fh:
                fh.write(b"canary")
            os.symlink(outside, os.path.join(root, "victim", "link"))
            fs = OSFS(root)
            out = fsops.execute(fs, ("removetree", "victim"))
            intact = os.path.exists(os.path.join(outside, "canary"))
            res.append(dict(scenario="OSFS.removetree(dir containing a symlink to a %s)" % target_kind,
                            outcome=out, target_content_intact=intact))
            fs.close()
        finally:
            common.rm_rf(d)
    return res


# histories that empty / move the ROOT of a sub-filesystem holding files and directories
SUB_ROOT_HISTORIES = [
    [("writebytes", "a", b"in-a"), ("makedir", "b", False), ("writebytes", "b/a", b"in-b-a"), ("removetree", "/")],
    [("writebytes", "c", b"in-c"), ("writebytes", "ab", b"in-ab"), ("removetree", "")],
    [("makedirs", "a/b", False), ("writebytes", "a/b/c", b"x"), ("writebytes", "b", b"y"), ("removetree", "/"),
     ("listdir", "/")],
    [("writebytes", "a", b"1"), ("makedir", "c", False), ("movedir", "/", "c", False, False)],
    [("writebytes", "a", b"1"), ("makedir", "c", False), ("copydir", "/", "c/new", True, False)],
]


def run_c05(report):
    proof = common.preflight(report)
    thorough = report.tier == "thorough"
    bias = dict(move=25, copy=25, movedir=30, copydir=30, removetree=12, makedir=10, writebytes=12)
    hs = gen_histories(report.seed + 505, 2500 if thorough else 350, 30 if thorough else 12, bias=bias, spell=0.1)
    regress = load_corpus("C05")
    steps = []
    for bc in (B.Mem, B.OS, B.SubMem, B.Wrap, B.MountSub, B.MultiOne, B.SubOS, B.ZipW, B.SubMemDecoy, B.SubOSDecoy):
        use = regress + (hs if bc in (B.Mem, B.OS) or thorough else hs[:80])
        if bc in (B.SubMemDecoy, B.SubOSDecoy):
            use = SUB_ROOT_HISTORIES + use
        steps += [s for s in run_histories(bc, use) if s.op[0] in TRANSFER]
    # cross-filesystem functions
    rnd = random.Random(report.seed + 506)
    cases = cross_cases(rnd, 1500 if thorough else 260)
    pairs = [(B.Mem, B.Mem), (B.Mem, B.OS), (B.OS, B.Mem), (B.OS, B.OS), (B.SubMem, B.Mem), (B.Mem, B.Wrap)]
    cross_meta = {}
    runaway = set()         # cases that ran into the 5 s watchdog (known findings): not repeated with worker threads
    for i, c in enumerate(cases):
        st, meta = run_cross(c, pairs[i % len(pairs)])
        cross_meta[len(steps)] = (c, meta)
        steps.append(st)
        if st.outcome.startswith("crash:NonTermination") or st.post.startswith("SNAPFAIL"):
            runaway.add(("c", i))
    vcases = view_cases(rnd, 1200 if thorough else 220)
    for i, c in enumerate(vcases):
        st, meta = run_view(c)
        cross_meta[len(steps)] = (c, meta)
        steps.append(st)
        if st.outcome.startswith("crash:NonTermination") or st.post.startswith("SNAPFAIL"):
            runaway.add(("v", i))
    # the same cross / view families with worker threads (1 and 4; the file functions take none) and preserve_time
    # toggled, and the degenerate relations on ONE filesystem object with 0 / 1 / 4 workers
    n_before_workers = len(steps)
    dirfn = ("move_dir", "copy_dir", "move_fs", "copy_fs")
    for i, c in enumerate(cases):
        if c[2] in dirfn and (thorough or i % 2 == 0) and ("c", i) not in runaway:
            for w in ((1, 4) if thorough else ((1, 4)[(i // 2) % 2],)):
                st, meta = run_cross(c, pairs[i % len(pairs)], workers=w, flip_pt=(i % 3 == 0))
                cross_meta[len(steps)] = (c, meta + (w,))
                steps.append(st)
    for i, c in enumerate(vcases):
        isdirfn = c[4] in dirfn
        if (not thorough and i % 2 and not isdirfn) or ("v", i) in runaway:
            continue
        for w in ((1, 4) if thorough and isdirfn else ((1, 4)[i % 2] if isdirfn else 0,)):
            st, meta = run_view(c, workers=w, pt=(i % 3 != 0))
            cross_meta[len(steps)] = (c, meta + (w,))
            steps.append(st)
    rnd_same = random.Random(report.seed + 507)
    n_same = 0
    for c in same_object_cases(rnd_same, 1500 if thorough else 200):
        st, meta = run_same(c)
        cross_meta[len(steps)] = (c, meta)
        steps.append(st)
        n_same += 1
    n_worker_steps = len(steps) - n_before_workers - n_same
    verdicts = common.run_model_parallel(preserved_lines(steps), chunk=3000)
    n_vm, vm_mism = common.vm_crosscheck(preserved_lines(steps[:300]), verdicts[:300], "C05", limit=60)
    # model side: the MemoryFS model satisfies the predicate on the same histories
    mlines = [hist_line("mem_preserved", h) for h in regress + hs]
    mver = common.run_model_parallel(mlines, chunk=500)
    model_bad = [(i, v.split(" ").index("F")) for i, v in enumerate(mver) if "F" in v.split(" ")]
    nontrivial = set()
    dist = collections.Counter()
    bad = []
    for i, (s, v) in enumerate(zip(steps, verdicts)):
        dist[(s.op[0], "ok" if s.outcome.startswith("ok") else s.outcome)] += 1
        if s.pre != s.post and not s.post.startswith("SNAPFAIL"):
            nontrivial.add((s.op[0], fsops.canon_tree(s.pre), fsops.canon_tree(s.post)))
        loss = same_resource_loss(s)
        if loss:
            v = "T but: " + loss if v == "T" else v
        if v != "T" or s.outcome.startswith("crash:") or s.post.startswith("SNAPFAIL"):
            bad.append((i, s, v))
    seen = set()
    for i, s, v in bad:
        sig = "%s.%s %s" % (s.backend, s.op[0], "predicate" if v != "T" else s.outcome)
        rel = transfer_relation(s)
        if rel:
            # (one object as source and destination: fs.move.move_dir(fs, a, fs, b) is what fs.movedir(a, b) runs)
            sig = "%s %s" % (s.op[0] if i not in cross_meta or "](one " in s.backend else cross_meta[i][1][0], rel)
            if " of one " in s.backend:     # view cases: the storage kind matters (OSFS has a rename shortcut)
                sig += " [" + s.backend.split(" of one ")[1].rstrip(")") + "]"
        known = report.known_match(sig)
        if known:
            report.known_finding(known)
            continue
        if sig in seen or len(seen) >= 10:
            continue
        seen.add(sig)
        report.violation(dict(kind="unrelated-data-destroyed-or-not-delivered", backend=s.backend,
                              call=op_json(s.op), tree_before=s.pre, tree_after=s.post,
                              outcome=s.outcome, predicate="FS/Props.v preserved = " + v,
                              cross_case=repr(cross_meta.get(i, ""))[:1500], theorem="Props/C05.v"))
    sym = symlink_scenarios()
    for r in sym:
        if not r["target_content_intact"] or r["outcome"].startswith("crash"):
            sig = "OSFS.removetree symlink-target-emptied"
            known = report.known_match(sig)
            if known:
                report.known_finding(known)
            else:
                report.violation(dict(kind="symlink-target-emptied", **r))
    # OSFS: two names for one file (hard links, symbolic links to files and to directories)
    n_alias, alias_bad = run_alias_family(thorough)
    alias_pending = collections.Counter()
    for r in alias_bad:
        cls = re.sub(r"\(.*", "", r["call"])
        if r["removetree_through_symlink"]:
            sig = "OSFS.removetree symlink-target-emptied"
        elif r["operation"] == "move" and r["source_is_link"]:
            sig = C05_ALIAS_MOVE_LINK
        elif "two OSFS objects" in r["call"]:
            sig = "%s source and destination are the same resource (reached through two filesystem objects) [os2]" % cls
        elif "workers=" in r["call"] and "workers=0" not in r["call"]:
            sig = C05_ALIAS_WORKERS
        else:
            sig = "OSFS aliased names: %s destroys data when the destination is another name of the source" % cls
        known = report.known_match(sig)
        if known:
            report.known_finding(known)
            continue
        if sig in PENDING_FINDINGS:
            alias_pending[sig] += 1
            continue
        if sig in seen or len(seen) >= 14:
            continue
        seen.add(sig)
        report.violation(dict(kind="aliased-name-data-destroyed", signature=sig,
                              tree="harness/h_fs.py build_alias_tree (data/ + hard-link snapshot snap/ + symlinks)",
                              theorem="Props/C05.v", **r))
    # two devices (EXDEV) and destinations that are too small (EFBIG when the data reaches the device)
    fam_steps, fam_meta, fam_cov = run_transfer_families(thorough)
    fam_ver = common.run_model_parallel(preserved_lines(fam_steps), chunk=100)
    fam_dist = collections.Counter()
    fam_bad = 0
    seen_fam = set()
    for s, v, (family, ci) in zip(fam_steps, fam_ver, fam_meta):
        fam_dist["%s/%s/%s" % (family, s.op[0], "ok" if s.outcome.startswith("ok") else s.outcome)] += 1
        if s.pre != s.post and not s.post.startswith("SNAPFAIL"):
            nontrivial.add((s.op[0], family, s.backend, s.outcome))
        # (an OSError for EFBIG is the expected outcome of the too-small family; error classes are C06's subject)
        if v == "T" and not s.outcome.startswith("crash:NonTermination") and not s.post.startswith("SNAPFAIL") and not (
                family == "cross-device" and s.outcome.startswith("crash:")):
            continue
        fam_bad += 1
        sig = "%s.%s %s" % (s.backend, s.op[0], "predicate" if v != "T" else s.outcome)
        known = report.known_match(sig)
        if known:
            report.known_finding(known)
            continue
        if sig in PENDING_FINDINGS or sig in seen_fam or len(seen_fam) >= 10:
            continue
        seen_fam.add(sig)
        report.violation(dict(kind="transfer-family-data-destroyed-or-not-delivered", family=family, case_index=ci,
                              backend=s.backend, signature=sig, call=op_json(s.op), tree_before=s.pre, tree_after=s.post,
                              outcome=s.outcome, predicate="FS/Props2.v preserved2 = " + v, theorem="Props/C05.v"))
    fam_cov.update(failures=fam_bad, distribution=dict(fam_dist))
    if (model_bad or vm_mism) and not bad:
        report.violation(dict(kind="model-violates-predicate", what="FS/Mem.v fails `preserved` on a history",
                              history=[op_json(o) for o in (regress + hs)[model_bad[0][0]]] if model_bad else None,
                              vm=vm_mism, theorem="Props/C05.v"), no_input=True)
    samples = [dict(backend=s.backend, call=op_json(s.op), outcome=s.outcome, before=s.pre[:200], after=s.post[:200])
               for s in steps[:: max(1, len(steps) // 5)][:5]]
    return generic_finish(report, proof, len(steps), nontrivial, samples, dict(
        rule="move/copy/movedir/copydir/removetree calls inside random histories on 8 backends + fs.move/fs.copy "
             "functions between pairs of filesystems; the extracted predicate FS/Props.v `preserved` is applied "
             "to the storage snapshots before/after; non-trivial = distinct (call kind, tree before, tree after) "
             "with a changed tree",
        disagreements_checked=len(bad), model_predicate_failures=len(model_bad), vm_compute_crosschecked=n_vm,
        symlink_scenarios=sym, traces_validated_against_impl=len(steps) - len(bad),
        cross_and_view_cases_rerun_with_worker_threads=n_worker_steps, same_object_degenerate_cases=n_same,
        osfs_aliased_name_calls=n_alias, osfs_aliased_name_failures=len(alias_bad),
        pending_findings_seen=dict(alias_pending), cross_device_and_too_small_destination=fam_cov,
        distribution={"%s/%s" % k: v for k, v in sorted(dist.items())}),
        ["OSFS is checked against the real kernel (no kernel model)", "5 s watchdog per call = termination"])


# ------------------------------------------------------------------ C06

QUERIES = ("getinfo", "listdir", "scandir", "exists", "isdir", "isfile", "isempty", "getsize", "gettype", "readbytes",
           "openread")


def render_failures(e):
    """The ways a caller renders an exception (str, repr, %-formatting, str.format, the traceback module) and a pickle
    round trip (multiprocessing, logging handlers): [descriptions of what fails]."""
    import pickle
    import traceback
    out = []
    txt = None
    for label, f in (("str(e)", lambda: str(e)), ("repr(e)", lambda: repr(e)), ("'%s' % e", lambda: "%s" % e),
                     ("'{}'.format(e)", lambda: "{}".format(e)),
                     ("traceback.format_exception_only", lambda: "".join(traceback.format_exception_only(type(e), e)))):
        try:
            r = f()
            if not isinstance(r, str):
                out.append("%s returns a %s" % (label, type(r).__name__))
            elif label == "str(e)":
                txt = r
            elif label.startswith("traceback") and "<exception str() failed>" in r:
                out.append("%s: <exception str() failed>" % label)
        except Exception as x:  # noqa
            out.append("%s raises %s: %s" % (label, type(x).__name__, str(x)[:80]))
    try:
        e2 = pickle.loads(pickle.dumps(e))
        if type(e2) is not type(e):
            out.append("pickle round trip gives a %s" % type(e2).__name__)
        elif txt is not None and str(e2) != txt:
            out.append("pickle round trip changes the message: %r -> %r" % (txt[:80], str(e2)[:80]))
    except Exception as x:  # noqa
        out.append("pickle round trip raises %s: %s" % (type(x).__name__, str(x)[:80]))
    return out


def run_rendered(bc, histories):
    """run_histories with every exception any call raises put through render_failures();
    returns (steps, [(history index, call index, exception class, failures)])."""
    cur = [None]
    log = []

    def hook(_fs, _op, e):
        r = render_failures(e)
        if r:
            log.append((cur[0][0], cur[0][1], type(e).__name__, r))

    def ex(fsx, o, hi, k):
        cur[0] = (hi, k)
        return fsops.execute(fsx, o)
    old = fsops.EXC_HOOK
    fsops.EXC_HOOK = hook
    try:
        steps = run_histories(bc, histories, execute=ex)
    finally:
        fsops.EXC_HOOK = old
    return steps, log


# ---- C06: paths that are TOO LONG for the storage (FS.validatepath: "InvalidPath: if path is too long").  Built from
# short components, so that every component is acceptable and only the total length is not.

LONG_COMPONENT = "abc" * 33
LONG_SETUP = [("makedirs", "d/e", True), ("writebytes", "f", b"F"), ("writebytes", "d/g", b"G")]


def path_limit():
    import os
    try:
        return int(os.pathconf("/", "PC_PATH_MAX"))
    except (OSError, ValueError, AttributeError):
        return 4096


def long_paths():
    """(shape, path): over-long real paths (all components missing, below an existing directory, below a file) and
    over-long SPELLINGS of short paths (these are ordinary calls: the normal form is what counts)."""
    n = path_limit() // (len(LONG_COMPONENT) + 1) + 4
    tail = "/".join([LONG_COMPONENT] * n)
    return [("missing", tail), ("below-directory", "d/" + tail), ("below-file", "f/" + tail), ("absolute", "/d/e/" + tail),
            ("long-spelling-of-file", "d/" + "./" * (path_limit() // 2 + 50) + "g"),
            ("long-spelling-of-directory", "zz/../" * (path_limit() // 6 + 50) + "d/e")]


def long_path_history(thorough=True, seed=0):
    """One history: the setup, then every call kind with a long path in every path position.  Quick tier: every call
    kind and position with the first shape, a seed-dependent third of them with each other shape."""
    rnd = random.Random(seed)
    calls, late = [], []
    for si, (shape, long) in enumerate(long_paths()):
        for n in sorted(fsops.OPC, key=lambda k: fsops.OPC[k]):
            if n in ("makedir", "makedirs", "create"):
                cs = [(n, long, True), (n, long, False)]
            elif n in ("writebytes", "appendbytes"):
                cs = [(n, long, b"x")]
            elif n == "openwrite":
                cs = [(n, long, "wb", b"x"), (n, long, "ab", b"x"), (n, long, "r+b", b"x")]
            elif n == "openread":
                cs = [(n, long, "rb")]
            elif n in ("move", "copy", "movedir", "copydir"):
                other = "f" if n in ("move", "copy") else "d"
                cs = [(n, long, "new", True, False), (n, other, long, True, False), (n, other, long, False, True),
                      (n, long, long + "/x", True, False)]
            elif n == "setinfo":
                cs = [(n, long, 3)]
            else:
                cs = [(n, long)]
            if n == "makedirs" and not shape.startswith("long-spelling"):
                # (succeeds where there is no limit and builds a tree as deep as the path: once, as the last call)
                if si == 0:
                    late.append(cs[0])
                continue
            for c in cs:        # calls that remove what the other calls work on go last
                if not thorough and si > 0 and rnd.random() > 0.34:
                    continue
                (late if n in ("copydir", "movedir", "removetree", "move", "remove", "removedir") and
                 shape.startswith("long-spelling") else calls).append(c)
    late.sort(key=lambda c: c[0] == "makedirs")
    return LONG_SETUP + calls + late


def too_long_for(bc, path):
    """Is the system path of `path` longer than the limit the backend's storage reports (getmeta max_sys_path_length)?
    Asked of the filesystem object and of what it wraps, through the public API."""
    b = bc()
    try:
        fsx = b.make()
        cands = [fsx, getattr(b, "inner", None), getattr(b, "parent", None)]
        try:
            cands.append(fsx.delegate_fs())
        except Exception:  # noqa
            pass
        for c in cands:
            try:
                lim = c.getmeta().get("max_sys_path_length")
                if lim and c.hassyspath("/") and len(c.getsyspath("/")) + len(path.strip("/")) > lim:
                    return True
            except Exception:  # noqa
                pass
        return False
    finally:
        b.close()


def run_c06(report):
    proof = common.preflight(report)
    thorough = report.tier == "thorough"
    hs = gen_histories(report.seed + 606, 3000 if thorough else 400, 30 if thorough else 12, odd=0.3, spell=0.2)
    regress = load_corpus("C06")
    failing = []
    total = 0
    dist = collections.Counter()
    succeeding = []
    unrendered = []
    long_h = long_path_history(thorough, report.seed + 607)
    shortest_long = min(len(p) for shape, p in long_paths() if not shape.startswith("long-spelling"))
    too_long = set()        # backends whose storage documents a limit the over-long paths exceed
    n_long = 0
    for bc in B.ALL:
        use = regress + (hs if bc in (B.Mem, B.OS, B.SubMem) or thorough else hs[:60])
        if too_long_for(bc, long_paths()[0][1]):
            too_long.add(bc.name)
        use = use + [long_h]
        steps_bc, log = run_rendered(bc, use)
        for hi, k, cls, fails in log:
            unrendered.append(dict(backend=bc.name, history=[op_json(o) for o in use[hi][:k + 1]], exception=cls,
                                   rendering_failures=fails))
        for s in steps_bc:
            total += 1
            if s.hist_id == len(use) - 1 and s.index >= len(LONG_SETUP):
                n_long += 1
            if not s.outcome.startswith("ok:"):
                failing.append(s)
                dist[(s.backend, s.op[0], s.outcome)] += 1
            elif s.op[0] not in QUERIES:
                succeeding.append(s)
    # (smaller chunks than ref_steps(): the over-long paths make some lines expensive for the extracted model)
    ref_lines = lambda steps: ["fs refstep " + " ".join(tree_tokens(x.pre) + fsops.encode(x.op)) for x in steps]
    refs = common.run_model_parallel(ref_lines(failing), chunk=400)
    bad = []
    nontrivial = set()
    # a call whose preconditions do not hold must fail: the reference rejects it, the backend returned normally
    for s, r in zip(succeeding, common.run_model_parallel(ref_lines(succeeding), chunk=400)):
        if r.split("#", 1)[0].startswith("fail:"):
            bad.append((s, r, "the call returned normally although its preconditions do not hold (reference: %s)"
                        % r.split("#", 1)[0]))
    for s, r in zip(failing, refs):
        rres = r.split("#", 1)[0]
        nontrivial.add((s.op[0], s.outcome, fsops.canon_tree(s.pre)))
        why = None
        if s.outcome.startswith("crash:"):
            if not (s.outcome == "crash:ValueError" and rres == "crash:ValueError"):
                why = "not an fs.errors exception"
        elif s.outcome == "err:InvalidPath" and s.backend in too_long and any(
                isinstance(x, str) and len(x) >= shortest_long for x in s.op[1:3]):
            pass        # "InvalidPath: if path is too long" holds; the tree must still be unchanged (below)
        elif rres.startswith("fail:"):
            if s.outcome[4:] not in rres[5:].split(","):
                why = "the documented condition of %s does not hold (admissible: %s)" % (s.outcome[4:], rres[5:])
        elif rres.startswith("ok:"):
            why = "fails although every precondition holds"
        if why is None and s.op[0] in ("movedir", "copydir", "makedirs", "removetree") and rres.startswith("fail:") \
                and not r.endswith("#ANY") and not s.post.startswith("SNAPFAIL") \
                and fsops.canon_tree(s.pre) != fsops.canon_tree(s.post):
            why = "a directory call rejected by its argument checks changed the tree"
        if why is None and s.outcome == "err:InvalidPath" and not s.post.startswith("SNAPFAIL") \
                and fsops.canon_tree(s.pre) != fsops.canon_tree(s.post):
            why = "a call rejected for its path changed the tree"
        if why is None and s.op[0] in SINGLE and fsops.canon_tree(s.pre) != (
                fsops.canon_tree(s.post) if not s.post.startswith("SNAPFAIL") else None):
            why = "a failed single-resource call changed the tree"
        if why:
            bad.append((s, r, why))
    seen = set()
    for s, r, why in bad:
        sig = "%s.%s %s: %s" % (s.backend, s.op[0], s.outcome, why.split("(")[0].strip())
        known = report.known_match(sig)
        if known:
            report.known_finding(known)
            continue
        if sig in seen or len(seen) >= 10:
            continue
        seen.add(sig)
        report.violation(dict(kind="bad-failure", why=why, backend=s.backend, call=op_json(s.op),
                              tree_before=s.pre, tree_after=s.post, implementation=s.outcome,
                              reference=r, theorem="Props/C06.v"))
    seen_r = set()
    for d in unrendered:
        sig = "render %s raised by %s.%s" % (d["exception"], d["backend"], d["history"][-1][0])
        known = report.known_match(sig)
        if known:
            report.known_finding(known)
            continue
        if sig in PENDING_FINDINGS or sig in seen_r or len(seen_r) >= 10:
            continue
        seen_r.add(sig)
        report.violation(dict(kind="raised-exception-does-not-render", signature=sig, call=d["history"][-1],
                              theorem="Props/C06.v", **d))
    rend = render_probe()
    for r in rend:
        if not r["renders"]:
            sig = "render " + r["what"]
            known = report.known_match(sig)
            if known:
                report.known_finding(known)
            else:
                report.violation(dict(kind="message-does-not-render", **r))
    samples = [dict(backend=s.backend, call=op_json(s.op), outcome=s.outcome) for s in failing[:: max(1, len(failing) // 6)][:6]]
    return generic_finish(report, proof, total, nontrivial, samples, dict(
        rule="failure-biased random histories on 13 backends; each failing call: exception class must be an "
             "fs.errors class admissible for the reference in the backend's pre-state, str()/repr() must "
             "render, single-resource calls must leave the snapshot unchanged; non-trivial = distinct "
             "(call kind, class, tree)",
        failing_calls=len(failing), disagreements_checked=len(bad) + len(unrendered), render_probes=rend,
        raised_exceptions_rendered="every exception any call of the histories raises, on every backend: str / repr / "
                                   "'%s' % e / '{}'.format(e) / traceback.format_exception_only / pickle round trip",
        raised_exceptions_that_do_not_render=len(unrendered),
        over_long_path_calls=n_long, over_long_path_shapes=[(shape, len(p)) for shape, p in long_paths()],
        over_long_path_rule="every call kind x every path position x paths whose system path exceeds the limit the "
                            "storage documents (built from %d-character components: missing, below a directory, below a "
                            "file) and over-long spellings of short paths, on every backend: the reference decides, "
                            "InvalidPath is admissible where the storage documents the limit (%s), the message renders, "
                            "the tree is unchanged" % (len(LONG_COMPONENT), ", ".join(sorted(too_long))),
        traces_validated_against_impl=len(failing) - len(bad),
        distribution={"%s/%s/%s" % k: v for k, v in sorted(dist.items())[:150]}),
        ["the reference's admissible classes (FS/Ref.v) encode 'documented condition holds'"])


def render_probe():
    """Messages that pre-format user text into the template must still render."""
    import fs.errors as E
    out = []
    weird = ["{}", "a{b}c", "{0}", "{path}", "%s", "\x00", "é{"]
    for name in sorted(dir(E)):
        cls = getattr(E, name)
        if not (isinstance(cls, type) and issubclass(cls, E.FSError)):
            continue
        try:   # only classes whose first argument is a path (a value, never a template)
            import inspect
            params = list(inspect.signature(cls.__init__).parameters)
        except (TypeError, ValueError):
            continue
        if len(params) < 2 or params[1] != "path":
            continue
        for w in weird:
            try:
                try:
                    e = cls(w)
                except TypeError:
                    try:
                        e = cls()
                    except TypeError:
                        continue
                str(e), repr(e)
                ok = True
            except Exception as ex:
                ok = False
            if not ok:
                out.append(dict(what="%s(%r)" % (name, w), renders=False))
    # pre-formatted messages
    import tempfile
    from fs.osfs import OSFS
    d = tempfile.mkdtemp(prefix="pyfs2verif_")
    try:
        try:
            OSFS(d + "/missing{}dir")
            ok = True
        except Exception as e:
            try:
                str(e), repr(e)
                ok = True
            except Exception:
                ok = False
        out.append(dict(what="CreateFailed for a root path containing {}", renders=ok))
        o = OSFS(d)
        try:
            o.getinfo("a{}\x00b")
            ok = True
        except Exception as e:
            try:
                str(e), repr(e)
                ok = True
            except Exception:
                ok = False
        out.append(dict(what="InvalidCharsInPath for a path containing {}", renders=ok))
        o.close()
    finally:
        import shutil
        common.rm_rf(d)
    return out


# ------------------------------------------------------------------ C10

def query_check(fs, path, is_dir_expected=None):
    """All queries on one path; returns a list of inconsistency descriptions."""
    import fs.errors as E
    from fs.path import join
    bad = []

    def q(f):
        try:
            return ("ok", f())
        except E.FSError as e:
            return ("err", type(e).__name__)
    ex, isd, isf = fs.exists(path), fs.isdir(path), fs.isfile(path)
    if ex != (isd or isf) or (isd and isf):
        bad.append("exists=%s isdir=%s isfile=%s" % (ex, isd, isf))
    gi = q(lambda: fs.getinfo(path, namespaces=["details"]))
    if (gi[0] == "ok") != ex:
        bad.append("getinfo %s but exists=%s" % (gi, ex))
    if gi[0] == "ok":
        info = gi[1]
        raw = info.raw
        if "basic" not in raw or "name" not in raw["basic"] or "is_dir" not in raw["basic"]:
            bad.append("basic namespace missing")
        try:
            json.dumps({k: raw[k] for k in raw if k in ("basic", "details", "access", "link")})
        except Exception as e:
            bad.append("raw info not JSON-serialisable: %s" % e)
        if info.is_dir != isd or info.is_file != isf:
            bad.append("info.is_dir/is_file disagree with isdir/isfile")
        gt = q(lambda: fs.gettype(path))
        if gt[0] == "ok":
            from fs.enums import ResourceType
            if (gt[1] == ResourceType.directory) != isd or (gt[1] == ResourceType.file) != isf:
                bad.append("gettype=%s isdir=%s isfile=%s" % (gt[1], isd, isf))
            if "details" in raw and info.type != gt[1]:
                bad.append("info.type != gettype")
        if "details" in raw:
            from fs.time import epoch_to_datetime
            for key in ("modified", "accessed", "created", "metadata_changed"):
                if raw["details"].get(key) is not None and \
                        getattr(info, key) != epoch_to_datetime(raw["details"][key]):
                    bad.append("info.%s is not the conversion of the raw value %r" % (key, raw["details"][key]))
        if isf:
            data = q(lambda: fs.readbytes(path))
            size = q(lambda: fs.getsize(path))
            if data[0] == "ok" and size[0] == "ok":
                if not (len(data[1]) == size[1] == info.size):
                    bad.append("len(readbytes)=%d getsize=%d details.size=%s" % (len(data[1]), size[1], info.size))
    if isd:
        ld = q(lambda: fs.listdir(path))
        sd = q(lambda: list(fs.scandir(path, namespaces=["details"])))
        fd = q(lambda: list(fs.filterdir(path)))
        wk = q(lambda: [i.name for _p, i in fs.walk.info(path, max_depth=1)])
        em = q(lambda: fs.isempty(path))
        if ld[0] == "ok":
            names = sorted(ld[1])
            if len(set(ld[1])) != len(ld[1]):
                bad.append("listdir yields a name twice")
            for label, other in (("scandir", sd), ("filterdir", fd)):
                if other[0] != "ok" or sorted(i.name for i in other[1]) != names:
                    bad.append("%s names differ from listdir" % label)
            if wk[0] != "ok" or sorted(wk[1]) != names:
                bad.append("one-level walk differs from listdir")
            if em[0] != "ok" or em[1] != (not names):
                bad.append("isempty=%s but listdir=%s" % (em, names))
            if sd[0] == "ok":
                for i in sd[1]:
                    g = q(lambda: fs.getinfo(join(path, i.name), namespaces=["details"]))
                    if g[0] != "ok":
                        bad.append("scandir lists %r but getinfo fails: %s" % (i.name, g))
                        continue
                    a, b = i.raw, g[1].raw
                    if a.get("basic") != b.get("basic"):
                        bad.append("scandir basic != getinfo basic for %r" % i.name)
                    da, db = dict(a.get("details", {})), dict(b.get("details", {}))
                    for k in ("accessed", "metadata_changed"):
                        da.pop(k, None), db.pop(k, None)
                    if da != db:
                        bad.append("scandir details != getinfo details for %r: %s vs %s" % (i.name, da, db))
                n = len(sd[1])
                for (a, b) in ((0, 1), (1, 3), (0, n), (n, n + 2), (2, 1)):
                    pg = q(lambda: [i.name for i in fs.scandir(path, page=(a, b))])
                    full = [i.name for i in fs.scandir(path)]
                    if pg[0] != "ok" or pg[1] != full[a:b]:
                        bad.append("page (%d,%d) is not the slice" % (a, b))
                # filterdir: filters first, then the page; files/dirs/exclude filters select by name and kind
                names_all = [i.name for i in sd[1]]
                filt_sets = [dict(), dict(files=["a*", "*.b"]), dict(dirs=["b*", "c"]), dict(exclude_files=["a*"]),
                             dict(exclude_dirs=["b", "a*"]), dict(files=["*"], exclude_dirs=["*"]),
                             dict(files=[names_all[0]] if names_all else ["zz"])]
                import fs.wildcard as _W
                # FS.match / filterdir are documented to match without regard to case on a filesystem that DECLARES
                # itself case insensitive (getmeta()['case_insensitive']); ReadTarFS does (DESIGN 9.6)
                try:
                    _ci = bool(fs.getmeta().get("case_insensitive", False))
                except Exception:  # noqa
                    _ci = False
                _many = _W.imatch_any if _ci else _W.match_any
                for kw in filt_sets:
                    fl = q(lambda: list(fs.filterdir(path, namespaces=["details"], **kw)))
                    if fl[0] != "ok":
                        bad.append("filterdir(%r) fails: %s" % (kw, fl))
                        continue
                    want = []
                    for i in sd[1]:
                        if i.is_dir:
                            keep = (not kw.get("exclude_dirs") or not _many(kw["exclude_dirs"], i.name)) and \
                                (not kw.get("dirs") or _many(kw["dirs"], i.name))
                        else:
                            keep = (not kw.get("exclude_files") or not _many(kw["exclude_files"], i.name)) and \
                                (not kw.get("files") or _many(kw["files"], i.name))
                        if keep:
                            want.append(i.name)
                    got = [i.name for i in fl[1]]
                    if sorted(got) != sorted(want):
                        bad.append("filterdir(%r) selects %s, the filters select %s" % (kw, sorted(got), sorted(want)))
                        continue
                    for (a, b) in ((0, 1), (1, 3), (0, n), (1, n + 2), (2, 1)):
                        pg = q(lambda: [i.name for i in fs.filterdir(path, page=(a, b), **kw)])
                        if pg[0] != "ok" or pg[1] != got[a:b]:
                            bad.append("filterdir(%r) page (%d,%d) is not the slice of the filtered listing" % (kw, a, b))
        else:
            bad.append("isdir but listdir fails: %s" % (ld,))
    return bad


NS_ALL = ["details", "access", "stat", "lstat", "link", "zip", "tar"]
NS_VOLATILE = ("accessed", "metadata_changed", "st_atime", "st_atime_ns", "st_ctime", "st_ctime_ns")


def ns_subsets(path, thorough):
    """Namespace subsets asked of scandir and getinfo: all 128 in the thorough tier; in the quick tier the full set, the
    singletons and four more chosen by the path."""
    import itertools
    import zlib
    every = [list(c) for k in range(len(NS_ALL) + 1) for c in itertools.combinations(NS_ALL, k)]
    if thorough:
        return every
    k = zlib.crc32(path.encode("utf8"))
    rest = [s for s in every if 1 < len(s) < len(NS_ALL)]
    return [list(NS_ALL)] + [[n] for n in NS_ALL] + [rest[(k + j * 37) % len(rest)] for j in range(4)]


def namespace_check(fs, path, thorough):
    """Every scandir info = getinfo(join(path, name)) on every namespace both carry, for every namespace subset."""
    import fs.errors as E
    from fs.path import join
    bad = []
    for ns in ns_subsets(path, thorough):
        try:
            infos = list(fs.scandir(path, namespaces=ns))
        except E.FSError as e:
            bad.append("scandir(namespaces=%s) fails: %s" % (ns, type(e).__name__))
            continue
        for i in infos:
            try:
                g = fs.getinfo(join(path, i.name), namespaces=ns)
            except E.FSError as e:
                bad.append("scandir(namespaces=%s) lists %r but getinfo fails: %s" % (ns, i.name, type(e).__name__))
                break
            for key in sorted(set(i.raw) & set(g.raw)):
                a = dict((k, v) for k, v in i.raw[key].items() if k not in NS_VOLATILE)
                b = dict((k, v) for k, v in g.raw[key].items() if k not in NS_VOLATILE)
                if a != b:
                    diff = sorted(k for k in set(a) | set(b) if a.get(k, "<absent>") != b.get(k, "<absent>"))
                    bad.append("scandir %s != getinfo %s for %r (namespaces=%s): keys %s" % (key, key, i.name, ns, diff[:6]))
                    break
            else:
                continue
            break
    return bad


def _answers(fs, path, is_dir):
    """What the queries say about one spelling of a path (errors by class; anything else as a crash)."""
    import fs.errors as E

    def q(f):
        try:
            return ("ok", f())
        except E.FSError as e:
            return ("err", type(e).__name__)
        except Exception as e:  # noqa
            return ("crash", type(e).__name__)

    def raw(ns):
        r = json.loads(json.dumps(fs.getinfo(path, namespaces=ns).raw, sort_keys=True, default=str))
        r.get("details", {}).pop("accessed", None)
        r.get("details", {}).pop("metadata_changed", None)
        return r

    def opened():
        with fs.openbin(path, "r") as f:
            return f.read()
    out = [("exists", q(lambda: fs.exists(path))), ("isdir", q(lambda: fs.isdir(path))),
           ("isfile", q(lambda: fs.isfile(path))), ("getinfo()", q(lambda: raw(None))),
           ("getinfo(details,access,link,zip,tar)", q(lambda: raw(["details", "access", "link", "zip", "tar"]))),
           ("gettype", q(lambda: int(fs.gettype(path)))), ("getsize", q(lambda: 0 if is_dir else fs.getsize(path)))]
    if is_dir:
        out += [("listdir", q(lambda: sorted(fs.listdir(path)))),
                ("scandir", q(lambda: sorted(i.name for i in fs.scandir(path)))),
                ("isempty", q(lambda: fs.isempty(path)))]
    else:
        out += [("readbytes", q(lambda: fs.readbytes(path))), ("openbin.read", q(opened))]
    return out


def spelling_check(fs, path, thorough):
    """C10 x spellings: the answers of the battery's queries for other spellings of the path (relative, doubled and
    trailing slashes, './', '/.', 'zz/../' detours) must be the answers for the canonical spelling."""
    import zlib
    try:
        is_dir = fs.isdir(path)
    except Exception:  # noqa
        is_dir = False
    alts = [x for x in spellings(path, None, ["zz"]) if x != path]
    if not thorough:
        k = zlib.crc32(path.encode("utf8"))
        alts = [alts[(k + j * 5) % len(alts)] for j in range(2)]
    base = _answers(fs, path, is_dir)
    bad = []
    for sx in alts:
        for (label, a), (_l, b) in zip(base, _answers(fs, sx, is_dir)):
            if a != b:
                bad.append("spelling %r of %r: %s answers %s, for the canonical spelling %s"
                           % (sx, path, label, str(b)[:80], str(a)[:80]))
                break
    return bad


# ---- C10 on FTPFS (loop-back server): the battery of run_c10 on the two network backends, in forked workers that run
# beside the local backends (every query is several round trips).  States: those reached by random histories without
# names that begin with a space (on the LIST server also without calls below a file, which leave the control connection
# out of step - both are C01 findings) + one fixed history with such a name, reported under a signature of its own.

FTP_C10_HISTORIES = {"FTPFS": (8, 40), "FTPFS(server without MLST/MLSD)": (4, 20)}    # quick, thorough (LIST server:
#                                        every query lists the parent directory over a data connection of its own)
FTP_C10_SPACE_HISTORY = [("makedir", "d", False), ("writebytes", "d/ sp", b"hello"), ("makedir", " sp", False),
                         ("writebytes", " sp/f", b"x")]


def c10_ftp_worker(args):
    """The C10 battery on one FTP backend -> (backend name, bad, total, nontrivial, n_spell, n_ns)."""
    name, hs, thorough = args
    bc = B.BY_NAME[name]
    Pre = collections.namedtuple("Pre", "pre op")
    bad, nontrivial = [], []
    total = n_spell = n_ns = 0
    states = list(C10_NAME_STATES)
    if bc is B.FTPNoMLSD and not thorough:
        # every query of the LIST server lists a directory over a data connection of its own: the three relation
        # states + two name classes drawn from the histories' seed
        states = states[:3] + random.Random(repr(hs[:1])).sample(states[3:], 2)
    tags = [False] * len(hs) + [True] + [label for label, _h in states]      # True: the space-name history
    todo = [(hi, h, 0) for hi, h in enumerate(list(hs) + [FTP_C10_SPACE_HISTORY] + [h for _l, h in states])]
    while todo:
        hi, h, attempt = todo.pop(0)
        space = tags[hi]
        b = bc()
        mark = len(bad), total, len(nontrivial), n_spell, n_ns
        try:
            fs = b.make()
            done = []
            for k, o in enumerate(h):
                if bc is B.FTPNoMLSD and _below_file(Pre(b.snapshot(), o)):
                    continue
                fsops.execute(fs, o)
                done.append(o)
                if k % 2 and not thorough and not space:
                    continue
                if space is not True and space and k < len(h) - 1 and not thorough:
                    continue            # name states: the battery on the finished state
                try:
                    walked = [p for p, _i in fs.walk.info()]
                except Exception as e:  # noqa
                    walked = []
                    bad.append((bc.name, list(done), "/", ["walk of the whole filesystem fails: %s" % common.exc_name(e)],
                                space))
                paths = ["/"] + sorted(set(walked)) + ["/nope", "/nope/x"]
                for p in paths:
                    total += 1
                    r = query_check(fs, p)
                    if thorough or k >= len(h) - 2:
                        r = r + spelling_check(fs, p, thorough)
                        n_spell += 1
                        try:
                            p_is_dir = fs.isdir(p)
                        except Exception:  # noqa
                            p_is_dir = False
                        if p_is_dir:
                            r = r + namespace_check(fs, p, thorough)
                            n_ns += 1
                    try:
                        nontrivial.append((bc.name, len(paths), p, fs.isdir(p)))
                    except Exception:  # noqa
                        pass
                    if r:
                        bad.append((bc.name, list(done), p, r, space))
        except Exception as e:  # noqa  -- the battery itself raised (a query outside its guards: connection lost)
            del bad[mark[0]:], nontrivial[mark[2]:]
            total, n_spell, n_ns = mark[1], mark[3], mark[4]
            if attempt == 0:
                import time
                time.sleep(2.0)
                todo.append((hi, h, 1))       # once more, later (local ports may have run out)
            else:
                bad.append((bc.name, list(h), "/", ["the battery raised twice: %s" % common.exc_name(e)], space))
        finally:
            b.close()
    return name, bad, total, nontrivial, n_spell, n_ns


def c10_ftp_start(report, thorough):
    """Start the FTP batteries in forked workers; -> (coverage, pool, async results)."""
    ok, why = B.network_available()
    cov = dict(available=ok, unavailable_because=why)
    if not ok:
        return cov, None, []
    hs = ftp_histories(report.seed + 1010, max(v[thorough] for v in FTP_C10_HISTORIES.values()), 25 if thorough else 10)
    cov.update(histories=dict((k, v[thorough] + 1) for k, v in FTP_C10_HISTORIES.items()),
               backends=[bc.name for bc in B.NETWORK],
               rule="the battery of the local backends after the calls of %d random histories (no names that begin with "
                    "a space; LIST server: calls with a path below a file skipped) + 1 fixed history with names that "
                    "begin with a space (signature of its own)" % len(hs))
    jobs = [(bc.name, hs[:FTP_C10_HISTORIES[bc.name][thorough]], thorough) for bc in B.NETWORK]
    try:
        import multiprocessing
        pool = multiprocessing.get_context("fork").Pool(len(jobs))
        return cov, pool, [pool.apply_async(c10_ftp_worker, (j,)) for j in jobs]
    except Exception:  # noqa  -- no fork here: run them in line at the end
        return cov, None, jobs


def c10_ftp_collect(pool, pending):
    out = []
    try:
        for x in pending:
            out.append(c10_ftp_worker(x) if isinstance(x, tuple) else x.get(900))
    finally:
        if pool is not None:
            pool.terminate()
    return out



def run_c10(report):
    proof = common.preflight(report)
    thorough = report.tier == "thorough"
    hs = gen_histories(report.seed + 1010, 600 if thorough else 80, 25 if thorough else 10)
    total = 0
    bad = []
    nontrivial = set()
    backs = list(B.ALL) + [ReadZip, ReadTar, MultiLayered] + C10_WRAPPED + C10_HETERO + B.LINKED
    per = collections.Counter()
    n_spell = n_ns = 0
    ftp_cov, ftp_pool, ftp_pending = c10_ftp_start(report, thorough)      # FTPFS batteries run beside the loop below
    # thorough tier: every backend gets every history it has time for - the wall-clock budget is shared out evenly (unused
    # time rolls over to the next backend), the name family and at least 10 histories always run; what is left out is
    # counted in the evidence (histories_skipped_for_time)
    t_loop = time.time()
    budget = float(os.environ.get("PYFS2_VERIF_C10_THOROUGH_BUDGET_S", "1200"))
    skipped_for_time = collections.Counter()
    for bi, bc in enumerate(backs):
        names_first = c10_name_states(bc, report.seed, thorough)
        for hi, h in enumerate(names_first +      # the name family first, on every backend
                               (hs if bc in (B.Mem, B.OS) or thorough else hs[:6] if bc in C10_HETERO
                                else hs[:8] if bc in B.LINKED else hs[:25])):
            if thorough and hi >= len(names_first) + 10 and time.time() > t_loop + budget * (bi + 1) / len(backs):
                skipped_for_time[bc.name] += 1
                continue
            b = bc()
            try:
                fs = b.make()
                if hasattr(b, "load"):
                    fs = b.load(h)
                    seq = [None]
                else:
                    seq = h
                for k, o in enumerate(seq):
                    if o is not None:
                        fsops.execute(fs, o)
                    if o is not None and k % 2 and not thorough:
                        continue
                    if o is not None and bc in (B.Mem, B.OS) and k == len(seq) - 1:
                        # raw time values at the boundary (0 is a valid epoch time)
                        for p0, i0 in list(fs.walk.info())[:2]:
                            try:
                                fs.setinfo(p0, {"details": {"modified": 0, "accessed": 0}})
                            except Exception:
                                pass
                    try:
                        walked = [p for p, _i in fs.walk.info()]
                    except Exception as e:  # noqa  (the battery below says which listing fails where)
                        walked = list(getattr(b, "known_paths", []))
                        bad.append((bc.name, h[:k + 1] if o is not None else h, "/",
                                    ["walk of the whole filesystem fails: %s" % common.exc_name(e)]))
                    # (resources the construction put there must be found, whatever the walk says)
                    paths = ["/"] + sorted(set(walked) | set(getattr(b, "known_paths", []))) + ["/nope", "/nope/x"]
                    for p in paths:
                        total += 1
                        per[bc.name] += 1
                        r = query_check(fs, p)
                        if thorough or o is None or k >= len(seq) - 2:     # quick tier: in the last state checked
                            r = r + spelling_check(fs, p, thorough)
                            n_spell += 1
                            try:
                                p_is_dir = fs.isdir(p)
                            except Exception:  # noqa
                                p_is_dir = False
                            if p_is_dir:
                                r = r + namespace_check(fs, p, thorough)
                                n_ns += 1
                        nontrivial.add((bc.name, len(paths), p, fs.isdir(p)))
                        if r:
                            bad.append((bc.name, h[:k + 1] if o is not None else h, p, r))
            finally:
                b.close()
    seen = set()
    pending_seen = collections.Counter()
    bad2 = []
    for name, fbad, ftotal, fnontrivial, fspell, fns in c10_ftp_collect(ftp_pool, ftp_pending):
        total += ftotal
        per[name] += ftotal
        n_spell += fspell
        n_ns += fns
        nontrivial.update(fnontrivial)
        for bname, h, p, r, space in fbad:
            bad2.append((bname, h, p, r, FTP_SPACE_SIG % bname if space is True else
                         NAME_FAMILY_SIG % (bname, space) if space else None))
    for name, h, p, r in bad:
        if name_state_label(h) and not (name in LINKED_NAMES and (p == B.DANGLING_DIR or p.startswith(B.DANGLING_DIR + "/"))):
            # the fixed name family: one class-level signature per (backend, name class)
            bad2.append((name, h, p, r, NAME_FAMILY_SIG % (name, name_state_label(h))))
            continue
        # directory-cache wrappers and page windows (behaviour of the unchanged library, see PENDING_FINDINGS): the
        # page inconsistencies get their own class signature, whatever else is inconsistent is judged normally
        if "cache_directory" in name and "after a paged scandir" in name:
            bad2.append((name, h, p, r, C10_CACHED_PAGE_MISS))
            continue
        if name in LINKED_NAMES and (p == B.DANGLING_DIR or p.startswith(B.DANGLING_DIR + "/")):
            # the directory that holds the dangling links (nothing else is wrong there by construction)
            gi = [x for x in r if "but getinfo fails" in x]
            if gi:
                bad2.append((name, h, p, gi, C10_DANGLING_GETINFO))
            if len(gi) < len(r):
                bad2.append((name, h, p, [x for x in r if x not in gi], C10_DANGLING_SCANDIR))
            continue
        mp = [x for x in r if re.match(r"scandir details != getinfo details for '(%s|zip2)'" % "|".join(HETERO_KINDS), x)]
        if name == HeteroMount.name and mp and p in ("/", "/deep/er"):
            bad2.append((name, h, p, mp, C10_MOUNTPOINT_DETAILS))
            r = [x for x in r if x not in mp]
        pg = [x for x in r if x.startswith("page (")]
        if "cache_directory" in name and pg:
            bad2.append((name, h, p, pg, C10_CACHED_PAGE_HIT))
            r = [x for x in r if x not in pg]
        if r:
            bad2.append((name, h, p, r, None))
    for name, h, p, r, sig in bad2:
        sig = sig or "%s: %s" % (name, re.sub(r"[0-9']+", "", r[0])[:60])
        known = report.known_match(sig)
        if known:
            report.known_finding(known)
            continue
        if sig in PENDING_FINDINGS:
            pending_seen[sig] += 1
            continue
        if sig in seen or len(seen) >= 10:
            continue
        seen.add(sig)
        report.violation(dict(kind="queries-disagree", backend=name, history=[op_json(o) for o in h], path=p,
                              inconsistencies=r, theorem="Props/C10.v"))
    return generic_finish(report, proof, total, nontrivial, [dict(history=[op_json(o) for o in hs[0]])], dict(
        rule="after the calls of random histories, on every resource of the tree (+ missing paths): exists/"
             "isdir/isfile/getinfo/gettype/getsize/readbytes/listdir/scandir/filterdir/one-level walk/isempty/"
             "pages are compared with each other; non-trivial = distinct (backend, tree size, path, kind)",
        disagreements_checked=len(bad), per_backend=dict(per), traces_validated_against_impl=total - len(bad),
        wrapper_objects=[bc.name for bc in C10_WRAPPED], pending_findings_seen=dict(pending_seen),
        ftpfs_loopback_server=ftp_cov,
        symbolic_link_trees=[bc.name for bc in B.LINKED], directories_compared_per_namespace_subset=n_ns,
        histories_skipped_for_time=dict(skipped_for_time), thorough_wall_budget_s=budget if thorough else None,
        namespace_rule="scandir(d, namespaces=S) infos = getinfo(join(d, name), namespaces=S) on every namespace both carry "
                       "(volatile keys %s excluded), for S over the subsets of %s (quick tier: the full set, the singletons "
                       "and four more chosen by the path; thorough: all %d); OS-backed trees also hold symbolic links to "
                       "files (relative, absolute, chained), to directories, and - in a directory of their own - dangling "
                       "ones" % (list(NS_VOLATILE), NS_ALL, 2 ** len(NS_ALL)),
        heterogeneous_compositions=[bc.name for bc in C10_HETERO], paths_queried_with_other_spellings=n_spell,
        spelling_rule="every path of the battery is also queried (exists/isdir/isfile/getinfo with and without "
                      "namespaces/gettype/getsize/readbytes/openbin/listdir/scandir/isempty) with other spellings "
                      "(2 per path in the quick tier, all in the thorough tier); answers must equal the canonical ones"),
        ["consistency is checked among the implementation's own answers; the model-level theorem is Props/C10.v"])


class MultiLayered(B.Backend):
    """MultiFS whose members disagree: a name that is a file above and a directory below, shadowed files."""
    name = "MultiFS(layered, conflicting members)"

    def make(self):
        from fs.multifs import MultiFS
        from fs.memoryfs import MemoryFS
        self.fs = MultiFS()
        low, high, w = MemoryFS(), MemoryFS(), MemoryFS()
        low.makedirs("a/x"); low.writebytes("a/x/f", b"low"); low.writebytes("b", b"lowfile"); low.makedir("c")
        high.writebytes("a", b"file-above-dir"); high.makedirs("b/y"); high.writebytes("c/z", b"hi") if False else None
        high.makedir("d"); low.writebytes("d", b"low-d-file")
        self.fs.add_fs("low", low, priority=0)
        self.fs.add_fs("high", high, priority=5)
        self.fs.add_fs("w", w, write=True, priority=1)
        return self.fs


class ReadZip(B.Backend):
    name = "ReadZipFS"

    def make(self):
        from fs.memoryfs import MemoryFS
        self.fs = MemoryFS()
        return self.fs

    def load(self, h):
        import io
        from fs.zipfs import ZipFS
        from fs.compress import write_zip
        for o in h:
            fsops.execute(self.fs, o)
        buf = io.BytesIO()
        write_zip(self.fs, buf)
        buf.seek(0)
        self.fs.close()
        self.fs = ZipFS(buf)
        return self.fs


class ReadTar(ReadZip):
    name = "ReadTarFS"

    def load(self, h):
        import io
        from fs.tarfs import TarFS
        from fs.compress import write_tar
        for o in h:
            fsops.execute(self.fs, o)
        buf = io.BytesIO()
        write_tar(self.fs, buf)
        buf.seek(0)
        self.fs.close()
        self.fs = TarFS(buf)
        return self.fs


class WrappedLoaded(B.Backend):
    """A wrapper object created over an already populated, from then on unchanging MemoryFS (a directory cache is
    only meant for that situation); optionally a listing / walk was started on the wrapper and abandoned."""
    name = "cache_directory(MemoryFS, populated)"
    peek = False

    def wrap(self, inner):
        from fs.wrap import cache_directory
        return cache_directory(inner)

    def make(self):
        from fs.memoryfs import MemoryFS
        self.inner = self.fs = MemoryFS()
        return self.fs

    def load(self, h):
        for o in h:
            fsops.execute(self.inner, o)
        dirs = ["/"] + [p for p, i in self.inner.walk.info() if i.is_dir]
        self.fs = self.wrap(self.inner)
        if self.peek:
            for ns in (None, ["details"]):
                for d in dirs:
                    it = self.fs.scandir(d, namespaces=ns)
                    next(it, None)
                    del it
            for it in (self.fs.walk.files(), self.fs.walk.info(search="depth"), self.fs.walk()):
                next(it, None)
                del it
        return self.fs


class WrappedLoadedPeek(WrappedLoaded):
    name = "cache_directory(MemoryFS, populated) after abandoned scandir/walk iterators"
    peek = True


class ReadOnlyLoaded(WrappedLoaded):
    name = "read_only(MemoryFS, populated)"

    def wrap(self, inner):
        from fs.wrap import read_only
        return read_only(inner)


class ReadOnlyLoadedPeek(ReadOnlyLoaded):
    name = "read_only(MemoryFS, populated) after abandoned scandir/walk iterators"
    peek = True


class ReadOnlyCachedLoadedPeek(WrappedLoaded):
    name = "read_only(cache_directory(MemoryFS, populated)) after abandoned scandir/walk iterators"
    peek = True

    def wrap(self, inner):
        from fs.wrap import read_only, cache_directory
        return read_only(cache_directory(inner))


class SubCachedLoadedPeek(WrappedLoaded):
    name = "cache_directory(SubFS(MemoryFS, populated)) after abandoned scandir/walk iterators"
    peek = True

    def make(self):
        from fs.memoryfs import MemoryFS
        self.parent = MemoryFS()
        self.parent.writebytes("canary", b"c")
        self.inner = self.fs = self.parent.makedirs("top/sub")
        return self.fs

    def close(self):
        B.Backend.close(self)
        self.parent.close()


class WrappedLoadedPaged(WrappedLoaded):
    name = "cache_directory(MemoryFS, populated) after a paged scandir"

    def load(self, h):
        fs = WrappedLoaded.load(self, h)
        for d in ["/"] + [p for p, i in self.inner.walk.info() if i.is_dir]:
            list(fs.scandir(d, page=(1, 3)))
            list(fs.scandir(d, namespaces=["details"], page=(0, 1)))
        return fs


def _archive_of(src, kind):
    """A read-only ZipFS / TarFS holding the content of the filesystem src."""
    from fs.compress import write_zip, write_tar
    buf = io.BytesIO()
    (write_zip if kind == "zip" else write_tar)(src, buf)
    buf.seek(0)
    if kind == "zip":
        from fs.zipfs import ZipFS
        return ZipFS(buf)
    from fs.tarfs import TarFS
    return TarFS(buf)


HETERO_KINDS = ["mem", "zip", "tar", "cached", "ro", "os"]


class HeteroMulti(B.Backend):
    """MultiFS over members of different kinds (writable MemoryFS, read-only ZipFS and TarFS, cache_directory and
    read_only wrappers, OSFS).  The tree built by the history is dealt out: every file and directory goes to a
    non-empty subset of the members chosen by a hash of its path (one, several, or all of them), with the same bytes
    everywhere, so directories exist in some members and not in others; one directory per member exists only there."""
    name = "MultiFS(MemoryFS + ReadZipFS + ReadTarFS + cache_directory + read_only + OSFS members, tree dealt out)"
    priorities = dict(mem=10, zip=5, tar=0, cached=0, ro=-1, os=3)

    def make(self):
        from fs.memoryfs import MemoryFS
        self.fs = self.src = MemoryFS()
        self.tmp = None
        self.parts = []
        return self.fs

    def deal(self, h):
        """-> {kind: MemoryFS with that member's share}"""
        import zlib
        from fs.memoryfs import MemoryFS
        from fs.path import dirname
        for o in h:
            fsops.execute(self.src, o)
        share = dict((k, MemoryFS()) for k in HETERO_KINDS)
        for i, k in enumerate(HETERO_KINDS):
            share[k].makedirs("only-%s/sub" % k)
            share[k].writebytes("only-%s/sub/f" % k, k.encode())
        for p, info in self.src.walk.info():
            mask = zlib.crc32(p.encode("utf8")) % 63 + 1
            for i, k in enumerate(HETERO_KINDS):
                if mask >> i & 1:
                    if info.is_dir:
                        share[k].makedirs(p, recreate=True)
                    else:
                        share[k].makedirs(dirname(p), recreate=True)
                        share[k].writebytes(p, self.src.readbytes(p))
        return share

    def member(self, kind, part):
        import tempfile
        import fs.copy
        from fs.osfs import OSFS
        from fs.wrap import cache_directory, read_only
        if kind == "mem":
            return part
        if kind in ("zip", "tar"):
            m = _archive_of(part, kind)
            part.close()
            return m
        if kind == "cached":
            return cache_directory(part)
        if kind == "ro":
            return read_only(part)
        self.tmp = tempfile.mkdtemp(prefix="pyfs2verif_")
        m = OSFS(self.tmp)
        fs.copy.copy_fs(part, m)
        part.close()
        return m

    def load(self, h):
        from fs.multifs import MultiFS
        share = self.deal(h)
        self.known_paths = sorted(set(p for k in HETERO_KINDS for p, _i in share[k].walk.info()))
        self.fs = MultiFS()
        for k in HETERO_KINDS:
            self.fs.add_fs(k, self.member(k, share[k]), write=(k == "mem"), priority=self.priorities[k])
        self.src.close()
        return self.fs

    def close(self):
        B.Backend.close(self)
        if self.tmp:
            common.rm_rf(self.tmp)


class HeteroMultiArchivesFirst(HeteroMulti):
    """The same with the archives and the directory cache searched before the plain members."""
    name = "MultiFS(ReadTarFS + cache_directory + ReadZipFS above MemoryFS + OSFS + read_only, tree dealt out)"
    priorities = dict(mem=0, zip=7, tar=9, cached=8, ro=2, os=1)


class HeteroMount(HeteroMulti):
    """MountFS with one mount per member kind (+ one below a deeper path, + files in the default filesystem)."""
    name = "MountFS(MemoryFS, ReadZipFS, ReadTarFS, cache_directory, read_only, OSFS mounted)"

    def load(self, h):
        from fs.mountfs import MountFS
        from fs.memoryfs import MemoryFS
        share = self.deal(h)
        again = MemoryFS()
        import fs.copy
        fs.copy.copy_fs(self.src, again)
        self.known_paths = sorted(set("/" + k + p for k in HETERO_KINDS for p, _i in share[k].walk.info()))
        self.fs = MountFS()
        for k in HETERO_KINDS:
            self.fs.mount(k, self.member(k, share[k]))
        self.fs.mount("deep/er/zip2", _archive_of(again, "zip"))
        again.close()
        self.fs.writebytes("plain.txt", b"in the default filesystem")
        self.fs.makedirs("deep/beside")
        self.src.close()
        return self.fs


C10_HETERO = [HeteroMulti, HeteroMultiArchivesFirst, HeteroMount]

LINKED_NAMES = set(bc.name for bc in B.LINKED)

C10_WRAPPED = [WrappedLoaded, WrappedLoadedPeek, ReadOnlyLoaded, ReadOnlyLoadedPeek, ReadOnlyCachedLoadedPeek,
               SubCachedLoadedPeek, WrappedLoadedPaged]


# ------------------------------------------------------------------ C11

def spellings(p, rnd, names):
    body = p.strip("/")
    comps = body.split("/") if body else []
    out = {"/" + body, body if body else "/", "/" + body + "/" if body else "//", "//" + body,
           "./" + body if body else ".", body + "/." if body else "./", "/" + body.replace("/", "//")}
    for i in range(len(comps) + 1):
        for det in names:
            c2 = comps[:i] + [det, ".."] + comps[i:]
            out.add("/".join(c2))
    return sorted(out)


def _run_last(bc, h, o):
    """Replay history h on a fresh instance of the backend, then issue o; returns (outcome, storage after).
    Read-only wrappers get their content through the wrapped filesystem (`inner`), the call goes through the wrapper."""
    if not getattr(bc, "setup_via_inner", False):
        last = run_histories(bc, [list(h) + [tuple(o)]])[-1]
        return strip_times(sort_listing(last.outcome)), fsops.canon_tree(last.post)
    b = bc()
    try:
        fs = b.make()
        for x in h:
            fsops.execute(b.inner, x)
        out = fsops.execute(fs, tuple(o))
        try:
            post = fsops.canon_tree(b.snapshot())
        except Exception as e:  # noqa
            post = "SNAPFAIL:" + type(e).__name__
    finally:
        b.close()
    return strip_times(sort_listing(out)), post


# query calls issued on ONE long-lived object with every spelling (op kinds beyond fsops.OPC are local to C11)
LONG_QUERIES = [("getinfo",), ("getinfo0",), ("listdir",), ("scandir",), ("scandir0",), ("filterdir",), ("walkall",),
                ("walkraw",),
                ("exists",), ("isdir",), ("isfile",), ("isempty",), ("getsize",), ("gettype",), ("readbytes",),
                ("openread", "rb")]


def exec_q(fs, op):
    """fsops.execute extended with read-only calls that take other code paths (no namespaces, filterdir, walk)."""
    import signal
    n = op[0]
    if n in fsops.OPC:
        return strip_times(sort_listing(fsops.execute(fs, op)))
    old = signal.signal(signal.SIGALRM, fsops._alarm)
    signal.alarm(5)
    try:
        try:
            if n == "getinfo0":
                i = fs.getinfo(op[1])
                return "ok:(%s|%s)" % (common.r_str(i.name), common.r_bool(i.is_dir))
            if n == "getinfo_ns":       # every standard namespace an archive / OS filesystem carries, raw
                raw = json.loads(json.dumps(fs.getinfo(op[1], namespaces=["details", "access", "link", "zip", "tar"]).raw,
                                            sort_keys=True, default=str))
                raw.get("details", {}).pop("accessed", None)
                raw.get("details", {}).pop("metadata_changed", None)
                return "ok:" + json.dumps(raw, sort_keys=True)
            if n == "scandir0":
                return "ok:[" + ";".join(sorted("(%s|%s)" % (common.r_str(i.name), common.r_bool(i.is_dir))
                                                for i in fs.scandir(op[1]))) + "]"
            if n == "filterdir":
                return "ok:[" + ";".join(sorted("(%s|%s)" % (common.r_str(i.name), common.r_bool(i.is_dir))
                                                for i in fs.filterdir(op[1]))) + "]"
            if n in ("walkall", "walkraw"):
                # walkall: the resources found (reported paths normalised); walkraw: the path strings as reported
                from fs.path import abspath, normpath
                nf = (lambda x: abspath(normpath(x))) if n == "walkall" else (lambda x: x)
                return "ok:[" + ";".join(sorted("(%s|%s)" % (common.r_str(nf(q)), common.r_bool(i.is_dir))
                                                for q, i in fs.walk.info(op[1]))) + "]"
            raise ValueError(n)
        except fsops.Timeout:
            return "crash:NonTermination"
        except Exception as e:  # noqa
            return common.exc_name(e)
    finally:
        signal.alarm(0)
        signal.signal(signal.SIGALRM, old)


def longlived_backends(thorough):
    base = [B.CachedDirMem, B.CachedDirOS, B.CachedDirSub, B.SubCachedDir, B.ReadOnlyMem, B.ReadOnlyCachedDir,
            B.CachedDirReadOnly, B.ReadOnlyOS, B.Mem, B.Wrap, B.SubMem, B.OS, B.MountSub, B.MultiOne]
    if thorough:
        base += [B.SubOS, B.WrapOS, B.SubSub, B.Temp, B.ZipW, B.TarW]
    return base


def longlived_replay(bc, log):
    """Re-execute a recorded call log ('w' = through the object under test, 'i' = through the wrapped filesystem)."""
    b = bc()
    try:
        fs = b.make()
        outs = []
        for where, o in log:
            outs.append(exec_q(fs if where == "w" else b.inner, tuple(o)))
    finally:
        b.close()
    return outs


def longlived_round(bc, rnd, thorough):
    """One long-lived object: build a tree; then repeatedly (a) issue queries with SOME spellings, (b) change the
    tree, (c) issue every query with ALL the spellings of each path, back to back in one state of the one object:
    the answers for equivalent spellings must coincide (with each other - a caching wrapper may answer all of them
    from its cache).  Returns (number of calls, number of groups, list of disagreements)."""
    b = bc()
    calls = groups = 0
    log = []
    soft = []
    try:
        fs = b.make()
        via = "i" if getattr(b, "setup_via_inner", False) else "w"

        def do(where, o):
            log.append((where, o))
            return exec_q(fs if where == "w" else b.inner, o)
        g = genhist.Gen(rnd, spell=0.0, odd=0.1)
        for _ in range(rnd.randint(3, 8)):
            o = g.setup_op()
            fsops.execute(g.shadow, o)
            do(via, o)
        for phase in range(4 if thorough else 3):
            files, dirs = g.existing()
            extra = [g.path("new"), g.path("noparent")] + ([g.path("belowfile")] if files else [])
            extra = ["/" + x.lstrip("/") for x in extra]
            keys = dirs + files
            if not thorough and len(keys) > 5:
                keys = ["/"] + rnd.sample(keys[1:], 4)
            keys = keys + extra
            det = ["zz"] + g.shadow.listdir("/")[:2]
            sp = dict((p, spellings(p, rnd, det)) for p in keys)
            grp = [(q, p) for q in LONG_QUERIES for p in keys]
            primed = {}
            for q, p in grp:        # (a) earlier calls with one or two of the spellings
                if rnd.random() < 0.5:
                    primed[(q, p)] = rnd.sample(sp[p], rnd.randint(1, 2))
                    for sx in primed[(q, p)]:
                        do("w", (q[0], sx) + q[1:])
                        calls += 1
            for _ in range(rnd.randint(1, 3)):      # (b) intervening changes
                for _try in range(20):
                    o = g.op()
                    if o[0] not in QUERIES and ".." not in "".join(str(x) for x in o[1:3]):
                        break
                else:
                    continue
                fsops.execute(g.shadow, o)
                # mostly through the object itself (write-through), sometimes behind its back
                do(via if via == "i" or not hasattr(b, "inner") or rnd.random() < 0.8 else "i", o)
            for q, p in grp:        # (c) all spellings, same state, same object
                rest = [x for x in sp[p] if x not in primed.get((q, p), [])]
                if not thorough and len(rest) > 5:
                    rest = rest[:3] + rnd.sample(rest[3:], 2)
                use = primed.get((q, p), []) + rest
                rnd.shuffle(use)
                before = len(log)
                res = [(sx, do("w", (q[0], sx) + q[1:])) for sx in use]
                calls += len(res)
                groups += 1
                for r in res[1:]:
                    if r[1] != res[0][1]:
                        d = dict(backend=bc.name, log=log[:before], query=q, path=p, results=res, a=res[0], b=r)
                        if q[0] == "walkraw":       # reporting only: go on with the other query kinds
                            soft.append(d)
                            break
                        return calls, groups, soft + [d]
    finally:
        b.close()
    return calls, groups, soft


def archive_spelling_block(rnd, hs, thorough):
    """Read-only archives (ReadZipFS / ReadTarFS written from a populated tree) and the heterogeneous compositions:
    every read-only call kind x key paths x all spellings on the one object; the answers must coincide."""
    total = groups = 0
    bad = []
    per = collections.Counter()
    queries = LONG_QUERIES + [("getinfo_ns",)]
    use = [h for h in hs if any(o[0] == "writebytes" for o in h)][: (40 if thorough else 5)]
    for bc in [ReadZip, ReadTar] + (C10_HETERO if thorough else [HeteroMulti]):
        for h in (use if bc in (ReadZip, ReadTar) or thorough else use[:2]):
            g = genhist.Gen(rnd, spell=0.0, odd=0.1)
            for o in h:
                fsops.execute(g.shadow, o)
            files, dirs = g.existing()
            b = bc()
            try:
                b.make()
                fs = b.load(h)
                prefix = ""
                if bc is HeteroMount:
                    prefix = "/zip"
                keys = dirs + files
                if not thorough and len(keys) > 5:
                    keys = ["/"] + rnd.sample(keys[1:], 4)
                keys = keys + ["/" + x.lstrip("/") for x in [g.path("new"), g.path("noparent")] +
                               ([g.path("belowfile")] if files else [])]
                det = ["zz"] + g.shadow.listdir("/")[:2]
                stop = False
                for p in keys:
                    sp = spellings(prefix + p, rnd, det)
                    if not thorough and len(sp) > 7:
                        sp = sp[:4] + rnd.sample(sp[4:], 3)
                    for q in queries:
                        res = [(sx, exec_q(fs, (q[0], sx) + q[1:])) for sx in sp]
                        total += len(res)
                        groups += 1
                        per[bc.name] += 1
                        for r in res[1:]:
                            if r[1] != res[0][1]:
                                bad.append(dict(backend=bc.name, history=h, query=q, path=prefix + p, results=res,
                                                a=res[0], b=r))
                                stop = True
                                break
                        if stop:
                            break
                    if stop:
                        break
            finally:
                b.close()
    return total, groups, dict(per), bad


def mount_state(n_mounts):
    """A MountFS with 0, 1 or 2 mounts (m1 holding sub/x.txt; a/b nested below a plain directory)."""
    from fs.mountfs import MountFS
    from fs.memoryfs import MemoryFS
    m = MountFS()
    members = {}
    if n_mounts >= 1:
        first = MemoryFS()
        first.makedir("sub")
        first.writebytes("sub/x.txt", b"first")
        m.mount("/m1", first)
        members["first"] = first
    if n_mounts >= 2:
        second = MemoryFS()
        second.writebytes("y.txt", b"second")
        m.mount("a/b", second)
        members["second"] = second
    return m, members


MOUNT_TARGETS = ["/m2", "/m1", "/m1/sub", "/m1/sub/deeper", "/a", "/a/b", "/a/b/c", "/a/c", "/x/y", "/"]


def mount_observe(path_spelling, n_mounts):
    """mount(<spelling>, new filesystem) on a fresh MountFS in the given state -> (verdict, observable routing)."""
    import fs.path as P
    from fs.memoryfs import MemoryFS
    m, members = mount_state(n_mounts)
    new = MemoryFS()
    new.writebytes("n.txt", b"new")
    try:
        out = _guarded(lambda: m.mount(path_spelling, new))
        canon = P.abspath(P.normpath(path_spelling))
        obs = [out, sorted(mp for mp, _f in m.mounts)]
        for probe in ["/", canon, P.join(canon, "n.txt"), "/m1", "/m1/sub", "/m1/sub/x.txt", "/a", "/a/b", "/a/b/y.txt"]:
            obs.append((probe, exec_q(m, ("isdir", probe)), exec_q(m, ("listdir", probe)),
                        exec_q(m, ("readbytes", probe))))
        # where does a write below the mount point land?
        w = exec_q(m, ("writebytes", P.join(canon, "w.txt"), b"w"))
        obs.append(("write", w, sorted(new.listdir("/")),
                    sorted((k, sorted(p for p, _i in v.walk.info())) for k, v in members.items()),
                    sorted(p for p, _i in m.default_fs.walk.info())))
    finally:
        try:
            m.close()
            new.close()
        except Exception:  # noqa
            pass
    return obs


def mount_spelling_block(rnd, thorough):
    """MountFS.mount(path, fs): every spelling of the mount-point argument gives the same verdict and the same routing
    afterwards, in states with 0, 1 and 2 existing mounts (detours through the existing mount points' names included)."""
    total = groups = 0
    bad = []
    for n_mounts in (0, 1, 2):
        for target in MOUNT_TARGETS:
            sp = spellings(target, rnd, ["zz", "m1", "a"])
            sp += [x for x in ("m1/sub/../.." + target, "a/b/.." + ("/../" + target.lstrip("/") if target != "/" else "/.."),
                               "/." + target, "." + target.rstrip("/") + "/") if x not in sp]
            if not thorough and len(sp) > 12:
                sp = sp[:6] + rnd.sample(sp[6:], 6)
            res = [(sx, mount_observe(sx, n_mounts)) for sx in sp]
            total += len(res)
            groups += 1
            for r in res[1:]:
                if r[1] != res[0][1]:
                    diff = [(x, y) for x, y in zip(res[0][1], r[1]) if x != y][:2]
                    bad.append(dict(existing_mounts=["/m1", "/a/b"][:n_mounts], mount_point=target,
                                    spelling_a=res[0][0], verdict_a=res[0][1][0], mounts_a=res[0][1][1],
                                    spelling_b=r[0], verdict_b=r[1][0], mounts_b=r[1][1], first_differences=repr(diff)[:800]))
                    break
    return total, groups, bad


# ---- C11: the calls that take a START path and keyword arguments (bounded walks, glob, filterdir).  The path position
# is the same as in the plain walk / scandir, but what the keywords mean (max_depth counted from the start directory,
# glob patterns anchored at it, pages of the filtered listing) depends on how the start path is interpreted.

WALK_KW_VALUES = dict(
    search=["breadth", "depth"], max_depth=[0, 1, 2, 3],
    filter=[["a*"], ["*.b", "c", "g"]], exclude=[["a*", "g"]], filter_dirs=[["a*", "b", "d", "e"]], exclude_dirs=[["b*", "e"]],
    filter_glob=[["**/a*"], ["/d/**", "*/g"]], exclude_glob=[["**/e/**"], ["/d/g"]], ignore_errors=[True, False],
    on_error=[lambda p, e: True])
WALK_METHODS = ("files", "dirs", "info", "walk")
GLOB_PATTERNS = ["*", "**/*", "*/", "**/a*", "d/*", "**/e/**/", "*/*/*", "/d/*"]
GLOB_KW_VALUES = dict(case_sensitive=[True, False], exclude_dirs=[None, ["e"], ["b*", "k"]], namespaces=[None, ["details"]])
FILTERDIR_KW_VALUES = dict(files=[None, ["a*", "*.b"], ["g"]], dirs=[None, ["b*", "e"]], exclude_dirs=[None, ["e", "a*"]],
                           exclude_files=[None, ["a*"]], namespaces=[None, ["details"]],
                           page=[None, (0, 1), (1, 3), (2, 1)])
DEEP_TREE = [("makedirs", "d/e/k/m", True), ("writebytes", "f", b"F"), ("writebytes", "d/g", b"G"),
             ("writebytes", "d/e/a", b"A"), ("writebytes", "d/e/k/a.b", b"AB"), ("writebytes", "d/e/k/m/c", b"C"),
             ("makedirs", "b/a/b", True), ("writebytes", "b/a/b/g", b"g2"), ("writebytes", "b/ab", b"")]


def _kw_names(func, skip):
    import inspect
    return [p for p in inspect.signature(func).parameters if p not in skip]


def start_path_queries(rnd, thorough):
    """[(label, callable(fs, start path) -> comparable result)] - the keywords come from the signatures."""
    import fs.base
    import fs.glob
    import fs.walk
    qs = []
    unknown = []

    def walk_q(method, kw):
        def run(fsx, p):
            w = fsx.walk
            if method == "files":
                return list(w.files(p, **kw))
            if method == "dirs":
                return list(w.dirs(p, **kw))
            if method == "info":
                return [(q, i.name, i.is_dir) for q, i in w.info(p, **kw)]
            return [(q, [i.name for i in ds], [i.name for i in fl]) for q, ds, fl in w.walk(p, **kw)]
        shown = dict((k, "<callable>" if callable(v) else v) for k, v in kw.items())
        return ("walk.%s(path, %s)" % (method, ", ".join("%s=%r" % kv for kv in sorted(shown.items()))), run)
    wk = _kw_names(fs.walk.Walker.__init__, ("self",))
    unknown += [k for k in wk if k not in WALK_KW_VALUES]
    wk = [k for k in wk if k in WALK_KW_VALUES]
    for m in WALK_METHODS:          # the bounded walks: every depth bound x both search orders
        for d in WALK_KW_VALUES["max_depth"][:3]:
            for s in WALK_KW_VALUES["search"]:
                qs.append(walk_q(m, dict(max_depth=d, search=s)))
    for k in wk:                    # every other keyword, unbounded and bounded
        if k in ("max_depth", "search"):
            continue
        for v in WALK_KW_VALUES[k]:
            for m in (WALK_METHODS if thorough else rnd.sample(WALK_METHODS, 2)):
                qs.append(walk_q(m, {k: v}))
                qs.append(walk_q(m, {k: v, "max_depth": rnd.choice([1, 2]), "search": rnd.choice(WALK_KW_VALUES["search"])}))
    for _ in range(60 if thorough else 10):
        ks = rnd.sample(wk, rnd.randint(2, 4))
        qs.append(walk_q(rnd.choice(WALK_METHODS), dict((k, rnd.choice(WALK_KW_VALUES[k])) for k in ks)))

    def glob_q(pat, kw, count):
        def run(fsx, p):
            g = fsx.glob(pat, path=p, **kw)
            if count:
                c = g.count()
                return (c.files, c.directories, c.data)
            return [(m.path, m.info.is_dir) for m in g]
        return ("glob(%r, path, %s)%s" % (pat, ", ".join("%s=%r" % kv for kv in sorted(kw.items())),
                                          ".count()" if count else ""), run)
    gk = _kw_names(fs.glob.BoundGlobber.__call__, ("self", "pattern", "path"))
    unknown += [k for k in gk if k not in GLOB_KW_VALUES]
    gk = [k for k in gk if k in GLOB_KW_VALUES]
    for pat in GLOB_PATTERNS:
        qs.append(glob_q(pat, {}, False))
        for k in gk:
            for v in GLOB_KW_VALUES[k]:
                if thorough or rnd.random() < 0.35:
                    qs.append(glob_q(pat, {k: v}, rnd.random() < 0.25))

    def filterdir_q(kw):
        def run(fsx, p):
            return [(i.name, i.is_dir) for i in fsx.filterdir(p, **kw)]
        return ("filterdir(path, %s)" % ", ".join("%s=%r" % kv for kv in sorted(kw.items())), run)
    fk = _kw_names(fs.base.FS.filterdir, ("self", "path"))
    unknown += [k for k in fk if k not in FILTERDIR_KW_VALUES]
    fk = [k for k in fk if k in FILTERDIR_KW_VALUES]
    for k in fk:
        for v in FILTERDIR_KW_VALUES[k]:
            if v is not None:
                qs.append(filterdir_q({k: v}))
    for _ in range(40 if thorough else 8):
        ks = rnd.sample(fk, rnd.randint(2, 4))
        qs.append(filterdir_q(dict((k, rnd.choice(FILTERDIR_KW_VALUES[k])) for k in ks)))
    return qs, sorted(set(unknown))


def start_path_backends(thorough):
    base = [B.Mem, B.OS, B.SubMem, B.Wrap, B.MountSub, B.CachedDirMem, B.ReadOnlyMem, ReadZip]
    if thorough:
        base += [B.SubOS, B.WrapOS, B.MultiOne, B.MountDefault, B.CachedDirOS, B.SubCachedDir, B.ReadOnlyOS, ReadTar, B.ZipW,
                 B.Temp, B.SubSub]
    return base


def _start_answer(fsx, run, p):
    import signal
    old = signal.signal(signal.SIGALRM, fsops._alarm)
    signal.alarm(5)
    try:
        try:
            return "ok:" + repr(run(fsx, p))
        except fsops.Timeout:
            return "crash:NonTermination"
        except Exception as e:  # noqa
            return common.exc_name(e)
    finally:
        signal.alarm(0)
        signal.signal(signal.SIGALRM, old)


def start_path_object(bc, h):
    """-> (backend object, filesystem) holding the tree built by history h."""
    b = bc()
    try:
        fsx = b.make()
        if hasattr(b, "load"):
            fsx = b.load(h)
        else:
            for o in h:
                fsops.execute(b.inner if getattr(b, "setup_via_inner", False) else fsx, o)
    except Exception:
        b.close()
        raise
    return b, fsx


def start_path_block(seed, hs, thorough):
    """Every start-path query x directories of a tree (+ a file, + a missing path) x the spellings of that path, on one
    object in one state: the answers must coincide.
    Returns (calls, groups, groups per backend, keywords without value table, number of query kinds, disagreements)."""
    rnd = random.Random(seed)
    queries, unknown = start_path_queries(rnd, thorough)
    total = groups = 0
    per = collections.Counter()
    bad = []
    trees = [DEEP_TREE] + [DEEP_TREE[:5] + list(h) for h in hs[: (6 if thorough else 1)]]
    for bc in start_path_backends(thorough):
        for ti, h in enumerate(trees):
            g = genhist.Gen(rnd, spell=0.0, odd=0.0)
            for o in h:
                fsops.execute(g.shadow, o)
            files, dirs = g.existing()
            b, fsx = start_path_object(bc, h)
            try:
                front = [d for d in ("/", "/d", "/d/e") if d in dirs]
                keys = dirs if thorough or len(dirs) <= 5 else front + rnd.sample([d for d in dirs if d not in front], 2)
                keys = keys + files[:1] + ["/nope"]
                for p in keys:
                    sp = spellings(p, rnd, ["zz", "d", "f"])
                    if not thorough and len(sp) > 6:
                        sp = sp[:3] + rnd.sample(sp[3:], 3)
                    use = range(len(queries)) if thorough or p in front else rnd.sample(range(len(queries)), len(queries) // 4)
                    for qi in use:
                        label, run = queries[qi]
                        res = [(sx, _start_answer(fsx, run, sx)) for sx in sp]
                        total += len(res)
                        groups += 1
                        per[bc.name] += 1
                        for r in res[1:]:
                            if r[1] != res[0][1]:
                                bad.append(dict(backend=bc.name, history=h, query=label, query_index=qi, block_seed=seed,
                                                path=p, a=res[0], b=r, spellings=[x[0] for x in res],
                                                results=[x[1] for x in res]))
                                break
            finally:
                b.close()
    return total, groups, dict(per), unknown, len(queries), bad


def run_c11(report):
    proof = common.preflight(report)
    thorough = report.tier == "thorough"
    rnd = random.Random(report.seed + 1111)
    hs = gen_histories(report.seed + 1112, 300 if thorough else 50, 10, spell=0.0, odd=0.1)
    total = 0
    groups = 0
    bad = []
    nontrivial = set()
    backs = [B.Mem, B.OS, B.SubMem, B.SubOS, B.Wrap, B.MountSub, B.MultiOne, B.MountDefault, B.ZipW,
             B.CachedDirMem, B.ReadOnlyMem, B.CachedDirOS, B.SubCachedDir, B.CachedDirReadOnly]
    for h in hs:
        # probe calls: every call kind with canonical path arguments drawn from the final state
        g = genhist.Gen(rnd, spell=0.0, odd=0.1)
        for o in h:
            fsops.execute(g.shadow, o)
        probes = []
        for _ in range(6 if thorough else 4):
            o = g.op()
            if ".." in "".join(str(x) for x in o[1:3]):
                continue
            probes.append(o)
        existing = ["zz"] + [n for n in g.shadow.listdir("/")][:1]     # detours through missing / existing names
        for bc in (backs if thorough else [backs[groups % len(backs)], B.Mem, B.OS]):
            for o in probes:
                positions = [1] + ([2] if o[0] in ("move", "copy", "movedir", "copydir") else [])
                for pos in positions:
                    sp = spellings(o[pos], rnd, existing)
                    if not thorough and len(sp) > 7:
                        sp = sp[:4] + rnd.sample(sp[4:], 3)
                    results = []
                    for s in sp:
                        o2 = list(o)
                        o2[pos] = s
                        results.append((s,) + _run_last(bc, h, o2))
                        total += 1
                    groups += 1
                    base = results[0]
                    nontrivial.add((bc.name, o[0], pos, base[1][:30]))
                    for r in results[1:]:
                        if r[1:] != base[1:]:
                            bad.append((bc.name, h, o, pos, base, r))
                            break
    # systematic block: every call kind x key paths (root, directory, file, new) x every spelling, on a fixed tree
    setup = [("makedirs", "d/e", True), ("writebytes", "f", b"F"), ("writebytes", "d/g", b"G")]
    singles = [("getinfo",), ("listdir",), ("scandir",), ("makedir", False), ("makedir", True), ("makedirs", True),
               ("writebytes", b"W"), ("appendbytes", b"A"), ("readbytes",), ("create", True), ("touch",),
               ("openwrite", "r+b", b"Z"), ("openread", "rb"), ("remove",), ("removedir",), ("removetree",),
               ("setinfo", 3), ("exists",), ("isdir",), ("isfile",), ("isempty",), ("getsize",), ("gettype",)]
    pairs = [("move", True, False), ("copy", True, False), ("movedir", True, False), ("copydir", True, False)]
    # a caching wrapper is also driven from a state in which its cache is filled and stale (queries, then changes)
    primed = setup + [("scandir", "/"), ("scandir", "d"), ("getinfo", "d/g"), ("isdir", "d/e"), ("remove", "f"),
                      ("writebytes", "d/n", b"N"), ("makedir", "d/e/k", False), ("writebytes", "f2", b"F2")]
    sys_backs = [(bc, setup) for bc in (backs if thorough else [B.Mem, B.OS, B.SubMem, B.SubOS, B.Wrap, B.MountSub,
                                                                  B.ReadOnlyMem])]
    sys_backs += [(bc, primed) for bc in ([B.CachedDirMem, B.CachedDirOS, B.SubCachedDir] if thorough
                                          else [B.CachedDirMem])]
    for bc, su in sys_backs:
        calls = []
        for k in singles:
            for p0 in ("/", "d", "d/e", "f", "d/g", "new"):
                calls.append(((k[0], p0) + tuple(k[1:]), 1))
        for k in pairs:
            for (a0, b0) in (("f", "new"), ("d/g", "f"), ("d", "new"), ("d/e", "/"), ("d", "d/e"), ("f", "/"), ("/", "new")):
                calls.append(((k[0], a0, b0) + tuple(k[1:]), 1))
                calls.append(((k[0], a0, b0) + tuple(k[1:]), 2))
        for o, pos in calls:
            sp = spellings(o[pos], rnd, ["zz", "d", "f"])
            if not thorough:
                sp = sp[:5] + rnd.sample(sp[5:], min(3, len(sp[5:])))
            results = []
            for sx in sp:
                o2 = list(o)
                o2[pos] = sx
                results.append((sx,) + _run_last(bc, su, o2))
                total += 1
            groups += 1
            base = results[0]
            nontrivial.add((bc.name, o[0], pos, base[1][:30]))
            for r in results[1:]:
                if r[1:] != base[1:]:
                    bad.append((bc.name, su, o, pos, base, r))
                    break
    # long-lived block: equivalent spellings on ONE object, after earlier calls with other spellings and changes
    ll_calls = ll_groups = 0
    ll_bad = []
    ll_per = collections.Counter()
    for bc in longlived_backends(thorough):
        for _round in range(20 if thorough else 4):
            c, g_, d = longlived_round(bc, rnd, thorough)
            ll_calls += c
            ll_groups += g_
            ll_per[bc.name] += g_
            ll_bad += d
            if any(x["query"][0] != "walkraw" for x in d):
                break
    total += ll_calls
    groups += ll_groups
    seen_ll = set()
    for d in ll_bad:
        sig = "%s.%s one-object" % (d["backend"], d["query"][0])
        if d["query"][0] == "walkraw":
            sig = WALK_SPELLING_SIG
        known = report.known_match(sig)
        if known:
            report.known_finding(known)
            continue
        if sig in PENDING_FINDINGS or sig in seen_ll or len(seen_ll) >= 10:
            continue
        seen_ll.add(sig)
        nontrivial.add((d["backend"], d["query"][0], "one-object", d["a"][1][:30]))
        report.violation(dict(kind="spellings-disagree-on-one-object", backend=d["backend"], signature=sig,
                              log=[[w, op_json(o)] for w, o in d["log"]], query=list(d["query"]), path=d["path"],
                              spellings=[r[0] for r in d["results"]], results=[r[1] for r in d["results"]],
                              spelling_a=d["a"][0], result_a=d["a"][1], spelling_b=d["b"][0], result_b=d["b"][1],
                              theorem="Props/C11.v"))
    # read-only archives and heterogeneous compositions: the read-only calls with every spelling on one object
    ar_total, ar_groups, ar_per, ar_bad = archive_spelling_block(rnd, hs, thorough)
    total += ar_total
    groups += ar_groups
    for d in ar_bad:
        sig = "%s.%s spellings (populated, read-only)" % (d["backend"], d["query"][0])
        known = report.known_match(sig)
        if known:
            report.known_finding(known)
            continue
        if sig in PENDING_FINDINGS or sig in seen_ll or len(seen_ll) >= 10:
            continue
        seen_ll.add(sig)
        nontrivial.add((d["backend"], d["query"][0], "archive", d["a"][1][:30]))
        report.violation(dict(kind="spellings-disagree-on-read-only-archive", backend=d["backend"], signature=sig,
                              history=[op_json(o) for o in d["history"]], query=list(d["query"]), path=d["path"],
                              spellings=[r[0] for r in d["results"]], results=[r[1] for r in d["results"]],
                              spelling_a=d["a"][0], result_a=d["a"][1], spelling_b=d["b"][0], result_b=d["b"][1],
                              theorem="Props/C11.v"))
    # the calls with a START path and keywords: bounded walks, glob, filterdir
    sp_total, sp_groups, sp_per, sp_unknown, sp_kinds, sp_bad = start_path_block(report.seed + 1113, hs, thorough)
    total += sp_total
    groups += sp_groups
    for d in sp_bad:
        sig = "%s.%s start-path spellings" % (d["backend"], d["query"].split("(")[0])
        known = report.known_match(sig)
        if known:
            report.known_finding(known)
            continue
        if sig in PENDING_FINDINGS or sig in seen_ll or len(seen_ll) >= 10:
            continue
        seen_ll.add(sig)
        nontrivial.add((d["backend"], d["query"], "start-path", d["a"][1][:30]))
        report.violation(dict(kind="start-path-spellings-disagree", backend=d["backend"], signature=sig,
                              history=[op_json(o) for o in d["history"]], query=d["query"], query_index=d["query_index"],
                              block_seed=d["block_seed"], path=d["path"], spellings=d["spellings"], results=d["results"],
                              spelling_a=d["a"][0], result_a=d["a"][1], spelling_b=d["b"][0], result_b=d["b"][1],
                              theorem="Props/C11.v"))
    # MountFS.mount(path, fs): the path argument of the composition's own public method
    mt_total, mt_groups, mt_bad = mount_spelling_block(rnd, thorough)
    total += mt_total
    groups += mt_groups
    for d in mt_bad:
        sig = "MountFS.mount path spellings (%d existing mounts)" % len(d["existing_mounts"])
        known = report.known_match(sig)
        if known:
            report.known_finding(known)
            continue
        if sig in PENDING_FINDINGS or sig in seen_ll or len(seen_ll) >= 10:
            continue
        seen_ll.add(sig)
        nontrivial.add(("MountFS", "mount", d["mount_point"], d["verdict_a"]))
        report.violation(dict(kind="mount-point-spellings-disagree", signature=sig, theorem="Props/C11.v", **d))
    seen = set()
    for name, h, o, pos, base, r in bad:
        sig = "%s.%s arg%d" % (name, o[0], pos)
        known = report.known_match(sig)
        if known:
            report.known_finding(known)
            continue
        if sig in seen or len(seen) >= 10:
            continue
        seen.add(sig)
        report.violation(dict(kind="spellings-not-interchangeable", backend=name,
                              history=[op_json(x) for x in h], call=op_json(o), position=pos,
                              spelling_a=base[0], result_a=base[1], spelling_b=r[0], result_b=r[1],
                              trees_equal=base[2] == r[2], theorem="Props/C11.v"))
    return generic_finish(report, proof, total, nontrivial,
                          [dict(call=op_json(hs[0][0]), spellings=spellings(hs[0][0][1], rnd, ["zz"]))], dict(
        rule="for random (state, call, path position): the call is issued with >= 7 spellings of the same "
             "normal form (leading/trailing/double slash, './', '/.', 'x/../' detours through missing and "
             "existing names) from identical states rebuilt by replaying the history; outcomes and trees must "
             "coincide; non-trivial = distinct (backend, call kind, position, outcome)",
        groups=groups, disagreements_checked=len(bad) + len(ll_bad) + len(ar_bad) + len(mt_bad) + len(sp_bad),
        start_path_rule="walk.files / dirs / info / walk with max_depth 0, 1, 2 x both search orders, every other Walker "
                        "keyword (from the signature) alone, bounded and in random combinations; glob(pattern, path=, "
                        "case_sensitive=, exclude_dirs=, namespaces=) incl. count(); filterdir with its keywords and pages - "
                        "issued with the spellings of every start directory (+ a file, + a missing path) of a deep tree and "
                        "of a random tree, on one object: the answers (reported paths included) must coincide",
        start_path_calls=sp_total, start_path_groups_per_backend=sp_per, start_path_query_kinds=sp_kinds,
        start_path_keywords_without_value_table=sp_unknown, start_path_disagreements=len(sp_bad),
        traces_validated_against_impl=total,
        read_only_archive_rule="ReadZipFS / ReadTarFS written from populated trees and a heterogeneous MultiFS: every "
                               "read-only call kind (+ getinfo with details/access/link/zip/tar namespaces, raw) x key "
                               "paths x all spellings on the one object; answers must coincide",
        read_only_archive_calls=ar_total, read_only_archive_groups_per_backend=ar_per,
        read_only_archive_disagreements=len(ar_bad),
        mount_rule="MountFS.mount(path, fs) with every spelling of %d mount points (new, equal to / inside / ancestor of "
                   "an existing mount, root) in states with 0, 1, 2 mounts, detours through existing mount-point names "
                   "included: verdict, mount table, routing of reads and of a write must coincide" % len(MOUNT_TARGETS),
        mount_calls=mt_total, mount_groups=mt_groups, mount_disagreements=len(mt_bad),
        wrapper_backends_replayed=[bc.name for bc in backs if bc in B.WRAPPERS],
        one_object_rule="on ONE long-lived object per round (cache_directory / read_only wrappers and their "
                        "compositions, plain backends): queries with one or two spellings, then changes (through "
                        "the object, sometimes behind it), then each of %d query kinds x key paths with all "
                        "spellings back to back in one state; the answers must agree with each other"
                        % len(LONG_QUERIES),
        one_object_calls=ll_calls, one_object_groups=ll_groups, one_object_groups_per_backend=dict(ll_per),
        one_object_disagreements=len([d for d in ll_bad if d["query"][0] != "walkraw"]),
        one_object_walk_path_spelling_disagreements=len([d for d in ll_bad if d["query"][0] == "walkraw"]),
        pending_findings=list(PENDING_FINDINGS)),
        ["Linux path resolution behind OSFS is exercised, not modelled"])


def run(report):   # noqa: F811
    global CURRENT_REPORT
    CURRENT_REPORT = report
    CONSTRUCT_FAILED.clear()
    return {"C01": run_c01, "C05": run_c05, "C06": run_c06, "C10": run_c10, "C11": run_c11}[report.pid](report)
