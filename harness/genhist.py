"""History generator for the filesystem-level checks. Histories start from the empty
filesystem; a shadow MemoryFS run in lock-step tells the generator which paths exist, so
that most arguments hit existing resources, their parents, children of files, or the root."""
from __future__ import print_function

import itertools

import fsops

NAMES = ["a", "b", "c"]
ODD_NAMES = ["ab", "a.b", "{x}", " sp", "é"]
DATA = [b"", b"x", b"hello", b"\x00\xff", b"0123456789"]
MODES = ["r", "rb", "w", "wb", "a", "ab", "x", "xb", "r+", "w+", "a+", "x+", "r+b", "w+b", "a+b", "x+b",
         "z", "", "rt", "wt", "b", "r+t"]


class Gen(object):
    def __init__(self, rnd, odd=0.15, spell=0.15, bias=None):
        self.rnd = rnd
        self.odd = odd
        self.spell = spell
        self.bias = bias or {}
        from fs.memoryfs import MemoryFS
        self.shadow = MemoryFS()

    # ---- paths
    def name(self):
        if self.rnd.random() < self.odd:
            return self.rnd.choice(ODD_NAMES)
        return self.rnd.choice(NAMES)

    def existing(self):
        files, dirs = [], ["/"]
        try:
            for p, info in self.shadow.walk.info():
                (dirs if info.is_dir else files).append(p)
        except Exception:
            pass
        return files, dirs

    def spelling(self, p):
        r = self.rnd
        if r.random() >= self.spell:
            return p if r.random() < 0.5 or p == "/" else p.lstrip("/")
        k = r.randint(0, 6)
        body = p.lstrip("/")
        if k == 0:
            return body + "/"
        if k == 1:
            return "/" + body.replace("/", "//")
        if k == 2:
            return "./" + body
        if k == 3:
            return self.name() + "/../" + body
        if k == 4:
            return body + "/."
        if k == 5:
            return "zz/../" + body
        return "//" + body

    def path(self, kind=None):
        r = self.rnd
        files, dirs = self.existing()
        kind = kind or r.choice(["file", "file", "dir", "dir", "new", "new", "new", "root",
                                 "belowfile", "noparent", "any", "dotdot"])
        nonroot = [d for d in dirs if d != "/"]
        if kind == "file" and not files:
            kind = "new"
        if kind == "file":
            p = r.choice(files)
        elif kind == "dir":
            p = r.choice(nonroot) if nonroot and r.random() < 0.9 else "/"
        elif kind == "new":
            p = r.choice(dirs).rstrip("/") + "/" + self.name()
        elif kind == "root":
            p = "/"
        elif kind == "belowfile" and files:
            p = r.choice(files) + "/" + self.name()
        elif kind == "noparent":
            p = r.choice(dirs).rstrip("/") + "/" + self.name() + "/" + self.name()
        elif kind == "dotdot":
            p = r.choice(["..", "../a", "a/../..", "/..", "a/../../b"])
            return p
        else:
            p = "/" + "/".join(self.name() for _ in range(r.randint(1, 3)))
        return self.spelling(p)

    # ---- calls
    def op(self):
        r = self.rnd
        w = dict(makedir=8, makedirs=4, writebytes=10, appendbytes=3, readbytes=3, create=3, touch=2,
                 openwrite=4, openread=3, remove=4, removedir=4, removetree=3, move=6, copy=6,
                 movedir=6, copydir=6, setinfo=3, getinfo=2, listdir=2, scandir=1, exists=1,
                 isdir=1, isfile=1, isempty=1, getsize=1, gettype=1)
        w.update(self.bias)
        names = sorted(w)
        n = r.choices(names, weights=[w[k] for k in names])[0]
        b = lambda: r.random() < 0.5
        if n in ("getinfo", "exists", "isdir", "isfile", "getsize", "gettype", "touch"):
            return (n, self.path())
        if n in ("listdir", "scandir", "isempty", "removedir", "removetree"):
            return (n, self.path(r.choice(["dir", "dir", "dir", "file", "new", "root", "belowfile", "any"])))
        if n in ("makedir", "makedirs"):
            return (n, self.path(r.choice(["new", "new", "new", "dir", "file", "belowfile", "noparent", "root"])), b())
        if n in ("writebytes", "appendbytes"):
            return (n, self.path(r.choice(["new", "new", "file", "file", "dir", "belowfile", "noparent", "root"])),
                    r.choice(DATA))
        if n == "readbytes":
            return (n, self.path(r.choice(["file", "file", "file", "dir", "new", "belowfile", "root"])))
        if n == "create":
            return (n, self.path(r.choice(["new", "file", "dir", "belowfile", "noparent"])), b())
        if n == "openwrite":
            return (n, self.path(r.choice(["new", "file", "file", "dir", "belowfile", "root"])), r.choice(MODES),
                    r.choice(DATA))
        if n == "openread":
            return (n, self.path(r.choice(["new", "file", "file", "dir", "belowfile", "root"])), r.choice(MODES))
        if n == "remove":
            return (n, self.path(r.choice(["file", "file", "file", "dir", "new", "belowfile", "root"])))
        if n in ("move", "copy"):
            return (n, self.path(r.choice(["file", "file", "file", "file", "dir", "new", "root", "belowfile"])),
                    self.path(r.choice(["new", "new", "file", "dir", "belowfile", "noparent", "root", "file"])),
                    b(), r.random() < 0.3)
        if n in ("movedir", "copydir"):
            return (n, self.path(r.choice(["dir", "dir", "dir", "dir", "file", "new", "root"])),
                    self.path(r.choice(["new", "new", "dir", "dir", "file", "belowfile", "noparent", "root"])),
                    b(), r.random() < 0.3)
        if n == "setinfo":
            return (n, self.path(r.choice(["file", "file", "dir", "new", "root"])),
                    r.choice([None, 1, 2, 3, 50]))
        raise ValueError(n)

    def setup_op(self):
        r = self.rnd
        k = r.random()
        if k < 0.45:
            return ("makedir", self.path("new"), False)
        if k < 0.55:
            return ("makedirs", self.path(r.choice(["new", "noparent"])), True)
        return ("writebytes", self.path(r.choice(["new", "new", "file"])), r.choice(DATA))

    def history(self, n):
        ops = []
        for i in range(n):
            o = self.setup_op() if (i < 5 and self.rnd.random() < 0.7) else self.op()
            ops.append(o)
            fsops.execute(self.shadow, o)
        return ops


def small_histories(names=("a", "b"), length=3):
    """All histories of the given length over a small alphabet of mutating calls."""
    paths = ["/"] + list(names) + [x + "/" + y for x in names for y in names]
    calls = []
    for p in paths:
        calls.append(("makedir", p, False))
        calls.append(("writebytes", p, b"x"))
        calls.append(("remove", p))
        calls.append(("removedir", p))
    for s in paths:
        for d in paths:
            calls.append(("move", s, d, True, False))
            calls.append(("movedir", s, d, True, False))
            calls.append(("copy", s, d, False, False))
            calls.append(("copydir", s, d, True, False))
    return calls, itertools.product(calls, repeat=length)
