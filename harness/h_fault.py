"""C07 -- an I/O failure at any point of a move loses no source data.

The REAL move code of /repo (fs.move.move_file / move_dir / move_fs, FS.move, FS.movedir,
MemoryFS.move / movedir, with and without worker threads) runs over fault-injecting
filesystems.  Every primitive step a move performs consults one global injector:

  filesystem primitives   getinfo listdir scandir makedir openbin.r openbin.w remove
                          removedir setinfo (+ upload download removetree in the coarse
                          style, + open for OSFS.open, + os.rename of FS.move, +
                          mem.set_entry / mem.remove_entry inside MemoryFS)
  file object primitives  read write close on every file object handed out

Two instrumentation styles:

  wrap    FaultFS, a fs.wrapfs.WrapFS around MemoryFS / OSFS(temp dir) whose primitive
          methods are fault points and whose derived methods (move, movedir, copy, upload,
          download, removetree, exists, makedirs, open ...) are the fs.base.FS
          implementations running over those primitives (the generic code path);
          'wrap-coarse' makes upload / download / removetree single primitives delegated to
          the backend (what a real WrapFS does)
  native  the primitives of the MemoryFS / OSFS classes themselves are patched, so the
          backend's own overrides run (MemoryFS.move / movedir re-link entries, OSFS uses
          FS.move with the os.rename shortcut, fs.move.move_file uses OSFS(common parent))

Per case: run the call fault-free, recording the sequence of primitives (n steps); then
re-run it on a freshly built identical tree once per step k = 0..n-1 and per fault kind,
making step k raise INSTEAD of being performed:

  fserror  fs.errors.OperationFailed            oserror  OSError(EIO)
  fs:<C>   the fs.errors class C, for every class some `except` clause of the library names (found by scanning
           the sources: ResourceNotFound, DirectoryExists, DirectoryExpected, NoSysPath ...) -- code that takes a
           particular class as an answer ("not there", "already there") must not lose data on it either
  crash    a BaseException no `except Exception` / `except FSError` handler catches
           (finally blocks and __exit__ still run and still do I/O)
  halt     the process stops: the failing step and EVERY later step of every thread raise,
           so nothing more reaches the storage (finally blocks run but cannot do I/O)

A failing write is also run in the variant that first writes a prefix of its data.  Cases
flagged no_rename run with os.rename unavailable (it raises EXDEV, an environment condition,
not the fault), so that FS.move on OSFS takes its copy-and-remove path under faults.  With
workers == 0 the enumeration over k is complete for the case; with workers > 0 the fault is
addressed by (primitive, filesystem, path, occurrence) -- independent of the schedule --
and the enumeration is repeated under whatever schedules the OS gives.

After each faulty run the source and destination trees are read back from the UNDERLYING
storage (raw MemoryFS / os.walk of the temp dir) and the predicate is applied:

  source-data-lost      some source file (p, b) is neither still (p, b) at the source nor
                        complete (b) at the mapped destination path
  failure-not-reported  the fault fired but the call returned normally (and the failing
                        primitive is not one the code recovers from by design), or the call
                        never returned

The move functions of fs.move accept FS URLs as well as filesystem objects.  Cases with a `url`
field give the source and / or the destination as an FS URL of the temp directory (every spelling
in URL_FORMS); the library then opens and closes its own OSFS objects.  In the native style those
objects are fault points too (the role of an OSFS opened by the library is looked up by its root
directory); in the wrap style the side still given as an object is the fault-injecting proxy.

Besides the injected faults, `real_failure_sweep` drives every entry point (objects, proxies and
URLs, with and without workers) into REAL failures of the backends: a directory in the way of a
destination file, a file in the way of a destination directory, a missing destination parent.
Nothing is injected there; the predicate is the same plus "returned normally => the move is
complete".

Model side: coq/Fault/MoveFault.v / MoveFaultProofs.v; `model_crosscheck` evaluates the
Coq model (vm_compute through coqc) on the Mem->Mem move_file / flat move_dir cases and
compares primitive sequence, outcome and final file tables with the implementation for
every fault position.
"""
from __future__ import print_function

import errno
import json
import os
import queue as _queue
import random
import re
import shutil
import signal
import subprocess
import sys
import tempfile
import threading
import time

import common  # noqa: F401  (puts /repo on sys.path)

import fs  # noqa: E402
import fs._bulk as _bulk  # noqa: E402
import fs.base as _base  # noqa: E402
import fs.errors  # noqa: E402
import fs.memoryfs as _memoryfs  # noqa: E402
import fs.move  # noqa: E402
from fs.base import FS  # noqa: E402
from fs.memoryfs import MemoryFS  # noqa: E402
from fs.osfs import OSFS  # noqa: E402
from fs.subfs import SubFS  # noqa: E402
from fs.wrapfs import WrapFS  # noqa: E402

THEOREM = ("Fault/MoveFaultProofs.v move_file_no_loss, move_file_reports, move_file_ok_moves, "
           "move_dir_no_loss, move_dir_source_removed_late")
WATCHDOG_S = 20.0
KNOWN_LOCAL = os.path.join(os.path.dirname(os.path.abspath(__file__)), "c07_known_local.json")

# TODO: misbehaviours of the UNCHANGED library exposed by the coverage of this module that are not in
# known_findings.json yet (signature strings).  They are routed through report.known_match first; while a
# signature is listed here and not yet known it is recorded in the evidence (coverage['pending_findings'])
# instead of failing the check.
PENDING_FINDINGS = []

# NOT violations (triaged 2026-10-01, DESIGN 9.6): a MultiFS source whose write layer answers ResourceNotFound ONCE for a
# file it holds (fault kind fs:ResourceNotFound at a getinfo of the top layer).  To MultiFS a member's ResourceNotFound is
# not a failed step but the member's ANSWER "I do not hold this path" (that is how it finds the layer that does), and no
# code could tell the injected answer from a true one: the source file, as the MultiFS defines it at that moment, IS
# the lower layer's revision, and that is what move_file / move_dir deliver completely before removing.  The
# property speaks of steps that FAIL; these runs are counted in the evidence (coverage['layer_answers']) and nothing
# else carries the [multifs-source] suffix, so a loss on a plain filesystem or under any other class still alarms.
LAYER_ANSWERS = [
    "source-data-lost move_file getinfo fs:ResourceNotFound [multifs-source]",
    "failure-not-reported move_file getinfo fs:ResourceNotFound [multifs-source]",
    "source-data-lost move_dir getinfo fs:ResourceNotFound [multifs-source]",
    "failure-not-reported move_dir getinfo fs:ResourceNotFound [multifs-source]",
]

# spellings of the FS URL of a directory <dir> (fs.opener: the default protocol is osfs)
URL_FORMS = ("osfs://%s", "%s", "osfs://%s/")


# ---- fault kinds "fs:<Class>": the failing step raises THAT fs.errors class.  The library special-cases particular
# error classes (FS.exists / Walker / copy_modified_time take ResourceNotFound as "not there", makedirs takes
# DirectoryExists as "already there", MultiFS takes DirectoryExpected as "nothing to list" ...); such a handler is
# never entered by the generic OperationFailed.  The classes are FOUND, not listed: every `except` clause of the
# library sources that names a class defined in fs.errors (other than the FSError root, which the generic kind
# covers), plus the classes of ALWAYS_CLASSES (the documented "answers" of the primitives).
ALWAYS_CLASSES = ("ResourceNotFound", "DirectoryExists", "FileExists", "DestinationExists", "ResourceReadOnly",
                  "PermissionDenied", "DirectoryExpected", "FileExpected", "DirectoryNotEmpty")
# the primitives whose answers steer the control flow of a move: every class is injected at every such step
CLASS_KEY_PRIMS = ("scandir", "listdir", "getinfo", "makedir", "openbin.r", "openbin.w", "open.r", "open.w")


def _caught_error_classes():
    """({class name: [file:line of an except clause naming it]}, sorted class names to inject)."""
    import ast
    root = os.path.dirname(os.path.abspath(fs.__file__))
    sites = {}

    def names_of(node):
        if node is None:
            return []
        if isinstance(node, ast.Tuple):
            out = []
            for e in node.elts:
                out.extend(names_of(e))
            return out
        if isinstance(node, ast.Name):
            return [node.id]
        if isinstance(node, ast.Attribute):
            return [node.attr]
        return []
    for dirpath, _dirs, files in os.walk(root):
        for fn in sorted(files):
            if not fn.endswith(".py") or fn == "test.py":
                continue
            full = os.path.join(dirpath, fn)
            try:
                with open(full, "rb") as fh:
                    tree = ast.parse(fh.read(), full)
            except (OSError, SyntaxError, ValueError):
                continue
            for node in ast.walk(tree):
                if not isinstance(node, ast.ExceptHandler):
                    continue
                for name in names_of(node.type):
                    cls = getattr(fs.errors, name, None)
                    if isinstance(cls, type) and issubclass(cls, BaseException) and \
                            cls.__module__ == fs.errors.__name__ and cls is not fs.errors.FSError:
                        sites.setdefault(name, []).append("%s:%d" % (os.path.relpath(full, root), node.lineno))
    names = set(sites) | set(n for n in ALWAYS_CLASSES if hasattr(fs.errors, n))
    names = sorted(n for n in names if _make_error(n, "/probe") is not None)
    return sites, names


def _make_error(name, path):
    """An instance of the fs.errors class `name` about `path` (None when it cannot be built)."""
    cls = getattr(fs.errors, name)
    path = str(path)
    special = {"NoURL": lambda: cls(path, "download"), "MissingInfoNamespace": lambda: cls("details"),
               "BulkCopyFailed": lambda: cls([]), "CreateFailed": lambda: cls("injected fault")}
    attempts = ([special[name]] if name in special else []) + [
        lambda: cls(path), lambda: cls(path=path), lambda: cls(path, msg="injected fault"),
        lambda: cls(msg="injected fault"), lambda: cls()]
    for make in attempts:
        try:
            return make()
        except TypeError:
            continue
    return None


CAUGHT_SITES, CAUGHT_CLASSES = _caught_error_classes()
# the classes the library special-cases in more than one place are injected at EVERY key step of the quick tier, the
# others rotate (QUICK_ROTATING per step)
HOT_CLASSES = [n for n in CAUGHT_CLASSES if len(CAUGHT_SITES.get(n, ())) >= 2]
COLD_CLASSES = [n for n in CAUGHT_CLASSES if n not in HOT_CLASSES]
QUICK_ROTATING = 1


def class_kinds(case, k, prim, rep, mode, seed=0):
    """The "fs:<Class>" fault kinds run at step k of a case.

    thorough: every class at every step.  quick: at the steps of CLASS_KEY_PRIMS every HOT class + QUICK_ROTATING of
    the other classes, at every other step one class (rotating with the step index, the case and the seed); with
    workers > 0 only in the first repeat."""
    if not CAUGHT_CLASSES or mode == "off" or prim == "os.rename" or prim.startswith("mem."):
        return ()
    if mode == "thorough":
        return tuple("fs:" + n for n in CAUGHT_CLASSES)
    if rep > 0:
        return ()
    import zlib
    salt = zlib.crc32(json.dumps(case, sort_keys=True, default=str).encode("utf-8"))
    if prim in CLASS_KEY_PRIMS:
        rot = [COLD_CLASSES[(salt + QUICK_ROTATING * k + seed + i) % len(COLD_CLASSES)]
               for i in range(min(QUICK_ROTATING, len(COLD_CLASSES)))] if COLD_CLASSES else []
        return tuple("fs:" + n for n in HOT_CLASSES + rot)
    return ("fs:" + CAUGHT_CLASSES[(salt + k + seed) % len(CAUGHT_CLASSES)],)


class Halt(BaseException):
    """Simulated process stop: raised by the failing step and by every later step."""


class Crash(BaseException):
    """A BaseException raised by one step only (handlers for Exception do not see it)."""


class WatchdogTimeout(BaseException):
    pass


# primitives the code recovers from BY DESIGN: the call may return normally after the fault,
# provided the move was then completed another way
RECOVERED_BY_DESIGN = {
    ("os.rename", "oserror"):
        "FS.move: an OSError of os.rename falls back to open+upload+remove (fs/base.py l.1192-1195)",
}


# --------------------------------------------------------------------------- injector

class Injector(object):
    def __init__(self):
        self.lock = threading.Lock()
        self.armed = False
        self.native = False
        self.no_rename = False
        self.tmpbase = None
        self.reset()

    def reset(self, target=None, kind=None, prefix=False):
        self.trace = []          # [(prim, role, path, occurrence)]
        self.occ = {}
        self.target = target     # int position | (prim, role, path, occurrence) | None
        self.kind = kind
        self.prefix = prefix
        self.fired = None        # index into trace
        self.fired_in_worker = False
        self.halted = False

    def norm(self, path):
        p = str(path)
        if self.tmpbase and self.tmpbase in p:
            p = p.replace(self.tmpbase, "<tmp>")
        return p

    def step(self, prim, role, path):
        """Register a primitive step; True when the fault fires here."""
        if not self.armed:
            return False
        with self.lock:
            if self.halted:
                raise Halt()
            base = (prim, role, self.norm(path))
            n = self.occ.get(base, 0)
            self.occ[base] = n + 1
            key = base + (n,)
            self.trace.append(key)
            if self.target is None or self.fired is not None:
                return False
            if isinstance(self.target, int):
                if len(self.trace) - 1 != self.target:
                    return False
            elif key != tuple(self.target):
                return False
            self.fired = len(self.trace) - 1
            self.fired_in_worker = threading.current_thread() is not threading.main_thread()
            if self.kind == "halt":
                self.halted = True
            return True

    def throw(self, path):
        if self.kind == "fserror":
            raise fs.errors.OperationFailed(path=str(path), msg="injected fault")
        if self.kind == "oserror":
            raise OSError(errno.EIO, "injected fault")
        if self.kind.startswith("oserror-"):
            # errno-specific handling (retry loops, "not found" shortcuts) must not swallow the failure either
            raise OSError(getattr(errno, self.kind.split("-", 1)[1]), "injected fault")
        if self.kind.startswith("fs:"):
            raise _make_error(self.kind[3:], path)
        if self.kind == "crash":
            raise Crash()
        raise Halt()

    def point(self, prim, role, path):
        if self.step(prim, role, path):
            self.throw(path)


INJ = Injector()


class HaltQueue(_queue.Queue):
    """queue.Queue whose blocking calls notice the simulated process stop."""

    def put(self, item, block=True, timeout=None):
        while True:
            if INJ.halted:
                raise Halt()
            try:
                return _queue.Queue.put(self, item, True, 0.005)
            except _queue.Full:
                pass

    def get(self, block=True, timeout=None):
        while True:
            if INJ.halted:
                raise Halt()
            try:
                return _queue.Queue.get(self, True, 0.005)
            except _queue.Empty:
                pass

    def join(self):
        with self.all_tasks_done:
            while self.unfinished_tasks:
                if INJ.halted:
                    raise Halt()
                self.all_tasks_done.wait(0.005)


# --------------------------------------------------------------------------- file proxy

class FileProxy(object):
    """File object whose read / write / close are fault points.

    buffered=True models a userspace write buffer (OSFS): written data reaches the storage
    only when close() is performed; a failing close or a process stop loses it."""

    def __init__(self, real, role, path, buffered=False, cap=None):
        self._real = real
        self._role = role
        self._path = path
        self._pending = [] if buffered else None
        self._cap = cap
        self._closed = False

    def __getattr__(self, name):
        return getattr(self.__dict__["_real"], name)

    def __enter__(self):
        return self

    def __exit__(self, *exc):
        self.close()

    def __iter__(self):
        return iter(self._real)

    @property
    def closed(self):
        return self._closed

    def read(self, size=-1):
        INJ.point("read", self._role, self._path)
        if self._cap and size is not None and size > self._cap:
            size = self._cap           # a short read, legal for any raw stream
        return self._real.read(size)

    def readinto(self, b):
        INJ.point("read", self._role, self._path)
        n = len(b)
        if self._cap and n > self._cap:
            n = self._cap
        data = self._real.read(n)
        b[:len(data)] = data
        return len(data)

    def _do_write(self, data):
        if self._pending is not None:
            self._pending.append(bytes(data))
        else:
            self._real.write(data)

    def write(self, data):
        if INJ.step("write", self._role, self._path):
            if INJ.prefix and len(data) >= 2:
                self._do_write(bytes(data)[:len(data) // 2])
            INJ.throw(self._path)
        self._do_write(data)
        return len(data)

    def flush(self):
        if self._pending is None:
            self._real.flush()

    def _abandon(self):
        self._pending = None
        try:
            self._real.close()
        except Exception:
            pass

    def close(self):
        if self._closed:
            return
        self._closed = True
        if INJ.armed:
            try:
                INJ.point("close", self._role, self._path)
            except BaseException:
                self._abandon()         # close not performed: buffered data is lost
                raise
        if self._pending:
            for d in self._pending:
                self._real.write(d)
        self._pending = None
        self._real.close()


# --------------------------------------------------------------------------- wrap style

class FaultFS(WrapFS):
    """WrapFS whose primitives are fault points; derived methods are the FS base class's."""

    def __init__(self, wrap_fs, role, buffered=False, cap=None, coarse=False, syspath=True):
        super(FaultFS, self).__init__(wrap_fs)
        self.role = role
        self.buffered = buffered
        self.cap = cap
        self.coarse = coarse
        self.syspath = syspath

    # ---- primitives
    def getinfo(self, path, namespaces=None):
        self.check()
        INJ.point("getinfo", self.role, path)
        return self._wrap_fs.getinfo(path, namespaces=namespaces)

    def listdir(self, path):
        self.check()
        INJ.point("listdir", self.role, path)
        return self._wrap_fs.listdir(path)

    def scandir(self, path, namespaces=None, page=None):
        self.check()
        INJ.point("scandir", self.role, path)
        for info in self._wrap_fs.scandir(path, namespaces=namespaces, page=page):
            yield info

    def makedir(self, path, permissions=None, recreate=False):
        self.check()
        INJ.point("makedir", self.role, path)
        return self._wrap_fs.makedir(path, permissions=permissions, recreate=recreate)

    def openbin(self, path, mode="r", buffering=-1, **options):
        self.check()
        writing = any(c in mode for c in "wax+")
        INJ.point("openbin.w" if writing else "openbin.r", self.role, path)
        real = self._wrap_fs.openbin(path, mode=mode, buffering=buffering, **options)
        return FileProxy(real, self.role, path, buffered=self.buffered and writing, cap=self.cap)

    def remove(self, path):
        self.check()
        INJ.point("remove", self.role, path)
        self._wrap_fs.remove(path)

    def removedir(self, path):
        self.check()
        INJ.point("removedir", self.role, path)
        self._wrap_fs.removedir(path)

    def setinfo(self, path, info):
        self.check()
        INJ.point("setinfo", self.role, path)
        self._wrap_fs.setinfo(path, info)

    # ---- coarse primitives / derived
    def upload(self, path, file, chunk_size=None, **options):
        if not self.coarse:
            return FS.upload(self, path, file, chunk_size=chunk_size, **options)
        if INJ.step("upload", self.role, path):
            if INJ.prefix:
                data = file.read()
                self._wrap_fs.writebytes(path, data[:len(data) // 2])
            INJ.throw(path)
        self._wrap_fs.upload(path, file, chunk_size=chunk_size, **options)

    def download(self, path, file, chunk_size=None, **options):
        if not self.coarse:
            return FS.download(self, path, file, chunk_size=chunk_size, **options)
        INJ.point("download", self.role, path)
        self._wrap_fs.download(path, file, chunk_size=chunk_size, **options)

    def removetree(self, dir_path):
        if not self.coarse:
            return FS.removetree(self, dir_path)
        INJ.point("removetree", self.role, dir_path)
        self._wrap_fs.removetree(dir_path)

    def move(self, src_path, dst_path, overwrite=False, preserve_time=False):
        return FS.move(self, src_path, dst_path, overwrite=overwrite, preserve_time=preserve_time)

    def movedir(self, src_path, dst_path, create=False, preserve_time=False):
        return FS.movedir(self, src_path, dst_path, create=create, preserve_time=preserve_time)

    def copy(self, src_path, dst_path, overwrite=False, preserve_time=False):
        return FS.copy(self, src_path, dst_path, overwrite=overwrite, preserve_time=preserve_time)

    def copydir(self, src_path, dst_path, create=False, preserve_time=False):
        return FS.copydir(self, src_path, dst_path, create=create, preserve_time=preserve_time)

    def exists(self, path):
        return FS.exists(self, path)

    def isdir(self, path):
        return FS.isdir(self, path)

    def isfile(self, path):
        return FS.isfile(self, path)

    def gettype(self, path):
        return FS.gettype(self, path)

    def getsize(self, path):
        return FS.getsize(self, path)

    def makedirs(self, path, permissions=None, recreate=False):
        return FS.makedirs(self, path, permissions=permissions, recreate=recreate)

    def open(self, path, mode="r", buffering=-1, encoding=None, errors=None, newline="",
             **options):
        options.pop("line_buffering", None)
        return FS.open(self, path, mode=mode, buffering=buffering, encoding=encoding,
                       errors=errors, newline=newline, **options)

    def readbytes(self, path):
        return FS.readbytes(self, path)

    def writebytes(self, path, contents):
        return FS.writebytes(self, path, contents)

    def create(self, path, wipe=False):
        return FS.create(self, path, wipe=wipe)

    def touch(self, path):
        return FS.touch(self, path)

    def settimes(self, path, accessed=None, modified=None):
        return FS.settimes(self, path, accessed=accessed, modified=modified)

    def filterdir(self, *args, **kwargs):
        return FS.filterdir(self, *args, **kwargs)

    # ---- syspath visibility
    def hassyspath(self, path):
        return self.syspath and self._wrap_fs.hassyspath(path)

    def getsyspath(self, path):
        if not self.syspath:
            raise fs.errors.NoSysPath(path=path)
        return self._wrap_fs.getsyspath(path)

    def getmeta(self, namespace="standard"):
        meta = dict(self._wrap_fs.getmeta(namespace=namespace))
        if not self.syspath:
            meta["supports_rename"] = False
        return meta


# --------------------------------------------------------------------------- native style

ROLES = {}            # id(fs object) -> role
ROOT_ROLES = {}       # root directory -> role, for the OSFS objects the library opens itself from an FS URL
_PATCHES = []         # (owner, name, original)
_INSTALLED = [False]


def _role_of(obj):
    role = ROLES.get(id(obj))
    if role is None and ROOT_ROLES and isinstance(obj, OSFS):
        role = ROOT_ROLES.get(getattr(obj, "root_path", None))
    return role or "tmp:" + type(obj).__name__


def _patch(owner, name, new):
    _PATCHES.append((owner, name, owner.__dict__[name] if isinstance(owner, type) else getattr(owner, name)))
    setattr(owner, name, new)


def _native_on():
    return INJ.armed and INJ.native


def _wrap_simple(cls, name):
    orig = cls.__dict__[name]

    def wrapper(self, path, *args, **kwargs):
        if _native_on():
            INJ.point(name, _role_of(self), path)
        return orig(self, path, *args, **kwargs)
    wrapper.__name__ = name
    _patch(cls, name, wrapper)


def _wrap_scandir(cls):
    orig = cls.__dict__["scandir"]

    def scandir(self, path, namespaces=None, page=None):
        if _native_on():
            INJ.point("scandir", _role_of(self), path)
        for info in orig(self, path, namespaces=namespaces, page=page):
            yield info
    _patch(cls, "scandir", scandir)


def _wrap_openbin(cls, buffered):
    orig = cls.__dict__["openbin"]

    def openbin(self, path, mode="r", buffering=-1, **options):
        if not _native_on():
            return orig(self, path, mode=mode, buffering=buffering, **options)
        writing = any(c in mode for c in "wax+")
        INJ.point("openbin.w" if writing else "openbin.r", _role_of(self), path)
        real = orig(self, path, mode=mode, buffering=buffering, **options)
        return FileProxy(real, _role_of(self), path, buffered=buffered and writing,
                         cap=CAPS.get(id(self)))
    _patch(cls, "openbin", openbin)


def _wrap_osfs_open():
    orig = OSFS.__dict__["open"]

    def open(self, path, mode="r", *args, **kwargs):   # noqa: A001
        if not _native_on() or "b" not in mode:
            return orig(self, path, mode, *args, **kwargs)
        writing = any(c in mode for c in "wax+")
        INJ.point("open.w" if writing else "open.r", _role_of(self), path)
        real = orig(self, path, mode, *args, **kwargs)
        return FileProxy(real, _role_of(self), path, buffered=writing, cap=CAPS.get(id(self)))
    _patch(OSFS, "open", open)


def _wrap_direntry(name):
    orig = _memoryfs._DirEntry.__dict__[name]

    def wrapper(self, entry_name, *args):
        if _native_on():
            INJ.point("mem." + name, "mem", entry_name)
        return orig(self, entry_name, *args)
    _patch(_memoryfs._DirEntry, name, wrapper)


class _OsShim(object):
    def __init__(self, real):
        self._real = real

    def __getattr__(self, name):
        return getattr(self._real, name)

    def rename(self, a, b):
        INJ.point("os.rename", "os", a)
        if INJ.armed and INJ.no_rename:
            # environment condition, not a fault: e.g. source and destination on different devices
            raise OSError(errno.EXDEV, "Invalid cross-device link (simulated)")
        return self._real.rename(a, b)


CAPS = {}             # id(fs object) -> read cap (native style)


def install():
    if _INSTALLED[0]:
        return
    _INSTALLED[0] = True
    for cls in (MemoryFS, OSFS):
        for name in ("getinfo", "listdir", "makedir", "remove", "removedir", "setinfo"):
            _wrap_simple(cls, name)
        _wrap_scandir(cls)
        _wrap_openbin(cls, buffered=cls is OSFS)
    _wrap_osfs_open()
    _wrap_direntry("set_entry")
    _wrap_direntry("remove_entry")
    _patch(_base, "os", _OsShim(os))
    _patch(_bulk, "Queue", HaltQueue)
    old_hook = threading.excepthook

    def hook(args):
        if args.exc_type is Halt:
            return
        old_hook(args)
    _patch(threading, "excepthook", hook)


def uninstall():
    while _PATCHES:
        owner, name, orig = _PATCHES.pop()
        setattr(owner, name, orig)
    _INSTALLED[0] = False


# --------------------------------------------------------------------------- worlds

def _abs(p):
    return "/" + p.strip("/")


def _join(prefix, p):
    return (prefix.rstrip("/") + _abs(p)) if p.strip("/") else (prefix.rstrip("/") or "/")


def _enc(b):
    return bytes(b).decode("latin-1")


def _dec(s):
    return s.encode("latin-1")


def populate(raw, prefix, tree):
    raw.makedirs(prefix, recreate=True)
    for d in tree.get("dirs", []):
        raw.makedirs(_join(prefix, d), recreate=True)
    for p, c in tree.get("files", []):
        full = _join(prefix, p)
        parent = full.rsplit("/", 1)[0] or "/"
        raw.makedirs(parent, recreate=True)
        raw.writebytes(full, _dec(c))


def snapshot(raw, prefix):
    """{abs path relative to prefix: bytes} of the files under prefix, read from the raw storage."""
    out = {}
    if isinstance(raw, OSFS):
        root = raw.getsyspath(prefix)
        if not os.path.isdir(root):
            return out
        for dirpath, _dirs, files in os.walk(root):
            for fn in files:
                full = os.path.join(dirpath, fn)
                rel = "/" + os.path.relpath(full, root).replace(os.sep, "/")
                try:
                    with open(full, "rb") as fh:
                        out[rel] = fh.read()
                except OSError:
                    pass
        return out
    # MemoryFS: walk the entry dictionaries themselves (keys, not entry.name), so that a
    # half re-linked tree is still read as it is stored
    top = raw._get_dir_entry(prefix)
    if top is None or not top.is_dir:
        return out
    seen = set()

    def rec(entry, base):
        if id(entry) in seen:
            return
        seen.add(id(entry))
        for name, child in list(entry._dir.items()):
            if child.is_dir:
                rec(child, base + "/" + name)
            else:
                out[base + "/" + name] = child._bytes_file.getvalue()
    rec(top, "")
    return out


class World(object):
    pass


def build_world(case, tmpbase):
    """Fresh storages with the case's trees, and the filesystem objects handed to the call."""
    w = World()
    style = case["style"]
    backends = case["backends"]
    cap = case.get("read_cap")
    syspath = case.get("syspath", True)
    raws = []

    def storage(kind, name):
        if kind == "mem":
            raw = MemoryFS()
        else:
            d = os.path.join(tmpbase, name)
            shutil.rmtree(d, ignore_errors=True)
            os.makedirs(d)
            raw = OSFS(d)
        raws.append(raw)
        return raw

    multi = None
    mm = re.match(r"^multi\((mem|os)\)>(mem|os)$", backends)
    if mm:
        # the source is a MultiFS: the (fault-injecting) write layer on top of a read-only layer that holds a
        # STALE revision of every source file under the same name (shadowed)
        multi = True
        backends = "%s>%s" % (mm.group(1), mm.group(2))
    m = re.match(r"^(sub|same|subsame)\((mem|os)\)$", backends)
    if m:
        shape, kind = m.group(1), m.group(2)
        raw = storage(kind, "store")
        if shape == "same":
            sides = [(raw, "/"), (raw, "/")]
        elif shape == "subsame":
            sides = [(raw, "/x"), (raw, "/x")]
        else:
            sides = [(raw, "/x"), (raw, "/y")]
    else:
        sk, dk = backends.split(">")
        sides = [(storage(sk, "src"), "/"), (storage(dk, "dst"), "/")]
    (sraw, spre), (draw, dpre) = sides
    populate(sraw, spre, case["src_tree"])
    populate(draw, dpre, case.get("dst_tree", {}))
    ROLES.clear()
    CAPS.clear()
    ROOT_ROLES.clear()
    url = case.get("url")                 # None | "src" | "dst" | "both": that side is given as an FS URL
    url_form = case.get("url_form") or URL_FORMS[0]

    def as_url(raw, prefix, role):
        """The FS URL of a directory of a temp-dir storage (the library opens its own OSFS for it)."""
        if not isinstance(raw, OSFS):
            raise ValueError("an FS URL needs a storage in the temp directory")
        d = os.path.normpath(raw.getsyspath(prefix))
        ROOT_ROLES[d] = role
        return url_form % d

    def present(raw, role):
        """The object the call sees for a raw storage root."""
        if style == "native":
            ROLES[id(raw)] = role
            CAPS[id(raw)] = cap
            return raw
        return FaultFS(raw, role, buffered=isinstance(raw, OSFS), cap=cap,
                       coarse=(style == "wrap-coarse"), syspath=syspath)

    if sraw is draw:
        top = present(sraw, "fs")
        if spre == "/" and dpre == "/":
            w.src_fs = w.dst_fs = top
        elif spre == dpre:
            w.src_fs = w.dst_fs = SubFS(top, spre)
        else:
            w.src_fs = as_url(sraw, spre, "src") if url in ("src", "both") else SubFS(top, spre)
            w.dst_fs = as_url(draw, dpre, "dst") if url in ("dst", "both") else SubFS(top, dpre)
    else:
        w.src_fs = as_url(sraw, spre, "src") if url in ("src", "both") else present(sraw, "src")
        w.dst_fs = as_url(draw, dpre, "dst") if url in ("dst", "both") else present(draw, "dst")
    if multi:
        from fs.multifs import MultiFS
        low = MemoryFS()
        raws.append(low)
        for pth, content in case["src_tree"]["files"]:
            low.makedirs(os.path.dirname("/" + pth), recreate=True)
            low.writebytes(pth, b"STALE-REVISION")
        mfs = MultiFS(auto_close=False)
        mfs.add_fs("low", low, write=False, priority=0)
        mfs.add_fs("top", w.src_fs, write=True, priority=10)
        w.src_fs = mfs
    w.snap_src = lambda: snapshot(sraw, spre)
    w.snap_dst = lambda: snapshot(draw, dpre)

    def cleanup():
        for r in raws:
            try:
                r.close()
            except Exception:
                pass
    w.cleanup = cleanup
    return w


def invoke(case, w):
    a = case["args"]
    f = case["function"]
    if f == "move_file":
        fs.move.move_file(w.src_fs, a["src_path"], w.dst_fs, a["dst_path"],
                          preserve_time=a.get("preserve_time", False))
    elif f == "move_dir":
        fs.move.move_dir(w.src_fs, a["src_path"], w.dst_fs, a["dst_path"],
                         workers=a.get("workers", 0), preserve_time=a.get("preserve_time", False))
    elif f == "move_fs":
        fs.move.move_fs(w.src_fs, w.dst_fs, workers=a.get("workers", 0),
                        preserve_time=a.get("preserve_time", False))
    elif f == "FS.move":
        w.src_fs.move(a["src_path"], a["dst_path"], overwrite=a.get("overwrite", False),
                      preserve_time=a.get("preserve_time", False))
    elif f == "FS.movedir":
        w.src_fs.movedir(a["src_path"], a["dst_path"], create=a.get("create", False),
                         preserve_time=a.get("preserve_time", False))
    else:
        raise ValueError(f)


def scope_map(case, before):
    """{source path: destination path} for the files the call is asked to move."""
    a = case["args"]
    f = case["function"]
    if f in ("move_file", "FS.move"):
        s = _abs(a["src_path"])
        return {s: _abs(a["dst_path"])} if s in before else {}
    if f == "move_fs":
        return dict((p, p) for p in before)
    s = _abs(a["src_path"]).rstrip("/")
    d = _abs(a["dst_path"]).rstrip("/")
    out = {}
    for p in before:
        if p.startswith(s + "/"):
            out[p] = d + p[len(s):]
    return out


# --------------------------------------------------------------------------- one run

class _Alarm(object):
    def __init__(self, seconds):
        self.seconds = seconds
        self.active = threading.current_thread() is threading.main_thread()

    def __enter__(self):
        if self.active:
            def handler(_sig, _frm):
                raise WatchdogTimeout()
            self.old = signal.signal(signal.SIGALRM, handler)
            signal.setitimer(signal.ITIMER_REAL, self.seconds)

    def __exit__(self, *exc):
        if self.active:
            signal.setitimer(signal.ITIMER_REAL, 0)
            signal.signal(signal.SIGALRM, self.old)


def _join_workers():
    for t in threading.enumerate():
        if isinstance(t, _bulk._Worker):
            t.join(3.0)


def run_once(case, tmpbase, target=None, kind=None, prefix=False):
    """Build the world, run the call with the given fault, return the observations."""
    INJ.armed = False
    INJ.tmpbase = tmpbase
    w = build_world(case, tmpbase)
    try:
        before = w.snap_src()
        INJ.reset(target, kind, prefix)
        INJ.native = case["style"] == "native"
        INJ.no_rename = bool(case.get("no_rename"))
        outcome = "ok"
        error = None
        try:
            with _Alarm(WATCHDOG_S):
                try:
                    INJ.armed = True
                    invoke(case, w)
                finally:
                    # a stopped process: the other threads stop at their next step as well
                    if INJ.halted:
                        _join_workers()
                    INJ.armed = False
        except WatchdogTimeout:
            outcome = "hang"
        except Halt:
            outcome = "stopped"
        except Crash:
            outcome = "stopped"
        except BaseException as e:  # noqa
            outcome = "raised"
            error = type(e).__name__
            if isinstance(e, fs.errors.BulkCopyFailed):
                error += "[" + ",".join(sorted(set(type(x).__name__ for x in e.errors))) + "]"
        INJ.armed = False
        _join_workers()
        with _Alarm(WATCHDOG_S):
            src_after = w.snap_src()
            dst_after = w.snap_dst()
        return dict(before=before, outcome=outcome, error=error, trace=list(INJ.trace),
                    fired=INJ.fired, fired_in_worker=INJ.fired_in_worker,
                    src_after=src_after, dst_after=dst_after)
    finally:
        INJ.armed = False
        w.cleanup()


def judge(case, res, kind):
    """List of (violation kind, detail) for one run."""
    before = res["before"]
    mp = scope_map(case, before)
    out = []
    lost = []
    for p, q in sorted(mp.items()):
        b = before[p]
        if res["src_after"].get(p) != b and res["dst_after"].get(q) != b:
            lost.append(dict(path=p, dst_path=q, original=_enc(b),
                             at_source=_optenc(res["src_after"].get(p)),
                             at_destination=_optenc(res["dst_after"].get(q))))
    if lost:
        out.append(("source-data-lost", lost))
    if res["outcome"] == "hang":
        out.append(("failure-not-reported", "the call did not return within %gs" % WATCHDOG_S))
    elif res["fired"] is not None and res["outcome"] == "ok":
        prim = res["trace"][res["fired"]][0]
        why = RECOVERED_BY_DESIGN.get((prim, kind))
        moved = all(p not in res["src_after"] or mp[p] == p for p in mp) and \
            all(res["dst_after"].get(q) == before[p] for p, q in mp.items())
        if kind.startswith("fs:"):
            # a specific fs.errors class is an ANSWER of the primitive as much as a failure ("not there", "already
            # there", "not a directory"): the code may act on it and go on -- but a call that then returns
            # normally must have completed the move (and, above, nothing may be lost either way)
            if not moved:
                out.append(("failure-not-reported", "step %d (%s) raised %s and the call returned normally, but "
                            "the move is incomplete" % (res["fired"], prim, kind[3:])))
        elif why is None:
            out.append(("failure-not-reported", "the call returned normally although step %d (%s) "
                        "raised" % (res["fired"], prim)))
        elif not moved:
            out.append(("failure-not-reported", "recovered by design (%s) but the move is "
                        "incomplete" % why))
    return out


def _optenc(b):
    return None if b is None else _enc(b)


def fully_moved(case, res):
    before = res["before"]
    mp = scope_map(case, before)
    if not mp:
        return False
    for p, q in mp.items():
        if p != q and p in res["src_after"]:
            return False
        if res["dst_after"].get(q) != before[p]:
            return False
    return True


def key_str(key):
    return "%s %s %s#%d" % (key[0], key[1], key[2], key[3])


def outcome_class(case, res):
    before = res["before"]
    mp = scope_map(case, before)
    intact = all(res["src_after"].get(p) == before[p] for p in mp)
    complete = all(res["dst_after"].get(q) == before[p] for p, q in mp.items())
    return "%s/%s%s" % (res["outcome"], "source-intact" if intact else "source-changed",
                        "+destination-complete" if complete else "")


# --------------------------------------------------------------------------- cases

def T(files=(), dirs=()):
    return dict(files=[[p, c] for p, c in files], dirs=list(dirs))


FILE_TREES = [
    ("one", T([("f.txt", "hello")]), "f.txt"),
    ("empty", T([("f.txt", "")]), "f.txt"),
    ("nested", T([("a/b/f.bin", "0123456789"), ("a/other", "zz")]), "a/b/f.bin"),
]

DIR_TREES = [
    ("flat3", T([("d/a", "A1"), ("d/b", ""), ("d/c.txt", "CCCC")])),
    ("nested", T([("d/a", "A"), ("d/s/b", "BB"), ("d/s/t/c", "")], dirs=["d/e"])),
    ("six", T([("d/f0", "0"), ("d/f1", ""), ("d/f2", "22"), ("d/s/f3", "333"), ("d/s/f4", "4444"),
               ("d/s/u/f5", "55555")])),
    ("one", T([("d/only", "data")])),
    ("emptydir", T([], dirs=["d"])),
]


def _fs_tree(tree):
    """The same tree with the 'd/' level removed (for move_fs: the tree is the whole fs)."""
    files = [[p[2:], c] for p, c in tree["files"]]
    dirs = [d[2:] for d in tree["dirs"] if d[2:]]
    return dict(files=files, dirs=dirs)


# (backend pair, sides that can be given as an FS URL): a URL needs a directory of the temp dir behind it
URL_PAIRS = [("os>os", ("src", "dst", "both")), ("os>mem", ("src",)), ("mem>os", ("dst",)),
             ("sub(os)", ("src", "dst", "both"))]


def all_cases(tier, seed):
    """The list of cases (dicts).  Deterministic for (tier, seed)."""
    rnd = random.Random(seed + 7)
    thorough = tier == "thorough"
    cases = []

    def add(function, style, backends, src_tree, dst_tree, args, **extra):
        c = dict(function=function, style=style, backends=backends, src_tree=src_tree,
                 dst_tree=dst_tree, args=args)
        c.update(extra)
        cases.append(c)

    pairs = ["mem>mem", "mem>os", "os>mem", "os>os", "sub(mem)", "sub(os)"]
    # ---- move_file between filesystems
    for tname, tree, fpath in FILE_TREES:
        for backends in pairs:
            for style in ("wrap", "wrap-coarse", "native"):
                for dst_tree, dpath in ((T(), "g.txt"), (T([("g.txt", "OLD-CONTENT")]), "g.txt"),
                                        (T([], dirs=["n"]), "n/g.txt")):
                    for pt in (False, True):
                        for cap in (None, 2):
                            for syspath in (True, False):
                                if not syspath and ("os" not in backends or style == "native"):
                                    continue
                                add("move_file", style, backends, tree, dst_tree,
                                    dict(src_path=fpath, dst_path=dpath, preserve_time=pt),
                                    read_cap=cap, syspath=syspath)
                                if style == "native" and backends in ("os>os", "sub(os)"):
                                    # os.rename unavailable (EXDEV): OSFS(common).move copies
                                    add("move_file", style, backends, tree, dst_tree,
                                        dict(src_path=fpath, dst_path=dpath, preserve_time=pt),
                                        read_cap=cap, syspath=syspath, no_rename=True)
        # same filesystem object: move_file delegates to fs.move(overwrite=True)
        for backends in ("same(mem)", "same(os)"):
            for style in ("wrap", "native"):
                for pt in (False, True):
                    extra_file = [["g.txt", "OLD-CONTENT"]]
                    for clash in (False, True):
                        st = dict(files=tree["files"] + (extra_file if clash else []), dirs=tree["dirs"])
                        add("move_file", style, backends, st, T(),
                            dict(src_path=fpath, dst_path="g.txt", preserve_time=pt), read_cap=None)
                        if "os" in backends:
                            add("move_file", style, backends, st, T(),
                                dict(src_path=fpath, dst_path="g.txt", preserve_time=pt), read_cap=2,
                                no_rename=True)
    # ---- the source is a MultiFS whose write layer shadows stale revisions in a lower layer
    for tname, tree, fpath in FILE_TREES:
        for backends in ("multi(mem)>mem", "multi(os)>mem"):
            for pt in (False, True):
                add("move_file", "wrap", backends, tree, T(), dict(src_path=fpath, dst_path="g.txt", preserve_time=pt),
                    read_cap=None)
    for tname, tree in DIR_TREES:
        for workers in (0, 2):
            add("move_dir", "wrap", "multi(mem)>mem", tree, T(),
                dict(src_path="d", dst_path="e", workers=workers, preserve_time=False), read_cap=None)
    # ---- FS.move on the filesystem itself
    for tname, tree, fpath in FILE_TREES:
        for backends in ("same(mem)", "same(os)", "subsame(mem)", "subsame(os)"):
            for style in ("wrap", "wrap-coarse", "native"):
                for pt in (False, True):
                    for cap in (None, 2):
                        for syspath in (True, False):
                            if not syspath and ("os" not in backends or style == "native"):
                                continue
                            add("FS.move", style, backends, tree, T(),
                                dict(src_path=fpath, dst_path="g.txt", overwrite=False, preserve_time=pt),
                                read_cap=cap, syspath=syspath)
                            st = dict(files=tree["files"] + [["g.txt", "OLD-CONTENT"]], dirs=tree["dirs"])
                            add("FS.move", style, backends, st, T(),
                                dict(src_path=fpath, dst_path="g.txt", overwrite=True, preserve_time=pt),
                                read_cap=cap, syspath=syspath)
                            if "os" in backends and syspath:
                                add("FS.move", style, backends, st, T(),
                                    dict(src_path=fpath, dst_path="g.txt", overwrite=True, preserve_time=pt),
                                    read_cap=cap, syspath=syspath, no_rename=True)
    # ---- move_dir / move_fs between filesystems, with and without workers
    for tname, tree in DIR_TREES:
        for backends in pairs:
            for style in ("wrap", "wrap-coarse", "native"):
                for workers in (0, 1, 2, 4):
                    for pt in (False, True):
                        for dst_tree, dpath in ((T(), "e"), (T([("e/a", "OLD"), ("e/z", "keep")]), "e"),
                                                (T(), "d")):
                            add("move_dir", style, backends, tree, dst_tree,
                                dict(src_path="d", dst_path=dpath, workers=workers, preserve_time=pt),
                                read_cap=rnd.choice([None, 2]))
                        if not backends.startswith("sub") or True:
                            add("move_fs", style, backends, _fs_tree(tree),
                                rnd.choice([T(), T([("a", "OLD"), ("z", "keep")])]),
                                dict(workers=workers, preserve_time=pt), read_cap=rnd.choice([None, 2]))
    # ---- the source and / or the destination given as an FS URL (fs.move opens and closes its own filesystem
    # objects through fs.opener.manage_fs); native: the objects the library opens are fault points as well,
    # wrap: the side still given as an object is the fault-injecting proxy
    for tname, tree, fpath in FILE_TREES:
        for backends, sides in URL_PAIRS:
            for url in sides:
                for style in ("native", "wrap"):
                    if style == "wrap" and url == "both":
                        continue          # nothing would be instrumented
                    for dst_tree, dpath in ((T(), "g.txt"), (T([("g.txt", "OLD-CONTENT")]), "g.txt"),
                                            (T([], dirs=["n"]), "n/g.txt")):
                        for pt in (False, True):
                            for form in URL_FORMS:
                                add("move_file", style, backends, tree, dst_tree,
                                    dict(src_path=fpath, dst_path=dpath, preserve_time=pt),
                                    read_cap=rnd.choice([None, 2]), url=url, url_form=form)
                                if style == "native" and backends in ("os>os", "sub(os)"):
                                    add("move_file", style, backends, tree, dst_tree,
                                        dict(src_path=fpath, dst_path=dpath, preserve_time=pt),
                                        read_cap=rnd.choice([None, 2]), url=url, url_form=form, no_rename=True)
    for tname, tree in DIR_TREES:
        for backends, sides in URL_PAIRS:
            for url in sides:
                for style in ("native", "wrap"):
                    if style == "wrap" and url == "both":
                        continue
                    for workers in (0, 1, 2, 4):
                        for pt in (False, True):
                            for form in URL_FORMS:
                                for dst_tree, dpath in ((T(), "e"), (T([("e/a", "OLD"), ("e/z", "keep")]), "e"),
                                                        (T(), "d")):
                                    add("move_dir", style, backends, tree, dst_tree,
                                        dict(src_path="d", dst_path=dpath, workers=workers, preserve_time=pt),
                                        read_cap=rnd.choice([None, 2]), url=url, url_form=form)
                                add("move_fs", style, backends, _fs_tree(tree),
                                    rnd.choice([T(), T([("a", "OLD"), ("z", "keep")])]),
                                    dict(workers=workers, preserve_time=pt), read_cap=rnd.choice([None, 2]),
                                    url=url, url_form=form)
    # ---- FS.movedir on the filesystem itself
    for tname, tree in DIR_TREES:
        for backends in ("same(mem)", "same(os)", "subsame(mem)", "subsame(os)"):
            for style in ("wrap", "wrap-coarse", "native"):
                for pt in (False, True):
                    add("FS.movedir", style, backends, tree, T(),
                        dict(src_path="d", dst_path="e", create=True, preserve_time=pt))
                    st = dict(files=tree["files"] + [["e/a", "OLD"], ["e/z", "keep"]], dirs=tree["dirs"])
                    add("FS.movedir", style, backends, st, T(),
                        dict(src_path="d", dst_path="e", create=False, preserve_time=pt))
                    st2 = dict(files=tree["files"], dirs=tree["dirs"] + ["n"])
                    add("FS.movedir", style, backends, st2, T(),
                        dict(src_path="d", dst_path="n/e", create=True, preserve_time=pt))
    return cases


def select_cases(tier, seed):
    """The cases in the order they are explored, and the size of the generator's universe.

    A stratified sample comes first (every function x style x backend pair x workers>0 x
    rename-unavailable stratum: 3 cases, 2 when a temp directory is involved; x which side is given
    as an FS URL: 1 case per function x style x URL side x workers>0 x rename-unavailable, rotating over
    the backend pairs and the URL spellings); quick stops
    there (and leaves out the 6-file trees), thorough continues with all remaining cases in
    random order until its time budget is used."""
    cases = all_cases(tier, seed)
    universe = len(cases)
    rnd = random.Random(seed + 11)
    pool = cases if tier == "thorough" else [c for c in cases if len(c["src_tree"]["files"]) < 6]
    strata = {}
    for c in pool:
        k = (c["function"], c["style"], c["backends"], c["args"].get("workers", 0) > 0,
             bool(c.get("no_rename")), c.get("url") or "")
        strata.setdefault(k, []).append(c)
    chosen = []
    for k in sorted(kk for kk in strata if not kk[5]):
        group = strata[k]
        n = 3 if "os" not in k[2] else 2
        chosen.extend(rnd.sample(group, min(n, len(group))))
    rnd.shuffle(chosen)
    # the FS URL cases are drawn with their own generator, so that the sample of the other strata for a seed
    # does not depend on them.  Strata: function x style x which side is a URL x workers>0 x rename-unavailable;
    # within a stratum the backend pair and the URL spelling rotate with the stratum index and the seed
    # (quick: 1 case per stratum; thorough: 1 per backend pair, then everything else)
    urnd = random.Random(seed + 13)
    ustrata = {}
    for k in sorted(kk for kk in strata if kk[5]):
        ustrata.setdefault((k[0], k[1], k[5], k[3], k[4]), {})[k[2]] = strata[k]
    uchosen = []
    for i, k in enumerate(sorted(ustrata)):
        by_backend = ustrata[k]
        names = sorted(by_backend)
        picks = names if tier == "thorough" else [names[(i + seed) % len(names)]]
        for j, b in enumerate(picks):
            form = URL_FORMS[(i + j + seed) % len(URL_FORMS)]
            group = [c for c in by_backend[b] if c.get("url_form") == form] or by_backend[b]
            uchosen.append(urnd.choice(group))
    # interleave: the URL cases involve a temp directory and are among the slower ones
    step = max(1, len(chosen) // max(1, len(uchosen)))
    merged = []
    ui = 0
    for i, c in enumerate(chosen):
        merged.append(c)
        if i % step == step - 1 and ui < len(uchosen):
            merged.append(uchosen[ui])
            ui += 1
    merged.extend(uchosen[ui:])
    chosen = merged
    if tier != "thorough":
        return chosen, universe
    picked = set(id(c) for c in chosen)
    rest = [c for c in cases if id(c) not in picked]
    rnd.shuffle(rest)
    return chosen + rest, universe


def fault_kinds(case):
    if case["args"].get("workers", 0) > 0:
        return ("fserror", "oserror", "halt")
    return ("fserror", "oserror", "crash", "halt")


def explore_case(case, tmpbase, repeats=1, stats=None, class_mode="quick", seed=0, only_kind=None):
    """Enumerate every fault of one case.  Returns (n_steps, runs, violations, baseline_ok)."""
    base = run_once(case, tmpbase)
    if base["outcome"] != "ok" or not (fully_moved(case, base) or not scope_map(case, base["before"])):
        return 0, 0, [], False, base
    trace = base["trace"]
    n = len(trace)
    workers = case["args"].get("workers", 0)
    violations = []
    runs = 0
    for rep in range(repeats if workers > 0 else 1):
        for k in range(n):
            prim = trace[k][0]
            kinds = fault_kinds(case)
            if prim in ("read", "write", "close", "upload", "readinto", "flush"):
                kinds = kinds + ("oserror-EINTR", "oserror-ENOENT", "oserror-EAGAIN")
            kinds = kinds + class_kinds(case, k, prim, rep, class_mode, seed)
            if only_kind is not None:
                kinds = (only_kind,)
            for kind in kinds:
                if prim == "os.rename" and (kind == "fserror" or kind.startswith("fs:")):
                    continue          # os.rename raises OSError only
                for prefix in ((False, True) if prim in ("write", "upload") else (False,)):
                    target = k if workers == 0 else trace[k]
                    res = run_once(case, tmpbase, target, kind, prefix)
                    runs += 1
                    fkind = kind + ("+prefix" if prefix else "")
                    if stats is not None:
                        stats["by_primitive"][prim] = stats["by_primitive"].get(prim, 0) + 1
                        stats["by_kind"][fkind] = stats["by_kind"].get(fkind, 0) + 1
                        if kind.startswith("fs:"):
                            ck = "%s %s" % (prim, kind[3:])
                            stats["class_faults"][ck] = stats["class_faults"].get(ck, 0) + 1
                            if res["outcome"] == "ok" and res["fired"] is not None:
                                stats["class_taken_as_answer"][ck] = stats["class_taken_as_answer"].get(ck, 0) + 1
                        oc = outcome_class(case, res)
                        stats["outcomes"][oc] = stats["outcomes"].get(oc, 0) + 1
                        if res["fired"] is None:
                            stats["not_fired"] += 1
                        elif res["before"] and scope_map(case, res["before"]):
                            stats["nontrivial"] += 1
                        if res["error"]:
                            stats["errors"][res["error"]] = stats["errors"].get(res["error"], 0) + 1
                        if workers == 0 and res["trace"][:k + 1] != trace[:k + 1]:
                            stats["nondeterministic"] += 1
                    for vkind, detail in judge(case, res, kind.split("-")[0]):
                        violations.append(dict(kind=vkind, detail=detail, fault_step=k,
                                               fault_key=list(trace[k]), fault_kind=fkind,
                                               primitive=prim, res=res))
    return n, runs, violations, True, base


def signature(case, v):
    sig = "%s %s %s %s" % (v["kind"], case["function"], v["primitive"], v["fault_kind"])
    if v["fault_kind"].startswith("fs:") and case["backends"].startswith("multi("):
        # a layered source: an answer of ONE layer re-routes the call to another layer (MultiFS semantics), which no
        # other backend shape can show -- kept apart so that it cannot stand for a loss on a plain filesystem
        sig += " [multifs-source]"
    return sig


# --------------------------------------------------------------------------- real failures

def _dst_of_tree(function, args, rel):
    """Destination-side path (relative to the destination root) of the source-side path rel."""
    if function == "move_fs":
        return rel.strip("/")
    s_ = args["src_path"].strip("/")
    d_ = args["dst_path"].strip("/")
    rel = rel.strip("/")
    assert rel == s_ or rel.startswith(s_ + "/")
    return (d_ + rel[len(s_):]).strip("/")


def real_failure_cases(tier, seed):
    """Cases whose destination holds an obstacle the backend itself refuses (nothing is injected): the call
    cannot complete, so it has to raise, and no source file may be lost.  Every entry point x objects / proxies /
    FS URLs x backend pair x workers.  Quick: 2 per (function, style, backends, URL side, workers>0) stratum."""
    rnd = random.Random(seed + 29)
    thorough = tier == "thorough"
    cases = []

    def add(function, style, backends, src_tree, dst_tree, args, real, **extra):
        c = dict(function=function, style=style, backends=backends, src_tree=src_tree, dst_tree=dst_tree,
                 args=args, real=real, read_cap=None)
        c.update(extra)
        cases.append(c)

    forms = []        # (style, backends, url)
    for backends in ("mem>mem", "mem>os", "os>mem", "os>os", "sub(mem)", "sub(os)"):
        for style in ("native", "wrap", "wrap-coarse"):
            forms.append((style, backends, None))
    for backends, sides in URL_PAIRS:
        for url in sides:
            for style in ("native", "wrap"):
                forms.append((style, backends, url))
    for style, backends, url in forms:
        ux = dict(url=url) if url else {}
        for tname, tree, fpath in FILE_TREES:
            for pt in (False, True):
                for real, dst_tree, dpath in (
                        ("dir-in-the-way", T([("g.txt/keep", "K")]), "g.txt"),
                        ("empty-dir-in-the-way", T([], dirs=["g.txt"]), "g.txt"),
                        ("missing-parent", T(), "nope/g.txt"),
                        ("parent-is-a-file", T([("n", "not a directory")]), "n/g.txt")):
                    add("move_file", style, backends, tree, dst_tree,
                        dict(src_path=fpath, dst_path=dpath, preserve_time=pt), real,
                        url_form=rnd.choice(URL_FORMS), **ux)
        for tname, tree in DIR_TREES:
            files = sorted(p for p, _c in tree["files"])
            if not files:
                continue
            subdirs = sorted(set(p.rsplit("/", 1)[0] for p in files if p.count("/") > 1))
            for function in ("move_dir", "move_fs"):
                st = _fs_tree(tree) if function == "move_fs" else tree
                for workers in ((0, 1, 2, 4) if thorough else (0, 2)):
                    for pt in (False, True):
                        a = dict(workers=workers, preserve_time=pt)
                        if function == "move_dir":
                            a.update(src_path="d", dst_path=rnd.choice(["e", "d"]))
                        obstacles = []
                        for which, p in (("first", files[0]), ("last", files[-1])):
                            q = _dst_of_tree(function, a, p if function == "move_dir" else p[2:])
                            obstacles.append(("dir-in-the-way-of-%s-file" % which, T([(q + "/keep", "K")])))
                        q = _dst_of_tree(function, a, files[len(files) // 2] if function == "move_dir"
                                         else files[len(files) // 2][2:])
                        obstacles.append(("empty-dir-in-the-way", T([("zz-keep", "K")], dirs=[q])))
                        for sd in subdirs[:1]:
                            q = _dst_of_tree(function, a, sd if function == "move_dir" else sd[2:])
                            obstacles.append(("file-in-the-way-of-dir", T([(q, "not a directory")])))
                        for real, dst_tree in obstacles:
                            add(function, style, backends, st, dst_tree, dict(a), real,
                                url_form=rnd.choice(URL_FORMS), **ux)
    # FS.move / FS.movedir on the filesystem itself
    for backends in ("same(mem)", "same(os)", "subsame(mem)", "subsame(os)"):
        for style in ("native", "wrap", "wrap-coarse"):
            for tname, tree, fpath in FILE_TREES:
                for pt in (False, True):
                    for real, more_f, more_d, dpath in (
                            ("dir-in-the-way", [["g.txt/keep", "K"]], [], "g.txt"),
                            ("empty-dir-in-the-way", [], ["g.txt"], "g.txt"),
                            ("missing-parent", [], [], "nope/g.txt"),
                            ("parent-is-a-file", [["n", "not a directory"]], [], "n/g.txt")):
                        st = dict(files=tree["files"] + more_f, dirs=tree["dirs"] + more_d)
                        add("FS.move", style, backends, st, T(),
                            dict(src_path=fpath, dst_path=dpath, overwrite=True, preserve_time=pt), real)
            for tname, tree in DIR_TREES:
                files = sorted(p for p, _c in tree["files"])
                if not files:
                    continue
                for pt in (False, True):
                    for real, more_f, more_d, dpath, create in (
                            ("dir-in-the-way-of-first-file", [["e" + files[0][1:] + "/keep", "K"]], [], "e", False),
                            ("dir-in-the-way-of-last-file", [["e" + files[-1][1:] + "/keep", "K"]], [], "e", True),
                            ("missing-destination", [], [], "e", False),
                            ("missing-parent", [], [], "nope/e", False),
                            ("destination-is-a-file", [["e", "not a directory"]], [], "e", True)):
                        st = dict(files=tree["files"] + more_f, dirs=tree["dirs"] + more_d)
                        add("FS.movedir", style, backends, st, T(),
                            dict(src_path="d", dst_path=dpath, create=create, preserve_time=pt), real)
    universe = len(cases)
    if thorough:
        return cases, universe
    strata = {}
    for c in cases:
        if len(c["src_tree"]["files"]) >= 6:
            continue
        k = (c["function"], c["style"], c["backends"], c.get("url") or "", c["args"].get("workers", 0) > 0)
        strata.setdefault(k, []).append(c)
    chosen = []
    for k in sorted(strata):
        group = strata[k]
        first = rnd.choice(group)
        chosen.append(first)
        other = [c for c in group if c["real"] != first["real"]]
        if other:
            chosen.append(rnd.choice(other))
    return chosen, universe


def judge_real(case, res):
    """Predicate for a run in which nothing was injected: no source data lost; returned normally => moved."""
    out = [v for v in judge(case, res, "real") if v[0] == "source-data-lost" or res["outcome"] == "hang"]
    if res["outcome"] == "ok" and scope_map(case, res["before"]) and not fully_moved(case, res):
        out.append(("failure-not-reported", "the call returned normally but the move is incomplete "
                    "(obstacle at the destination: %s)" % case.get("real")))
    return out


def real_failure_sweep(tier, seed, tmpbase, deadline):
    cases, universe = real_failure_cases(tier, seed)
    agg = dict(universe=universe, selected=len(cases), runs=0, raised=0, completed=0, skipped_for_time=0,
               by_function={}, by_form={}, by_obstacle={}, errors={}, findings={}, sig_counts={})
    for idx, case in enumerate(cases):
        if time.time() > deadline:
            agg["skipped_for_time"] = len(cases) - idx
            break
        for rep in range(2 if case["args"].get("workers", 0) > 0 else 1):
            res = run_once(case, tmpbase)
            agg["runs"] += 1
            agg["raised" if res["outcome"] == "raised" else "completed"] += 1
            form = "%s/%s" % (case["style"], "url=" + case["url"] if case.get("url") else "objects")
            for name, key in (("by_function", case["function"]), ("by_form", form), ("by_obstacle", case["real"]),
                              ("errors", res["error"] or res["outcome"])):
                agg[name][key] = agg[name].get(key, 0) + 1
            for vkind, detail in judge_real(case, res):
                v = dict(kind=vkind, detail=detail, fault_step=None, fault_key=None, fault_kind="real",
                         primitive="real:" + case["real"], res=res)
                sig = signature(case, v)
                agg["sig_counts"][sig] = agg["sig_counts"].get(sig, 0) + 1
                agg["findings"].setdefault(sig, (case, v))
    return agg


# --------------------------------------------------------------------------- shrinking

def _shrink_candidates(case):
    keep = set()
    a = case["args"]
    if "src_path" in a and case["function"] in ("move_file", "FS.move"):
        keep.add(a["src_path"])
    out = []
    for side in ("src_tree", "dst_tree"):
        tree = case.get(side) or {}
        for i, (p, c) in enumerate(tree.get("files", [])):
            if p not in keep:
                c2 = json.loads(json.dumps(case))
                del c2[side]["files"][i]
                out.append(c2)
        for i in range(len(tree.get("dirs", []))):
            c2 = json.loads(json.dumps(case))
            del c2[side]["dirs"][i]
            out.append(c2)
    for side in ("src_tree", "dst_tree"):
        tree = case.get(side) or {}
        for i, (p, c) in enumerate(tree.get("files", [])):
            if len(c) > 1:
                c2 = json.loads(json.dumps(case))
                c2[side]["files"][i][1] = c[:1]
                out.append(c2)
    if a.get("workers", 0) > 1:
        c2 = json.loads(json.dumps(case))
        c2["args"]["workers"] = 1
        out.append(c2)
    if a.get("preserve_time"):
        c2 = json.loads(json.dumps(case))
        c2["args"]["preserve_time"] = False
        out.append(c2)
    if case.get("read_cap"):
        c2 = json.loads(json.dumps(case))
        c2["read_cap"] = None
        out.append(c2)
    return out


def shrink(case, v, tmpbase, budget_s=20.0):
    """Greedy: smaller trees / simpler arguments that still show the same signature."""
    sig = signature(case, v)
    t0 = time.time()
    best = (case, v)
    progress = True
    while progress and time.time() - t0 < budget_s:
        progress = False
        for cand in _shrink_candidates(best[0]):
            if time.time() - t0 > budget_s:
                break
            try:
                _n, _r, viols, ok, _b = explore_case(cand, tmpbase, repeats=2,
                                                     only_kind=v["fault_kind"].split("+")[0])
            except Exception:
                continue
            hit = [x for x in viols if signature(cand, x) == sig]
            if ok and hit:
                best = (cand, hit[0])
                progress = True
                break
    return best


def payload_of(case, v):
    res = v["res"]
    return dict(kind=v["kind"], function=case["function"], backends=case["backends"],
                style=case["style"], tree=dict(source=case["src_tree"], destination=case.get("dst_tree")),
                args=case["args"], case=case, fault_step=v["fault_step"], fault_key=v["fault_key"],
                fault_kind=v["fault_kind"], primitive=v["primitive"],
                primitives=[key_str(k) for k in res["trace"]], outcome=res["outcome"], error=res["error"],
                detail=v["detail"], signature=signature(case, v), fired_index=res["fired"],
                src_after=dict((p, _enc(b)) for p, b in sorted(res["src_after"].items())),
                dst_after=dict((p, _enc(b)) for p, b in sorted(res["dst_after"].items())),
                theorem=THEOREM)


# --------------------------------------------------------------------------- Coq model tie

def _model_label(key, n):
    prim, role, _path, _occ = key
    if prim == "openbin.r":
        return "POpenSrc %d" % n
    if prim == "openbin.w":
        return "POpenDst %d" % n
    if prim == "read":
        return "PRead %d" % n
    if prim == "write":
        return "PWrite %d" % n
    if prim == "close":
        return ("PCloseSrc %d" if role == "src" else "PCloseDst %d") % n
    if prim == "remove":
        return ("PRemoveSrc %d" if role == "src" else "PRemoveDst %d") % n
    return None


def _coq_bytes(b):
    return "[" + ";".join(str(x) for x in bytearray(b)) + "]"


def _coq_files(d):
    return "[" + ";".join("(%d, %s)" % (n, _coq_bytes(b)) for n, b in d) + "]"


def model_crosscheck(tier, tmpbase):
    """move_file Mem->Mem (wrap style, read cap 2 = the model's chunk size) for every fault
    position, exception kind and write-prefix variant: the implementation's primitive
    sequence, outcome and final file tables must equal the Coq model's (vm_compute)."""
    vo = os.path.join(common.COQ, "Fault", "MoveFault.vo")
    if not os.path.exists(vo):
        return dict(ran=False, reason="Fault/MoveFault.vo not built")
    contents = [b"", b"a", b"abc", b"abcde"] + ([b"abcdefgh"] if tier == "thorough" else [])
    priors = [None, b"OLDOLD"]
    rows = []        # (coq term, expected python tuple, description)
    name_no = 7
    for content in contents:
        for prior in priors:
            case = dict(function="move_file", style="wrap", backends="mem>mem",
                        src_tree=T([("f", _enc(content))]),
                        dst_tree=T([("f", _enc(prior))]) if prior is not None else T(),
                        args=dict(src_path="f", dst_path="f", preserve_time=False), read_cap=2)
            base = run_once(case, tmpbase)
            labels = [_model_label(k, name_no) for k in base["trace"]]
            n = len(base["trace"])
            for k in list(range(n)) + [n, n + 5]:
                for kind, ex in (("fserror", "FSError"), ("oserror", "OSError"), ("crash", "Crash")):
                    for prefix in (False, True):
                        if prefix and (k >= n or base["trace"][k][0] != "write"):
                            continue
                        res = run_once(case, tmpbase, k, kind, prefix)
                        out = "Ok" if res["outcome"] == "ok" else "Raised " + (
                            ex if res["outcome"] == "stopped" or res["error"] in ("OperationFailed", "OSError")
                            else "FSError")
                        srcf = [(name_no, res["src_after"]["/f"])] if "/f" in res["src_after"] else []
                        dstf = [(name_no, res["dst_after"]["/f"])] if "/f" in res["dst_after"] else []
                        s0 = _coq_files([(name_no, content)])
                        d0 = _coq_files([(name_no, prior)] if prior is not None else [])
                        # the proxy's failing write leaves len//2 bytes of its chunk (chunks of
                        # <= 2 bytes here: 1 byte of a full chunk, nothing of a 1-byte chunk)
                        p = 0
                        if prefix:
                            w_index = sum(1 for x in base["trace"][:k] if x[0] == "write")
                            p = len(content[2 * w_index:2 * w_index + 2]) // 2
                        term = ("check (run_move_file 1 %s %d (Some %d) %s %s %d) %s %s (%s)"
                                % (ex, p, k, s0, d0, name_no, _coq_files(srcf), _coq_files(dstf), out))
                        rows.append((term, "content=%r prior=%r k=%d %s prefix=%s" % (content, prior, k, kind, prefix)))
            rows.append(("trace_ok (trace_move_file 1 FSError 0 None %s %s %d) [%s]"
                         % (_coq_files([(name_no, content)]),
                            _coq_files([(name_no, prior)] if prior is not None else []), name_no,
                            ";".join(l for l in labels)), "trace content=%r prior=%r" % (content, prior)))
    n_file_rows = len(rows)
    # ---- move_dir of a flat directory /d -> /d on another MemoryFS (workers = 0).  The
    # implementation performs extra read-only steps the model does not have (copy_structure:
    # getinfo / makedir of the existing destination, one more scan); they are skipped in the
    # alignment (their faults are judged by the predicate only): model step j <-> the j-th
    # implementation step that has a model counterpart.
    dir_cases = [([(0, b"ab"), (1, b""), (2, b"xyz")], []),
                 ([(0, b"ab"), (1, b""), (2, b"xyz")], [(1, b"OLD"), (9, b"keep")]),
                 ([(0, b"q")], []), ([], [(9, b"keep")])]
    if tier == "thorough":
        dir_cases.append(([(0, b"abcde"), (1, b"z"), (2, b""), (3, b"12"), (4, b"345")], [(0, b"O")]))
    for sfiles, dfiles in dir_cases:
        case = dict(function="move_dir", style="wrap", backends="mem>mem",
                    src_tree=T([("d/f%d" % n, _enc(b)) for n, b in sfiles], dirs=["d"]),
                    dst_tree=T([("d/f%d" % n, _enc(b)) for n, b in dfiles]),
                    args=dict(src_path="d", dst_path="d", workers=0, preserve_time=False), read_cap=2)
        base = run_once(case, tmpbase)
        labels = []
        scans = 0
        made = False
        for key in base["trace"]:
            prim, role, path, _occ = key
            lab = None
            if prim == "makedir" and role == "dst" and not made:
                lab, made = "PMakedirDst", True
            elif prim == "scandir" and role == "src":
                scans += 1
                lab = "PScanSrc" if scans >= 2 else None
            elif prim == "removedir" and role == "src":
                lab = "PRemovedirSrc"
            elif prim in ("openbin.r", "openbin.w", "read", "write", "close", "remove"):
                lab = _model_label(key, int(path.rsplit("/f", 1)[1]))
            labels.append(lab)
        m2i = [i for i, lab in enumerate(labels) if lab is not None]
        ids = sorted(set(n for n, _ in sfiles) | set(n for n, _ in dfiles))
        s0, d0 = _coq_files(sfiles), _coq_files(dfiles)
        rows.append(("trace_ok (trace_move_dir 1 FSError 0 None %s %s) [%s]"
                     % (s0, d0, ";".join(labels[i] for i in m2i)), "move_dir trace %r" % (sfiles,)))
        for j, i in list(enumerate(m2i)) + [(len(m2i) + 3, len(base["trace"]) + 3)]:
            for kind, ex in (("fserror", "FSError"), ("oserror", "OSError"), ("crash", "Crash")):
                for prefix in (False, True):
                    if prefix and (i >= len(labels) or base["trace"][i][0] != "write"):
                        continue
                    res = run_once(case, tmpbase, i, kind, prefix)
                    out = "Ok" if res["outcome"] == "ok" else "Raised " + (
                        ex if res["outcome"] == "stopped" or res["error"] in ("OperationFailed", "OSError")
                        else "FSError")
                    p_len = 0
                    if prefix:
                        key = base["trace"][i]
                        content = dict(sfiles)[int(key[2].rsplit("/f", 1)[1])]
                        p_len = len(content[2 * key[3]:2 * key[3] + 2]) // 2
                    srcf = [(n, res["src_after"]["/d/f%d" % n]) for n in ids if "/d/f%d" % n in res["src_after"]]
                    dstf = [(n, res["dst_after"]["/d/f%d" % n]) for n in ids if "/d/f%d" % n in res["dst_after"]]
                    rows.append(("checkd [%s] (run_move_dir 1 %s %d (Some %d) %s %s) %s %s (%s)"
                                 % (";".join(str(n) for n in ids), ex, p_len, j, s0, d0,
                                    _coq_files(srcf), _coq_files(dstf), out),
                                 "move_dir %r model step %d = impl step %d %s prefix=%s"
                                 % (sfiles, j, i, kind, prefix)))
    vfile = os.path.join(tmpbase, "cases_C07.v")
    with open(vfile, "w") as fh:
        fh.write("From Coq Require Import List Arith Bool.\nImport ListNotations.\n"
                 "From PyFS Require Import Fault.MoveFault.\n")
        fh.write("Definition beqb (a b : bytes) : bool := if list_eq_dec Nat.eq_dec a b then true else false.\n"
                 "Definition look (n : name) (l : files) := lookup n l.\n"
                 "Definition oeqb (a b : option bytes) : bool := match a, b with Some x, Some y => beqb x y "
                 "| None, None => true | _, _ => false end.\n"
                 "Definition exn_eqb (a b : exn) : bool := match a, b with FSError, FSError => true "
                 "| OSError, OSError => true | Crash, Crash => true | _, _ => false end.\n"
                 "Definition out_eqb (a b : outcome) : bool := match a, b with Ok, Ok => true "
                 "| Raised x, Raised y => exn_eqb x y | _, _ => false end.\n"
                 "Definition check (r : state * outcome) (s d : files) (o : outcome) : bool :=\n"
                 "  oeqb (look 7 (src (fst r))) (look 7 s) && oeqb (look 7 (dst (fst r))) (look 7 d) "
                 "&& out_eqb (snd r) o.\n"
                 "Definition prim_eq_dec : forall a b : prim, {a = b} + {a <> b}.\n"
                 "Proof. decide equality; apply Nat.eq_dec. Defined.\n"
                 "Definition trace_ok (a b : list prim) : bool := if list_eq_dec prim_eq_dec a b then true else false.\n"
                 "Definition checkd (ns : list name) (r : state * outcome) (s d : files) (o : outcome) : bool :=\n"
                 "  forallb (fun n => oeqb (look n (src (fst r))) (look n s) && oeqb (look n (dst (fst r))) (look n d)) ns "
                 "&& out_eqb (snd r) o.\n")
        fh.write("Definition verdicts : list bool := [\n  ")
        fh.write(";\n  ".join(t for t, _ in rows))
        fh.write("].\n")
        fh.write("Eval vm_compute in (length (filter (fun b => b) verdicts), "
                 "length (filter negb verdicts)).\n")
        fh.write("Eval vm_compute in (map negb verdicts).\n")
    p = subprocess.run(["timeout", "600", "coqc", "-Q", common.COQ, "PyFS", vfile], cwd=tmpbase,
                       stdout=subprocess.PIPE, stderr=subprocess.STDOUT, universal_newlines=True)
    m = re.search(r"=\s*\((\d+)(?:%nat)?,\s*(\d+)(?:%nat)?\)", p.stdout)
    if not m:
        return dict(ran=False, reason="coqc failed: " + p.stdout[-800:])
    good, bad = int(m.group(1)), int(m.group(2))
    mism = []
    if bad:
        flags = re.findall(r"\b(true|false)\b", p.stdout[m.end():])
        mism = [rows[i][1] for i, f in enumerate(flags[:len(rows)]) if f == "true"][:10]
    return dict(ran=True, compared=good + bad, agree=good, disagree=bad, mismatches=mism,
                move_file_comparisons=n_file_rows, move_dir_comparisons=len(rows) - n_file_rows,
                what="Coq model (vm_compute of run_move_file / run_move_dir / trace_*) vs /repo over "
                     "fault-injecting MemoryFS proxies: primitive sequence, outcome class and the "
                     "final source/destination tables for every fault position x FSError/OSError/Crash "
                     "x write-prefix variant")


# --------------------------------------------------------------------------- exploration

def _mktmp():
    base = "/dev/shm" if os.path.isdir("/dev/shm") and os.access("/dev/shm", os.W_OK) else None
    return tempfile.mkdtemp(prefix="pyfs2verif_c07_", dir=base)


def load_local_known():
    if not os.path.exists(KNOWN_LOCAL):
        return []
    try:
        with open(KNOWN_LOCAL) as fh:
            data = json.load(fh)
    except (OSError, ValueError):
        return []
    if isinstance(data, dict):
        data = data.get("known", [])
    return [k for k in data if k.get("property", "C07") == "C07"]


def _new_stats():
    return dict(by_primitive={}, by_kind={}, outcomes={}, errors={}, not_fired=0, nontrivial=0,
                nondeterministic=0, class_faults={}, class_taken_as_answer={})


def _merge_counts(dst, src):
    for k, v in src.items():
        if isinstance(v, dict):
            _merge_counts(dst.setdefault(k, {}), v)
        else:
            dst[k] = dst.get(k, 0) + v


def explore_cases(cases, repeats, deadline, class_mode="quick", seed=0):
    """Enumerate the faults of a list of cases (in this process).  Returns an aggregate."""
    tmpbase = _mktmp()
    agg = dict(stats=_new_stats(), findings={}, sig_counts={}, per_function={}, per_url={}, samples=[],
               cases=0, exhaustive_cases=0, scheduled_cases=0, invalid_cases=0, invalid_samples=[],
               skipped_for_time=0, runs=0, steps=0)
    install()
    try:
        for idx, case in enumerate(cases):
            if time.time() > deadline:
                agg["skipped_for_time"] = len(cases) - idx
                break
            workers = case["args"].get("workers", 0)
            n, runs, viols, ok, base = explore_case(case, tmpbase, repeats=repeats, stats=agg["stats"],
                                                        class_mode=class_mode, seed=seed)
            if not ok:
                agg["invalid_cases"] += 1
                if len(agg["invalid_samples"]) < 3:
                    agg["invalid_samples"].append(dict(case=case, outcome=base["outcome"],
                                                       error=base["error"]))
                continue
            agg["cases"] += 1
            agg["runs"] += runs
            agg["steps"] += n
            agg["exhaustive_cases" if workers == 0 else "scheduled_cases"] += 1
            fk = "%s/%s/%s%s" % (case["function"], case["style"], case["backends"],
                                 "/workers" if workers else "")
            agg["per_function"][fk] = agg["per_function"].get(fk, 0) + runs
            if case.get("url"):
                uk = "%s/%s/url=%s/%s" % (case["function"], case["style"], case["url"],
                                          (case.get("url_form") or URL_FORMS[0]) % "<dir>")
                agg["per_url"][uk] = agg["per_url"].get(uk, 0) + runs
            if len(agg["samples"]) < 2:
                agg["samples"].append(dict(case=case, steps=n, faulty_runs=runs,
                                           primitives=[key_str(k) for k in base["trace"]][:40]))
            for v in viols:
                sig = signature(case, v)
                agg["sig_counts"][sig] = agg["sig_counts"].get(sig, 0) + 1
                if sig not in agg["findings"]:
                    agg["findings"][sig] = (case, v)
    finally:
        INJ.armed = False
        uninstall()
        shutil.rmtree(tmpbase, ignore_errors=True)
    return agg


def _pool_task(args):
    cases, repeats, deadline, class_mode, seed = args
    return explore_cases(cases, repeats, deadline, class_mode, seed)


def explore(tier, seed, time_budget=None, procs=None, progress=False, known_sigs=()):
    """Run the whole enumeration.  Returns a dict: stats, findings (one shrunk representative
    per signature), cases, model tie.  Needs neither common.preflight nor a Report."""
    t0 = time.time()
    thorough = tier == "thorough"
    if time_budget is None:
        time_budget = 900.0 if thorough else 150.0
    if procs is None:
        procs = max(1, min(14 if thorough else 12, (os.cpu_count() or 2) - 1))
    cases, universe = select_cases(tier, seed)
    repeats = 3 if thorough else 2
    class_mode = "thorough" if thorough else "quick"
    deadline = t0 + time_budget
    if procs > 1:
        import multiprocessing
        ctx = multiprocessing.get_context("fork")
        chunks = [cases[i::procs] for i in range(procs)]
        with ctx.Pool(procs) as pool:
            parts = pool.map(_pool_task, [(c, repeats, deadline, class_mode, seed) for c in chunks])
    else:
        parts = [explore_cases(cases, repeats, deadline, class_mode, seed)]
    out = dict(stats=_new_stats(), findings={}, sig_counts={}, per_function={}, per_url={}, samples=[],
               cases=0, exhaustive_cases=0, scheduled_cases=0, invalid_cases=0, invalid_samples=[],
               skipped_for_time=0, runs=0, steps=0)
    for part in parts:
        for k in ("cases", "exhaustive_cases", "scheduled_cases", "invalid_cases", "skipped_for_time",
                  "runs", "steps"):
            out[k] += part[k]
        _merge_counts(out["stats"], part["stats"])
        _merge_counts(out["sig_counts"], part["sig_counts"])
        _merge_counts(out["per_function"], part["per_function"])
        _merge_counts(out["per_url"], part["per_url"])
        out["samples"] += part["samples"][:1]
        out["invalid_samples"] += part["invalid_samples"][:1]
        for sig, cv in part["findings"].items():
            out["findings"].setdefault(sig, cv)
    out["samples"] = out["samples"][:4]
    out["invalid_samples"] = out["invalid_samples"][:4]
    if progress:
        print("  [%5.1fs] %d cases, %d runs, %d signatures" % (time.time() - t0, out["cases"], out["runs"],
                                                             len(out["findings"])))
    tmpbase = _mktmp()
    install()
    try:
        shrunk = {}
        shrink_left = 120.0 if thorough else 12.0
        n_shrunk = 0
        for sig in sorted(out["findings"]):
            case, v = out["findings"][sig]
            if sig not in known_sigs and sig not in PENDING_FINDINGS and sig not in LAYER_ANSWERS and n_shrunk < 10 and shrink_left > 0.5 and v["fault_kind"] != "real":
                ts = time.time()
                case, v = shrink(case, v, tmpbase, budget_s=min(shrink_left, 20.0 if thorough else 3.0))
                shrink_left -= time.time() - ts
                n_shrunk += 1
            shrunk[sig] = (case, v)
        real = real_failure_sweep(tier, seed, tmpbase, time.time() + (240.0 if thorough else 30.0))
        for sig, cv in real["findings"].items():
            shrunk.setdefault(sig, cv)
            out["sig_counts"][sig] = out["sig_counts"].get(sig, 0) + real["sig_counts"][sig]
        out["real_failures"] = dict((k, v) for k, v in real.items() if k != "findings")
        out["findings"] = shrunk
        out["model_tie"] = model_crosscheck(tier, tmpbase)
    finally:
        INJ.armed = False
        uninstall()
        shutil.rmtree(tmpbase, ignore_errors=True)
    out.update(universe=universe, selected=len(cases), procs=procs, wall_s=round(time.time() - t0, 2))
    return out


ASSUMPTIONS = [
    "a failing primitive raises INSTEAD of being performed (no effect), except that a failing write "
    "may first have written a prefix of its data; failures that happen after the effect (e.g. a "
    "remove that deleted the file and then reported an error) are outside the statement",
    "exactly one primitive fails per run (single-fault); later primitives, including the cleanup "
    "ones, succeed -- except in the 'halt' kind where every later step of every thread fails too",
    "'crash' raises a BaseException subclass at step k only: Python still runs finally blocks and "
    "__exit__ methods (files are closed, Copier.stop runs); 'halt' models the process stopping: "
    "finally blocks run but every further primitive and queue operation raises, so the storage is "
    "what it was at the moment of the stop; unflushed userspace buffers (OSFS file objects are "
    "modelled as buffered until close) are lost",
    "with workers > 0 the thread schedule is the operating system's (faults addressed by "
    "(primitive, filesystem, path, occurrence)); the enumeration is complete over fault sites but "
    "not over schedules -- schedule coverage is C09's deterministic scheduler",
    "recovered by design (the call may return normally after the fault): " +
    "; ".join("%s/%s: %s" % (k[0], k[1], v) for k, v in sorted(RECOVERED_BY_DESIGN.items())) +
    ". Nothing else is: FS.exists only absorbs ResourceNotFound, Walker re-raises scan errors "
    "(on_error default), copy_modified_time / setinfo failures propagate, worker errors surface as "
    "BulkCopyFailed",
    "the Coq model (Fault/MoveFault.v) writes through to the destination (MemoryFS semantics); the "
    "buffered OSFS behaviour is covered by the harness only",
    "FS URLs: only URLs of a temp directory (osfs://<dir>, <dir>, osfs://<dir>/) can stand for a populated "
    "storage; fs.opener.open_fs ignores a '!sub/path' suffix, so there is no sub-path URL form to drive; the "
    "filesystem objects the library opens for a URL are instrumented in the native style only (by root "
    "directory), opening and closing them are not fault points",
    "real failures (real_failure_sweep): obstacles that fail for any user id (directory in the way of a file, "
    "file in the way of a directory, missing or non-directory parent); permission based obstacles are not used "
    "because the check may run as root",
]


def run(report):
    proof = common.preflight(report)
    local = dict((k["signature"], k) for k in load_local_known())
    known_sigs = set(local) | set(k.get("signature") for k in report.known)
    out = explore(report.tier, report.seed, known_sigs=known_sigs)
    reported = 0
    pending = {}
    layer_answers = {}
    for sig in sorted(out["findings"]):
        case, v = out["findings"][sig]
        entry = report.known_match(sig) or local.get(sig)
        if entry:
            report.known_finding(entry, example=payload_of(case, v))
            continue
        if sig in LAYER_ANSWERS:
            layer_answers[sig] = payload_of(case, v)
            continue
        if sig in PENDING_FINDINGS:
            pending[sig] = payload_of(case, v)
            continue
        if reported < 10:
            report.violation(payload_of(case, v))
            reported += 1
    tie = out["model_tie"]
    if tie.get("ran") and tie.get("disagree"):
        report.violation(dict(kind="model-differs-from-implementation", tie=tie, theorem=THEOREM),
                         no_input=True)
    st = out["stats"]
    cov = dict(
        evaluations=out["runs"],
        distinct_nontrivial=st["nontrivial"],
        rule="one evaluation = one run of a move call with one fault (case x step k x fault kind "
             "[x write-prefix variant]); all are distinct by construction; non-trivial = the fault "
             "fired and at least one source file was in the scope of the move (so the no-loss "
             "predicate was applied to real data); url_runs of them give the source and / or the destination as "
             "an FS URL; the real_failure_runs (nothing injected, an obstacle at the destination) come on top",
        cases=out["cases"], case_universe=out["universe"], cases_selected=out["selected"],
        cases_skipped_for_time=out["skipped_for_time"], invalid_cases=out["invalid_cases"],
        invalid_samples=out["invalid_samples"],
        exhaustive=True,
        exhaustive_scope="per case with workers == 0 (%d cases): every step k of the recorded "
                         "primitive sequence x every fault kind was run; the %d cases with workers "
                         "> 0 enumerate every fault site under OS schedules (not exhaustive over "
                         "schedules); the case list itself is %s"
                         % (out["exhaustive_cases"], out["scheduled_cases"],
                            "complete for the generator" if report.tier == "thorough" and not out["skipped_for_time"]
                            else "a stratified sample of the generator's universe"),
        histogram_failed_primitive=dict(sorted(st["by_primitive"].items())),
        histogram_fault_kind=dict(sorted(st["by_kind"].items())),
        histogram_outcomes=dict(sorted(st["outcomes"].items())),
        histogram_errors=dict(sorted(st["errors"].items())),
        fault_not_fired=st["not_fired"], nondeterministic_prefixes=st["nondeterministic"],
        runs_per_configuration=dict(sorted(out["per_function"].items(), key=lambda kv: -kv[1])[:60]),
        signatures_observed=out["sig_counts"],
        pending_findings=pending,
        layer_answers=layer_answers,
        error_classes_injected=list(CAUGHT_CLASSES),
        error_class_catch_sites=dict((k, v) for k, v in sorted(CAUGHT_SITES.items())),
        error_class_rule="fault kind fs:<Class> = the failing step raises that fs.errors class (every class named by "
                         "an except clause of the library sources + %s); quick: the classes caught in >= 2 places (%s) + %d rotating others at every %s "
                         "step, one rotating class at every other step; thorough: every class at every step.  Oracle: no source "
                         "data lost; a call that returns normally after such an answer must have completed the move"
                         % ("/".join(ALWAYS_CLASSES), "/".join(HOT_CLASSES), QUICK_ROTATING, "/".join(CLASS_KEY_PRIMS)),
        class_fault_runs=sum(st["class_faults"].values()),
        class_fault_runs_by_primitive_and_class=dict(sorted(st["class_faults"].items())),
        class_faults_taken_as_answer=dict(sorted(st["class_taken_as_answer"].items())),
        url_runs=sum(n for k, n in out["per_url"].items()),
        url_runs_by_form=dict(sorted(out["per_url"].items())),
        real_failure_runs=out["real_failures"]["runs"],
        real_failure_runs_that_raised=out["real_failures"]["raised"],
        real_failures=out["real_failures"],
        recovered_by_design=dict(("%s/%s" % k, v) for k, v in RECOVERED_BY_DESIGN.items()),
        model_tie=tie, samples=out["samples"],
        traces_validated_against_impl=tie.get("agree", 0), disagreements_checked=tie.get("disagree", 0))
    return report.finish(proof, cov, assumptions=ASSUMPTIONS)


def replay(report, path):
    with open(path) as fh:
        d = json.load(fh)
    if d.get("kind") == "model-differs-from-implementation":
        tmpbase = _mktmp()
        install()
        try:
            tie = model_crosscheck(d.get("tier", "quick"), tmpbase)
        finally:
            INJ.armed = False
            uninstall()
            shutil.rmtree(tmpbase, ignore_errors=True)
        print(json.dumps(tie, indent=1))
        return 1 if (not tie.get("ran") or tie.get("disagree")) else 0
    case = d["case"]
    fkind = d["fault_kind"]
    if fkind == "real":
        tmpbase = _mktmp()
        install()
        failed = 0
        try:
            for attempt in range(1 if case["args"].get("workers", 0) == 0 else 25):
                res = run_once(case, tmpbase)
                viols = [v for v in judge_real(case, res) if v[0] == d["kind"]]
                if attempt == 0 or viols:
                    print("function  :", case["function"], case["style"], case["backends"], json.dumps(case["args"]),
                          "url=%s (%s)" % (case.get("url"), case.get("url_form")))
                    print("obstacle  :", case.get("real"), json.dumps(case.get("dst_tree")))
                    print("outcome   :", res["outcome"], res["error"] or "")
                    print("before    :", dict((p, _enc(b)) for p, b in sorted(res["before"].items())))
                    print("src_after :", dict((p, _enc(b)) for p, b in sorted(res["src_after"].items())))
                    print("dst_after :", dict((p, _enc(b)) for p, b in sorted(res["dst_after"].items())))
                if viols:
                    print("STILL FAILS:", viols[0][0], json.dumps(viols[0][1])[:600])
                    failed = 1
                    break
            if not failed:
                print("does not fail any more")
        finally:
            INJ.armed = False
            uninstall()
            shutil.rmtree(tmpbase, ignore_errors=True)
        return failed
    prefix = fkind.endswith("+prefix")
    kind = fkind.split("+")[0]
    workers = case["args"].get("workers", 0)
    target = d["fault_step"] if workers == 0 else tuple(d["fault_key"])
    tmpbase = _mktmp()
    install()
    failed = 0
    try:
        for attempt in range(1 if workers == 0 else 25):
            res = run_once(case, tmpbase, target, kind, prefix)
            viols = [v for v in judge(case, res, kind.split("-")[0]) if v[0] == d["kind"]]
            if attempt == 0 or viols:
                print("function  :", case["function"], case["style"], case["backends"], json.dumps(case["args"]),
                      ("url=%s (%s)" % (case["url"], case.get("url_form"))) if case.get("url") else "")
                print("fault     : step %s (%s) %s" % (d["fault_step"], d["primitive"], fkind))
                print("primitives:", " | ".join(key_str(k) for k in res["trace"]))
                print("outcome   :", res["outcome"], res["error"] or "")
                print("before    :", dict((p, _enc(b)) for p, b in sorted(res["before"].items())))
                print("src_after :", dict((p, _enc(b)) for p, b in sorted(res["src_after"].items())))
                print("dst_after :", dict((p, _enc(b)) for p, b in sorted(res["dst_after"].items())))
            if viols:
                print("STILL FAILS:", viols[0][0], json.dumps(viols[0][1])[:600])
                failed = 1
                break
        if not failed:
            print("does not fail any more")
    finally:
        INJ.armed = False
        uninstall()
        shutil.rmtree(tmpbase, ignore_errors=True)
    return failed


if __name__ == "__main__":
    import sys
    tier = sys.argv[1] if len(sys.argv) > 1 else "quick"
    res = explore(tier, common.seed_from_env(), progress=True)
    print(json.dumps(dict((k, v) for k, v in res.items() if k not in ("findings", "samples")),
                     indent=1, sort_keys=True, default=str))
    for sig in sorted(res["findings"]):
        case, v = res["findings"][sig]
        pl = payload_of(case, v)
        print("SIGNATURE:", sig, "x%d" % res["sig_counts"].get(sig, 0))
        print("   ", json.dumps(dict(case=pl["case"], fault_step=pl["fault_step"], detail=pl["detail"],
                                     outcome=pl["outcome"], error=pl["error"], primitives=pl["primitives"],
                                     src_after=pl["src_after"], dst_after=pl["dst_after"]))[:1500])
